#!/usr/bin/env python3
"""try_seed.py <worktree> <mutation dir> <property> [more properties...]
Apply a seeded change in a scratch worktree, run the checks against that worktree (VERIF_REPO), undo it.
Prints one JSON line: which checks caught it."""
import json, os, subprocess, sys, time
wt, md, props = sys.argv[1], sys.argv[2], sys.argv[3:]
def sh(cmd, **kw):
    return subprocess.run(cmd, cwd=wt, capture_output=True, text=True, shell=isinstance(cmd, str), **kw)
sh("git checkout -q -- . && git clean -fdq -e seed_out -e target")
r = sh(["git", "apply", os.path.join(md, "patch.diff")])
assert r.returncode == 0, r.stderr
out = {"mutation": md, "results": {}}
try:
    for p in props:
        t0 = time.time()
        env = dict(os.environ, VERIF_REPO=wt)
        r = subprocess.run(["/verif/bin/check", p, "--tier", os.environ.get("SEED_TIER", "quick")], cwd="/verif", env=env,
                           capture_output=True, text=True)
        viol = [l for l in r.stdout.splitlines() if l.startswith("VIOLATION")]
        detail = [l.strip() for l in r.stdout.splitlines() if l.startswith("  ")][:4]
        out["results"][p] = dict(exit=r.returncode, violations=len(viol), detail=detail,
                                 known=[l for l in r.stdout.splitlines() if l.startswith("KNOWN")][:2],
                                 wall=round(time.time() - t0), err=r.stderr[-400:] if r.returncode == 2 else "")
        if r.returncode == 1 and os.environ.get("SEED_STOP_ON_CATCH", "1") == "1":
            break
finally:
    sh("git checkout -q -- . && git clean -fdq -e seed_out -e target")
print(json.dumps(out))
