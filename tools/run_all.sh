#!/bin/bash
# run_all.sh <tier> <ids...>: run checks one after the other, one log per check, summary line each
tier=$1; shift
cd "$(dirname "$0")/.."
mkdir -p work/runall
for p in "$@"; do
  t0=$(date +%s)
  bin/check $p --tier $tier > work/runall/$p-$tier.log 2>&1
  rc=$?
  echo "$p $tier exit=$rc wall=$(( $(date +%s) - t0 ))s $(grep -c '^VIOLATION' work/runall/$p-$tier.log) violations $(grep -c '^KNOWN-FINDING' work/runall/$p-$tier.log) known" | tee -a work/runall/summary.txt
done
