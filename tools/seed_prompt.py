#!/usr/bin/env python3
"""seed_prompt.py <root> <property>: the prompt for a sub-agent that writes seeded changes for <property> in the scratch
worktree <root>/<property>. Only the property text goes in (plus the titles of changes already delivered, so that a
further round produces different ones); nothing from /verif."""
import glob, json, os, sys
root, pid = sys.argv[1], sys.argv[2]
V = os.path.dirname(os.path.dirname(os.path.abspath(__file__)))
prop = next(json.loads(l) for l in open(os.path.join(V, "properties.jsonl")) if json.loads(l)["id"] == pid)
wt = os.path.join(root, pid)
prev = []
for f in sorted(glob.glob(os.path.join(V, "seeded", f"{pid}-*", "meta.json"))):
    prev.append(json.load(open(f))["title"])
files = ", ".join(prop["anchors"]["files"])
more = ""
if prev:
    more = ("\n\nFURTHER ROUND: another author already delivered these changes for this property; produce three DIFFERENT ones "
            "(other code sites or other mechanisms), and prefer changes that are harder to notice - ones whose effect needs a "
            "rarer configuration, a longer sequence, or only shows in a value that looks plausible:\n"
            + "\n".join(f" - {t}" for t in prev))
print(f"""You are helping to evaluate a verification framework for the Rust crate ethercrab (a pure-Rust EtherCAT MainDevice). Your job is to act as a "mutation author": write realistic, subtle code changes that BREAK one stated semantic property of the crate while the crate still compiles and its existing test suite still passes.

Work ONLY inside your own scratch git worktree of the repository: {wt}
(Do not touch /repo or /verif; do not read anything under /verif.) The sandbox has no network. Build and test with:
  cd {wt} && RUSTUP_TOOLCHAIN=1.88.0 cargo test --workspace --no-fail-fast --offline
(first build takes a few minutes; one known-flaky test `replay_ek1914_no_complete_access` and the replay tests named replay_ek1100_alias_address, replay_ek1100_el2828_el2889, replay_ek1914_el3004_configure, replay_ek1914_el3004_mailbox, replay_ek1914_segmented_upload, replay_dc, replay_issue_255, large_group_frame_split and fuzz_pdi_segment may fail intermittently under load regardless of your change - rerun those alone before believing them, everything else must pass).
Code guarded by `#[cfg(ethercrab_verif)]` is instrumentation that is compiled out in normal builds; leave those lines alone (do not delete or move them), but you may change the real code around them.

THE PROPERTY ({pid}: {prop['title']})
{prop['statement']}

Scope / quantifier of the property: {prop['quantifier']['text']}

Relevant source files: {files}
{more}
Never use `git stash` (it is shared between worktrees); undo changes with `git checkout -- .`.

WHAT TO PRODUCE: 3 different changes (mutations), each breaking the property in a different way. Requirements for EACH change:
 1. It is a small source change to the crate (src/... or ethercrab-wire*/...), the kind of slip a maintainer could plausibly make in a refactoring or "optimisation" (off-by-one, wrong boundary, dropped check, swapped operands, wrong rounding, missing case on one path, wrong index, stale value, ...). Not a deliberate sabotage comment, not a change to tests.
 2. The crate still compiles and the existing test suite still passes with it (run it!).
 3. It needs something SPECIFIC to manifest: a particular configuration or input (sizes, counts, boundary values), a fault at a particular point, a multi-step sequence of operations, an unusual device, or two cooperating sites that each look fine alone. Changes that ordinary single-threaded happy-path use would expose at once are NOT wanted.
 4. You provide a demonstration: a new test file (e.g. {wt}/tests/seed_<name>.rs, or a #[cfg(test)] unit test inside the crate if it needs crate-private items) that FAILS with your change applied and PASSES on the unchanged code. The demonstration may drive the internals deterministically (unit tests inside the crate with crate-private items, hand-made byte images, mock providers, or the replay-style tests in tests/ as a pattern) - it does not need real hardware. Name test functions / modules seed_{pid.lower()}_m<i>...
 5. Verify both directions yourself (demo fails with change; demo passes without; existing suite passes with change).

DELIVERABLE: for each change i (1..3) create a directory {wt}/seed_out/m<i>/ containing
   patch.diff   - `git diff` of ONLY the source change (not the demo test), applicable with `git apply` at the repository root of a clean checkout of the same commit
   demo.diff    - `git diff`/new-file diff adding ONLY the demonstration test (applicable on top of either tree)
   README.md    - which clause of the property it breaks, what it needs in order to manifest, and the exact commands you ran with their outcomes
Leave the worktree itself clean of the mutation at the end (git checkout -- .), keeping only seed_out/. Finish with a short summary listing the mutations. Do not spend effort on anything else.""")
