#!/usr/bin/env python3
"""Lint a TLA+ module: for every action (definition containing a primed variable or UNCHANGED)
report variables that are neither primed nor listed under UNCHANGED (groups expanded).
Helper operators whose primes are meant to be conjoined (listed in HELPERS) are inlined by name."""
import re, sys
src = open(sys.argv[1]).read()
src = re.sub(r'\(\*.*?\*\)', '', src, flags=re.S)
src = re.sub(r'\\\*.*', '', src)
m = re.search(r'\nVARIABLES?\b(.*?)\n(?=\w+(?:\([^)]*\))?\s*==)', src, flags=re.S)
vars_ = [v.strip() for v in m.group(1).replace('\n', ' ').split(',') if v.strip()]
groups = {}
for g in re.finditer(r'^(\w+)\s*==\s*<<([^>]*)>>\s*$', src, flags=re.M):
    names = [x.strip() for x in g.group(2).replace('\n', ' ').split(',')]
    if all(n in vars_ or n in groups for n in names):
        groups[g.group(1)] = names
def expand(n):
    if n in groups:
        out = []
        for x in groups[n]:
            out += expand(x)
        return out
    return [n]
defs = re.split(r'\n(?=\w+(?:\([^)]*\))?\s*==)', src)
bodies = {}
for d in defs:
    mm = re.match(r'(\w+)(?:\([^)]*\))?\s*==', d)
    if mm:
        bodies[mm.group(1)] = d
def assigned(name, seen=()):
    d = bodies[name]
    got = set(re.findall(r"(\w+)'", d))
    for u in re.finditer(r'UNCHANGED\s*(<<[^>]*>>|\w+)', d):
        t = u.group(1)
        names = re.findall(r'\w+', t)
        for n in names:
            got.update(expand(n))
    for h in re.findall(r'\b([A-Z]\w+)\b', d):
        if h in bodies and h != name and h not in seen and h in HELPERS:
            got |= assigned(h, seen + (name,))
    return got
HELPERS = set(sys.argv[2:])
bad = 0
for name, d in bodies.items():
    if name in HELPERS or name in groups:
        continue
    if "'" not in d and 'UNCHANGED' not in d:
        continue
    if re.search(r'\\/\s*\w+', d) and "'" not in re.sub(r'\\/.*', '', d):
        # pure disjunction of other actions
        if not re.search(r"\w+'\s*=", d):
            continue
    if '[][' in d:
        continue
    miss = [v for v in vars_ if v not in assigned(name)]
    if miss:
        bad += 1
        print(f'{name}: missing {miss}')
sys.exit(1 if bad else 0)
