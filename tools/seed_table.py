#!/usr/bin/env python3
"""seed_table.py: markdown table of the seeded changes (seeded/*/meta.json) for DESIGN.md 11.6."""
import glob, json, os
V = os.path.dirname(os.path.dirname(os.path.abspath(__file__)))
rows = []
for f in sorted(glob.glob(os.path.join(V, "seeded", "*", "meta.json"))):
    m = json.load(open(f))
    first = {k: v["exit"] for k, v in m.get("checks_run_first", m.get("checks_run", {})).items()}
    caught = ", ".join(m.get("caught_by", [])) or "-"
    note = ("missed by " + ", ".join(m["missed_at_first"]) + " at first, see 11.5") if m.get("missed_at_first") else ""
    rows.append((m["id"], m["title"][:110].replace("|", "/"), caught, note))
print("| change | what it does | caught by | note |")
print("|---|---|---|---|")
for r in rows:
    print("| " + " | ".join(r) + " |")
