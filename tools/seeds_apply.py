#!/usr/bin/env python3
"""seeds_apply.py: record in every seeded/<id>/meta.json whether patch.diff (and demo.diff on top of it) still applies to
/repo's HEAD (`git apply --check`, nothing is changed in /repo)."""
import json, os, subprocess, sys
V = os.path.dirname(os.path.dirname(os.path.abspath(__file__)))
repo = os.environ.get("VERIF_REPO", "/repo")
head = subprocess.check_output(["git", "-C", repo, "rev-parse", "--short", "HEAD"], text=True).strip()
bad = 0
for d in sorted(os.listdir(os.path.join(V, "seeded"))):
    mp = os.path.join(V, "seeded", d, "meta.json")
    if not os.path.exists(mp):
        continue
    ok = subprocess.run(["git", "-C", repo, "apply", "--check", os.path.join(V, "seeded", d, "patch.diff")],
                        capture_output=True).returncode == 0
    j = json.load(open(mp))
    j["applies_to_current_head"] = ok
    j["checked_against_head"] = head
    json.dump(j, open(mp, "w"), indent=1)
    if not ok:
        bad += 1
        print("does not apply:", d)
print(f"{head}: {bad} seeded changes do not apply")
