#!/bin/bash
# run_all_seed.sh <seed> <ids...>: quick tier with another seed (false-alarm hunt); evidence is restored afterwards
seed=$1; shift
cd "$(dirname "$0")/.."
mkdir -p work/runall work/evidence_keep
cp evidence/*.json work/evidence_keep/
for p in "$@"; do
  t0=$(date +%s)
  VERIF_SEED=$seed bin/check $p --tier quick > work/runall/$p-seed$seed.log 2>&1
  rc=$?
  echo "$p seed=$seed exit=$rc wall=$(( $(date +%s) - t0 ))s $(grep -c '^VIOLATION' work/runall/$p-seed$seed.log) violations" | tee -a work/runall/summary-seeds.txt
  cp work/evidence_keep/$p.json evidence/$p.json 2>/dev/null
done
