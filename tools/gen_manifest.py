#!/usr/bin/env python3
"""Regenerates MANIFEST.json from the table below (kept in one place so it stays valid)."""
import json, os
V = os.path.dirname(os.path.dirname(os.path.abspath(__file__)))
CHECKS = {
 "C02": dict(engine="pduloop", section="6/C02",
   text="TLC explores every interleaving of PduLoop.tla (one action per shared-state access of the real code) for 1-2 slots and 2 tasks and proves MutualExclusion, NoWriterWhileViewed, ClaimOnlyWhenFree and LifecycleOrder; TLC-generated behaviours and seeded schedules are then executed on the real PDU loop under a token scheduler, every recorded trace is validated step by step against the specification (PduLoopTrace) and judged by the TLA+ monitor (PduLoopMonitor).",
   note="Sequentially consistent interleavings; bounds 1-2 slots / 2-3 tasks exhaustive, beyond seeded; access windows are those bracketed by the BufBegin/BufEnd yield points."),
}
CHECKS.update({
 "C01": dict(engine="pduloop", section="6/C01",
   text="TLC proves NoMisroute, ViewStable, OkIsOwn, NoLostWake, NoGenuineReject and the liveness property Resolves (every request completes, under weak fairness) for every interleaving of PduLoop.tla with 1-2 slots and 2 tasks under the property's assumptions; TLC behaviours and seeded schedules (up to 4 slots / 3 tasks, real 8-bit index wrap) run on the real PDU loop with random payloads; every trace is validated against the specification and the monitor compares the bytes and working counter each caller got with what the simulated wire generated, and every front-trim 0..len+1 and later view read with the expected slice.",
   note="Sequentially consistent interleavings; no deadline fires, response only after mark_sent, index assumption scaled to IdxMod=4 in the exhaustive runs (real 256 in replays); views taken through first_pdu (the public single-datagram path)."),
 "C03": dict(engine="pduloop", section="6/C03",
   text="TLC proves NoLeak, NoOrphan and FreeMeansUnowned on PduLoop.tla for each fault family (deadlines with retries, dropped futures, lost/duplicate responses, failed and partial sends, dropped created frames) separately and exhaustively; histories from TLC and from a seeded scheduler combining all families run on the real loop, are drained, and end with the property's probe (allocate until failure through the real allocator; must be exactly N).",
   note="Release exactly while TX/RX is inside the buffer is cut (C06's window); PduLoop::reset is not yet part of the model (probe only)."),
 "C06": dict(engine="pduloop", section="6/C06",
   text="TLC proves, with deadlines firing at every point, MutualExclusion, NoMisroute, OkIsOwn (a timeout is never success), NoLeak, NoOrphan, TxCountBound, TxCountExact under the property's transmit-promptness assumption, and the liveness property Resolves (never hanging); band B without the cut reproduces the listed known finding from a TLC counterexample executed on the real code. Seeded and TLC-generated schedules on the real loop are validated against the specification and judged by the monitor (transmission count, byte-identical retransmissions, no foreign data, no leak, no panic).",
   note="Known finding F4 (known_findings.json) is cut in band A and must be the only thing band B shows; virtual per-task clocks; retries 0..3."),
})
CHECKS.update({
 "C04": dict(engine="framebuild", section="6/C04",
   text="FrameBuild.tla models push_pdu / push_pdu_slice_rest / mark_sendable over an abstract datagram list and defines Encode, an independent byte-level encoder of the EtherCAT frame. TLC enumerates every push program over an operation alphabet (all 11 command kinds, both address forms, lengths and overrides around the remaining space, fill-the-rest 0..2*capacity) for frame sizes from the 28-byte minimum, proves NeverExceedsCapacity, LengthFieldExact, WellFormed (datagrams tile the payload, more-follows on all but the last, zero working counter and IRQ) and Headers on the model, and prints each program; the harness executes each program, and seeded programs for every frame size up to 1514, on a real CreatedFrame; TLC (FrameBuildTrace) then requires every answer of every push and every transmitted byte to equal ApplyOp/Encode.",
   note="The TLA+ Encode operator is the trusted independent encoder; datagram indices are taken from the returned handles; frame sizes come from a const-generic table (28..64, then selected sizes up to 1514)."),
})
CHECKS.update({
 "C05": dict(engine="rxtriage", section="6/C05",
   text="RxTriage.tla transcribes the receive path's byte-level triage (Ethernet check, ethertype/source filter, EtherCAT header, length slicing, index extraction, search among slots awaiting a response, claim, copy) as the operator Triage over byte sequences and slot-state vectors. TLC enumerates every slot-state vector (11 preparations per slot, 1 and 2 slots) times every structure-aware mutation of a valid reply (every truncation, ethertype, own/foreign source, protocol nibble, 11 boundary values of the length field, matching/stale/absent indices, with and without enough trailing bytes) and proves OnlyAcceptedSlotChanges, AcceptedOnlyIntoAwaitingSlot, OwnAndForeignIgnored, NoMatchNoAccept; the same cases and seeded arbitrary byte strings (up to 4 slots) are delivered to the real PduRx with slot states prepared through the real API, every slot (state, index word, whole buffer) is snapshotted before and after, and TLC checks the property clauses on the snapshots (monitor) and equality with Triage (conformance).",
   note="Deliveries are sequential; 'accepted into' = the slot the receive side claimed (an oversize matching frame may leave it RxBusy); panics are caught and reported as violations."),
})
CHECKS.update({
 "C19": dict(engine="wirelayout", section="6/C19",
   text="WireLayout.tla defines the positional reference semantics of a declared layout (Pack / Unpack over bit positions, Valid = the derive macro's alignment rules, EnumDecode with Rust's numbering of implicit discriminants). TLC checks NoOverlap, RoundTrip and UndeclaredZero exhaustively for all valid layouts of up to 2-3 fields over widths {1,2,3,5,7,8,16,32,64} and skips {0,1,3,8} and draws several hundred layouts of up to 12 fields by simulation; each layout is turned into a #[derive(EtherCrabWireReadWrite)] type (with generated enums: explicit/implicit discriminants, alternatives, catch-all, default), compiled against the in-repo macro, and exercised with seeded values and buffers (pack, pack_to_slice into exact/short/long destinations, unpack_from_slice of long/exact/short arbitrary buffers, round trip); TLC (WireLayoutTrace) requires every packed image and every unpacked field to equal Pack / Unpack / EnumDecode.",
   note="Field kinds generated so far: sub-byte u8, bool, u16..u64 / i16..i64, [u8; N], u8/u16-repr enums; nested structs and the crate's own wire types are not generated yet. The TLA+ Pack/Unpack operators are the trusted reference."),
})
CHECKS.update({
 "C09": dict(engine="init", section="6/C09",
   text="InitSeq.tla specifies MainDevice::init as a protocol with a ring of abstract SubDevices (count, assign station addresses by ring position, read identities through the configured addresses - answered by every device holding that address -, group, PRE-OP). TLC explores every network of 0..4(5) devices with arbitrary prior station addresses (duplicates, collisions with 0x1000+j), DC kinds, 1-3 groups, four group filters and capacities, and proves CountExact, AddressesBasePlusIndex, Distinct, IdentityFromOwnEeprom, ExactlyOneGroup, AllPreOp, OverCapacityIsError, EmptyNetworkEmptyGroups, NoAmbiguousRead. The enumerated networks and seeded ones (up to 18 devices) are built on the simulated segment, the real init runs, and InitTrace makes each record the initial state of InitSeq: the model's final state must agree with the returned groups and the devices' registers, and the property's clauses are evaluated on the observations (names, identities, alias, DC capability, station/AL registers, order of address writes vs. first configured access).",
   note="simdev (simulated segment, calibrated byte-exactly on two repository captures) is the trusted device model; ring positions inferred from configured addresses; empty network = frame returned unprocessed."),
 "C10": dict(engine="alstate", section="6/C10",
   text="AlState.tla specifies the group transition (request to every member, polling rounds split over frames, timeout) against devices following scripted AL behaviour (accept after k polls, refuse with error indication, stall, fall back). TLC proves OkImpliesAllReportedAtCheck, BadDeviceMeansError, ErrWithinTimeout, RequestToAllMembersOnly for every script vector over three group shapes (single frame, several status frames, two groups). The same script vectors run through the real into_safe_op on the simulated segment and AlStateTrace requires the model's verdict; seeded multi-stage transitions (into_op, request_into_op, into_pre_op, into_init, up to 8 devices) are judged by the monitor clauses (state after success, error within the timeout, AL control writes to members only and in the right chain), and TxRxSummaryTrace checks the per-cycle state list and its summaries against what the devices answered, including devices that do not answer.",
   note="request_into_op is documented not to wait (only the writes are checked); fall-back cases are decided by model conformance; simdev's AL machine is the trusted device model."),
})
CHECKS.update({
 "C11": dict(engine="wkc", section="6/C11",
   text="Wkc.tla models a call as a sequence of datagram steps, each checked against an expected count or documented-unchecked, with an environment that forces a counter, makes the device skip a step or removes it from a step on; TLC proves OkImpliesServiced, ErrorFieldsExact and AbsentIsNoticed for all calls of up to 3-4 steps. On the simulated segment every public data-returning entry point (receive, receive_slice, send_receive, send_receive_slice, broadcast read, register_read/write, status, eeprom_read(_raw), sdo_read, sdo_write, group into_op, process-data cycle) is called with the fault placed at every datagram of the call (full product of modes, expected counts 0..3 and forced counts for the single-datagram entry points) and WkcTrace requires: no success while a checked datagram carried a wrong counter, the exact WorkingCounter{expected, received} for single-datagram calls, error fields that name a really offending datagram, no spurious error.",
   note="The table of checked datagrams per entry point is read off the code (WkcTrace.Expected); WrappedWrite::send and ignore_wkc are exempt by the property text."),
})
CHECKS.update({
 "C07": dict(engine="pdi", section="6/C07",
   text="PdiCycle.tla specifies the chunk loop of the three cycle variants (one action per frame: optional time datagram, fill-the-rest LRW chunk, as many state checks as fit, termination tests). TLC proves Tiling, FitsFrame, OneStatePerSubDeviceInOrder, ExactlyOneClockDatagramFirst, FramesWithinNeed, Terminates for every datagram-area capacity from 14 (34 for the clock variants), image 0..16(24), every input/output split, 0..4 SubDevices. The enumerated configurations and seeded larger ones (all frame sizes of the table up to 1514, images up to 1000 bytes, up to 12 devices, networks without DC for the sync variant) run as real cycles on the simulated segment; PdiCycleTrace makes each group the initial state of PdiCycle and requires the real frames to have exactly the model's datagram shape, and evaluates the property's clauses on the observations: contiguous LRW ranges from the group start, whole image once, frame fits, one FRMW first whose answer is the reported system time, inputs equal the wire's answer, outputs untouched, reported working counter is the sum, one state per SubDevice in group order, frame count within need, termination.",
   note="Real runs need frames that also carry initialisation traffic (datagram area >= 28); smaller capacities are model-only. Group geometry is derived from the wire because the fields are private."),
 "C18": dict(engine="pdi", section="6/C18",
   text="DcSync.tla models configure_dc_sync and the per-cycle arithmetic; TLC checks OnlySelectedTouched, StartIsMultipleInInterval, RangeRejected, OnlyRangeRejected, NoReferenceRejected, SetupTotal, CycleExact exhaustively at scaled widths; Apalache discharges StartInv and CycleInv at the true 64/32-bit widths; the real code runs on the simulated segment with the reference clock preset to boundary and seeded 64-bit values (periods 1..2^32+, delays, shifts, every mix of DC support and sync modes) and DcSyncTrace re-verifies start = k*period, the interval, the activation flags, the untouched devices, offset = time mod period and wait = period - offset + shift with BigNat over quotient witnesses.",
   note="Witness quotients are computed by the driver and re-verified by the specification; the simulated reference clock is the trusted time source."),
 "C08": dict(engine="pdilayout", section="6/C08",
   text="PdiLayout.tla models the layout algorithm (one action per SubDevice and direction: inputs of a group in SubDevice order, then outputs, capacity check, next group at its own start address; per sync manager the SM registers and the FMMU chosen, created or extended) over device descriptions (process data sync managers per direction with the byte length their PDOs need after oversampling, FMMU usage list, FMMU_EX, CoE or EEPROM configured). TLC proves LengthsRight, WindowsRight (inside the image, inputs before outputs, disjoint), MapExact (the FMMUs translate every window byte to exactly the device's process data byte and map nothing else), SmRight, GroupsDisjoint and TooLongIsError for every network of up to 2-3 devices from a family with one or two sync managers per direction, back to back or spaced, one FMMU per direction or per sync manager, 1-3 groups and capacities small enough to reach PdiTooLong. Seeded networks of 1..16 devices (0..8 PDOs per direction, 1..64 bit entries, up to three sync managers per direction, CoE and EEPROM, FMMU_EX, oversampling, 1..3 groups, capacities 16..1024) are configured and cycled by the real MainDevice on the simulated segment; PdiLayoutTrace starts the model from each case and requires the same FMMU and SM registers, image lengths and group results (conformance), and judges the property's clauses on the observations alone: view lengths, FMMU translation of every window byte, disjointness, order, containment, capacity, group disjointness, and that the random outputs written to each SubDevice are what its output memory holds and its input memory is what its inputs show.",
   note="Window positions are derived from the FMMU registers and confirmed by data flow. The EEPROM path programs FMMU[sync manager index] regardless of FMMU_EX (modelled as is; correct on the simulated 8-FMMU ESC)."),
 "C15": dict(engine="coe", section="6/C15",
   text="CoE.tla specifies SDO upload (expedited, normal, segmented) and expedited download at the level of the bytes both sides put into the mailboxes (ETG1000.6 message layouts), one action per mailbox message; the server chooses freely among the responses the standard allows, so TLC explores every transfer type and every segment split that fits mailboxes of 16..24 bytes for objects of 0..25 bytes and destinations of both kinds (integers / fixed arrays, strings / vectors), with aborts, emergencies and responses for another object injected. TLC proves ReadExact, WriteExact, FaultsReported, CounterCycles, NeverBeyondBuffer, OneOutstanding, Progress, and finds the loss of the initiate-response data and the three-byte shift of the unrepaired code. The real sdo_read / sdo_write / sdo_read_array / sdo_write_array run against the simulated CoE server (objects 0..512 bytes, mailboxes 16..1024, all upload modes and forced segment-size patterns incl. the <7 byte last segment, complete access, every abort code, emergencies with arbitrary codes, stale out-mailbox); CoETrace requires every request the MainDevice wrote to be byte for byte the model client's request, feeds every logged response to the model client and requires the same result and bytes, and judges the observations: exact bytes, stored value, abort code, emergency code and register, invalid-response, too-long, counters cycling 1..7.",
   note="Writes of more than four bytes are refused by ethercrab (documented limitation) and judged as 'any outcome'; so are expedited objects larger than an integer destination."),
 "C16": dict(engine="coe", section="6/C16",
   text="CoEHostileMC runs the client of CoE.tla (every device-supplied length guarded the way the code guards it) against an adversary that draws each response from a field-mutated family - length field 0..65535, mailbox type, service (emergency, SDO request / response, SDO information), all kinds of SDO command byte, right and wrong object, complete sizes up to 2^31-1, with and without data; TLC evaluating the client on all of them is the totality argument, and proves NeverBeyondBuffer, RequestsBounded (every non-final segment adds a byte to a bounded buffer: termination) and Ends. Every SDO / SDO information entry point of the real MainDevice is then answered with scripted mailbox contents on the simulated device: field-mutated responses, mutated segment sequences behind a well-formed start, truncations, random bytes, endless repetitions and unsolicited endless fragments, mailbox sizes 16..1024. CoETrace requires an orderly end (no panic, hang, exhausted frame budget), the frame bound that follows from the destination buffer, and - for the typed read entry points - the same value-or-error outcome and value as the model client fed with the logged replies.",
   note="Quick uses a reduced adversary family in TLC (the full one has 34 M states). Mailboxes below 16 bytes are not supported by the simulated device."),
 "C12": dict(engine="eeprom", section="6/C12",
   text="SiiRead.tla models EepromRange (window from start word and byte length, chunk assembly with odd-offset skip and end clamp, 4/8-byte devices); TLC proves ReturnsExactlyRange, NeverBeyondWindow and AccessesBounded for every start, length 0..20 and both chunk sizes. SiiImage.tla specifies the SII format (header words, category list, strings, general, FMMU, sync managers, FMMU_EX, PDOs with entry sums, container limits) as functions of the image bytes. The real MainDevice reads (start word, length) ranges through eeprom_read_raw / eeprom_read::<T> on simulated devices of 8 kbit to 4 Mbit serving 4 or 8 bytes per access, and SiiReadTrace requires exactly the bytes of the harness' own image copy, full length, nothing beyond the count, and the read count SiiRead predicts. Random device descriptions within the property's quantifier are encoded to images; SiiImageTrace requires every query of ethercrab's parser (through the field dump hook) and the identity/name/alias of the initialised SubDevice to equal SiiImage's reading of the image, and SiiImage's reading to equal the description (oracle cross-check).",
   note="Strings longer than the MainDevice's containers (64/128 bytes) are specified as StringTooLong; the port and physical-memory-address fields of the general category are outside the property and not compared (ethercrab reads them two bytes early, see DESIGN 11.3). A string index one past the table is not judged."),
 "C13": dict(engine="eeprom", section="6/C13",
   text="SiiCategories.tla models the category walk with its 16-bit arithmetic made explicit against an adversarial EEPROM (headers chosen freely at every address the walk visits, remembered so that wrapping chains are real loops); TLC proves NoOverflowEvent, Monotone (the cursor strictly increases, hence termination) and NoRevisit for the repaired arithmetic in both the overflow-checking and the wrapping build, and finds the panic and the endless loop when Checked = FALSE. The adversarial seeds of the property (blank, all ones, length 0xFFFF categories, wrap-to-self chains, size word >= 511, string index one past the table, 255 x 255 bit PDO sums, 65 PDOs, 9 sync managers, truncated items), seeded random and structured-then-mutated images are given to the parser (every device access counted and logged) and to a simulated device that the real MainDevice initialises and takes to OP, in a build with and one without overflow checks. SiiHostileTrace requires an orderly end of every query and of the initialisation (no panic, hang, exhausted budget), every query within the access bound derived from the format, and replays the access log against SiiCategories: each access must be a header read, the walk's next step at the address the model computes, or inside the found category.",
   note="The access log holds the first 3000 accesses per case (longer walks are validated on that prefix). TLC infers which category a walk was looking for."),
 "C14": dict(engine="eeprom", section="6/C14",
   text="SiiWrite.tla models the alias update (alias word, CRC-8 poly 0x07 init 0xFF over the first fourteen bytes as they read after the change, recomputed in TLA+ with Bitwise) and write_word's retry loop against a device answering 0..25 command errors; TLC proves RetryBounded, OkMeansStored and EventuallyStored. set_alias_address and eeprom_write_dangerously run on simulated devices with scripted SII behaviour (command errors, busy polls, both chunk sizes); SiiWriteTrace requires exactly two changed words (alias, checksum) with the checksum TLA+ computes from the before-image, every other byte unchanged, the reported alias to be the new one, an error when the device keeps refusing beyond the bound, and generic writes to store exactly the given bytes (odd tail padded with zero) and report the consumed count.",
   note="eeprom_write_dangerously accepts sized integers only (1, 2, 4, 8 bytes); thorough covers thousands of aliases, all 65536 with VERIF_ALL_ALIASES=1."),
})
NOT_BUILT = {}
def main():
    props = [json.loads(l) for l in open(os.path.join(V, "properties.jsonl"))]
    checks = []
    na = []
    for p in props:
        pid = p["id"]
        if pid in CHECKS:
            c = CHECKS[pid]
            checks.append(dict(
                property_id=pid,
                quick_cmd=f"bin/check {pid} --tier quick",
                thorough_cmd=f"bin/check {pid} --tier thorough",
                evidence_file=f"/verif/evidence/{pid}.json",
                replay_cmd_template=f"bin/check {pid} --replay {{path}}",
                engine=c["engine"],
                level_claimed=dict(category="model_checking", text=c["text"], design_ref=f"DESIGN.md section {c['section']}"),
                level_note=c["note"],
                technique="TLA+ specification model-checked with TLC; TLC behaviours replayed into the real code; recorded traces validated against the specification by TLC (strict conformance + monitor)",
            ))
        else:
            na.append(dict(property_id=pid, reason=NOT_BUILT.get(pid, "check not built yet (work in progress; see DESIGN.md section 10)")))
    man = dict(
        version=1,
        setup_cmd="bin/setup",
        hooks=dict(
            guard="ethercrab_verif",
            enable="RUSTFLAGS --cfg ethercrab_verif via /verif/harness/.cargo/config.toml (path dependency on /repo, default-features = false)",
            baseline_off_cmd="cd /repo && RUSTUP_TOOLCHAIN=1.88.0 cargo test --workspace --no-fail-fast --offline",
            source_commits=json.load(open(os.path.join(V, "tools", "hook_commits.json"))),
            add_only=True,
        ),
        engines=[
            dict(name="framebuild", path="checks/framebuild.py", serves_properties=["C04"],
                 kind_free_text="FrameBuild.tla + FrameBuildMC/Trace; harness framebuild (push programs on a real CreatedFrame)"),
            dict(name="rxtriage", path="checks/rxtriage.py", serves_properties=["C05"],
                 kind_free_text="RxTriage.tla + RxTriageMC/Trace; harness rxtriage (prepared slot states, before/after snapshots)"),
            dict(name="wirelayout", path="checks/wirelayout.py", serves_properties=["C19"],
                 kind_free_text="WireLayout.tla + WireLayoutMC/Trace; generated crate harness/wiregen"),
            dict(name="pdilayout", path="checks/pdilayout.py", serves_properties=["C08"],
                 kind_free_text="PdiLayout.tla + PdiLayoutMC/Trace; vsim2 pdi engine (registers, views and process memory of simulated devices)"),
            dict(name="coe", path="checks/coe.py", serves_properties=["C15", "C16"],
                 kind_free_text="CoE.tla + CoEMC / CoEHostileMC / CoETrace; vsim2 coe engine (simulated CoE server with ETG1000.6 layouts, scripted hostile mailbox)"),
            dict(name="eeprom", path="checks/eeprom.py", serves_properties=["C12", "C13", "C14"],
                 kind_free_text="SiiRead/SiiImage/SiiCategories/SiiWrite + SiiReadTrace/SiiImageTrace/SiiHostileTrace/SiiWriteTrace; vsim2 eeprom engine (public API on simulated devices, parser over an in-memory provider through the hooks)"),
            dict(name="simdev", path="harness/simdev", serves_properties=["C07", "C09", "C10", "C11", "C18"],
                 kind_free_text="simulated EtherCAT segment + vsim engines (init, alstate, wkc) driving the real MainDevice under a virtual clock; InitSeq/AlState specifications with trace validation"),
            dict(name="pduloop", path="checks/pduloop.py", serves_properties=[p for p in ["C01","C02","C03","C06"] if p in CHECKS],
                 kind_free_text="PduLoop.tla + PduLoopMC/Trace/Monitor; harness vsched + pduloop (token scheduler over OS threads, virtual embassy-time clock)"),
        ],
        checks=checks,
        not_applicable=na,
        notes="All checks: bin/check <id> --tier quick|thorough. Exit 0 held / 1 VIOLATION / 2 tool error. Known findings: known_findings.json.",
    )
    json.dump(man, open(os.path.join(V, "MANIFEST.json"), "w"), indent=1)
    print("MANIFEST.json:", len(checks), "checks,", len(na), "not claimed")
if __name__ == "__main__":
    main()
