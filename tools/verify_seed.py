#!/usr/bin/env python3
"""verify_seed.py <worktree> <mutation dir>: confirm a seeded change - the demonstration passes on the
unchanged code, fails with the change, and the existing suite still passes with the change."""
import json, os, re, subprocess, sys
wt, md = sys.argv[1], sys.argv[2]
env = dict(os.environ, RUSTUP_TOOLCHAIN="1.88.0", CARGO_NET_OFFLINE="true")
FLAKY = {"replay_ek1914_no_complete_access", "replay_ek1100_alias_address", "replay_ek1100_el2828_el2889",
         "replay_ek1914_el3004_configure", "replay_issue_255", "replay_dc", "replay_ek1914_el3004_mailbox",
         "replay_ek1914_segmented_upload", "fuzz_pdi_segment", "large_group_frame_split"}
def sh(cmd, **kw):
    return subprocess.run(cmd, cwd=wt, env=env, capture_output=True, text=True, shell=isinstance(cmd, str), **kw)
def clean():
    sh("git checkout -q -- . && git clean -fdq -e seed_out -e target")
def demo_targets():
    d = open(os.path.join(md, "demo.diff")).read()
    tg = []
    for m in re.finditer(r"^\+\+\+ b/(\S+)", d, flags=re.M):
        f = m.group(1)
        base = os.path.basename(f)[:-3] if f.endswith(".rs") else ""
        if f.startswith("tests/") and f.endswith(".rs"):
            tg.append(["--test", base])
        elif re.match(r"^(ethercrab-wire(-derive)?)/tests/.*\.rs$", f):
            tg.append(["-p", f.split("/")[0], "--test", base])
        elif f.startswith("src/") and "seed" in base:
            tg.append(["--lib", base])
    # test functions added to an existing test module of the crate: `fn seed_xyz` in added lines of src/ files
    if not tg:
        for blk in re.split(r"^diff --git ", d, flags=re.M):
            if re.match(r"a/src/", blk):
                for m in re.finditer(r"^\+\s*(?:async\s+)?fn (seed\w+)", blk, flags=re.M):
                    t = ["--lib", m.group(1)]
                    if t not in tg:
                        tg.append(t)
    # test modules appended to existing source files: `mod seed_xyz {` in added lines
    for m in re.finditer(r"^\+\s*(?:pub(?:\(crate\))?\s+)?mod (seed\w+)", d, flags=re.M):
        t = ["--lib", m.group(1)]
        if t not in tg:
            tg.append(t)
    return tg
DEMO_TESTS = set()
def run_demo():
    res = []
    for t in demo_targets():
        r = sh(["cargo", "test", "--offline"] + t)
        m = re.findall(r"test result: (\w+)\. (\d+) passed; (\d+) failed", r.stdout)
        ok = bool(m) and all(x[0] == "ok" for x in m) and sum(int(x[1]) for x in m) > 0
        DEMO_TESTS.update(re.findall(r"^test (\S+) \.\.\. (?:FAILED|ok)", r.stdout, flags=re.M))
        res.append((t, ok, m, r.stderr[-300:] if not m else ""))
    return res
out = {"mutation": md}
clean()
r = sh(["git", "apply", os.path.join(md, "demo.diff")])
assert r.returncode == 0, r.stderr
base = run_demo()
out["demo_on_unchanged"] = [(t, ok) for t, ok, _, _ in base]
r = sh(["git", "apply", os.path.join(md, "patch.diff")])
assert r.returncode == 0, r.stderr
mut = run_demo()
out["demo_with_change"] = [(t, ok) for t, ok, _, _ in mut]
r = sh(["cargo", "test", "--workspace", "--no-fail-fast", "--offline"])
failed = set(re.findall(r"^test (\S+) \.\.\. FAILED", r.stdout, flags=re.M))
demo_mods = {t[1] for t in demo_targets()}
other = {f for f in failed if f.split("::")[-1] not in FLAKY and not any(dm in f or f.startswith("seed") for dm in demo_mods)
         and "seed" not in f and f not in DEMO_TESTS}
out["suite_failed"] = sorted(failed)
out["suite_unexpected_failures"] = sorted(other)
out["compiles"] = "error: could not compile" not in r.stderr
out["confirmed"] = (all(ok for _, ok in out["demo_on_unchanged"]) and not all(ok for _, ok in out["demo_with_change"])
                    and not other and out["compiles"] and bool(out["demo_on_unchanged"]))
clean()
print(json.dumps(out))
