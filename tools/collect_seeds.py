#!/usr/bin/env python3
"""collect_seeds.py <seed root> <property> ...: copy confirmed seeded changes (patch, demonstration, description) from the
sub-agents' scratch worktrees into /verif/seeded/<property>-m<k>/ and write meta.json from the verify / try logs."""
import json, os, re, shutil, sys
args = sys.argv[1:]
suffix = ""
if args and args[0].startswith("--suffix="):
    suffix = args.pop(0).split("=", 1)[1] + "-"
root, props = args[0], args[1:]
V = os.path.dirname(os.path.dirname(os.path.abspath(__file__)))
def base_commit(wt):
    import subprocess
    try:
        return subprocess.check_output(["git", "-C", wt, "rev-parse", "--short", "HEAD"], text=True).strip()
    except Exception:
        return "54fe2de4"


def lines(path):
    if not os.path.exists(path):
        return []
    out = []
    for l in open(path):
        l = l.strip()
        if l.startswith("{"):
            try:
                out.append(json.loads(l))
            except ValueError:
                pass
    return out
for p in props:
    verify = {os.path.basename(j["mutation"]): j for j in lines(os.path.join(root, f"{p}.verify.log"))}
    tries, first = {}, {}
    import glob as _glob
    for log in [f"{p}.try.log"] + sorted(os.path.basename(x) for x in _glob.glob(os.path.join(root, f"{p}.retry*.log"))):
        for j in lines(os.path.join(root, log)):
            m_ = os.path.basename(j["mutation"])
            if log.endswith(".try.log"):
                first.setdefault(m_, {}).update(j["results"])
            tries.setdefault(m_, {}).update(j["results"])
    sd = os.path.join(root, p, "seed_out")
    for m in sorted(os.listdir(sd)):
        src = os.path.join(sd, m)
        v = verify.get(m)
        if not v or not v.get("confirmed"):
            print("skip (not confirmed)", p, m)
            continue
        dst = os.path.join(V, "seeded", f"{p}-{suffix}{m}")
        os.makedirs(dst, exist_ok=True)
        for f in ("patch.diff", "demo.diff", "README.md", "suite-summary.txt"):
            if os.path.exists(os.path.join(src, f)):
                shutil.copy(os.path.join(src, f), os.path.join(dst, f))
        readme = open(os.path.join(src, "README.md")).read() if os.path.exists(os.path.join(src, "README.md")) else ""
        title = readme.splitlines()[0].lstrip("# ").strip() if readme else m
        needs = ""
        mm = re.search(r"(?is)##[^\n]*(needs|manifest|trigger)[^\n]*\n(.*?)(\n## |\Z)", readme)
        if mm:
            needs = " ".join(mm.group(2).split())[:900]
        res = tries.get(m, {})
        caught = sorted(k for k, r in res.items() if r.get("exit") == 1)
        meta = dict(property=p, id=f"{p}-{suffix}{m}", title=title, needs_to_manifest=needs,
                    base_commit=base_commit(os.path.join(root, p)),
                    confirmed=dict(demo_passes_on_unchanged=all(ok for _, ok in v["demo_on_unchanged"]),
                                   demo_fails_with_change=not all(ok for _, ok in v["demo_with_change"]),
                                   compiles=v["compiles"], existing_suite_unexpected_failures=v["suite_unexpected_failures"],
                                   how="tools/verify_seed.py in a scratch worktree: apply demo.diff, run it; apply patch.diff, run it "
                                       "again, run the whole suite"),
                    checks_run={k: dict(exit=r["exit"], detail=r.get("detail", [])[:3]) for k, r in res.items()},
                    caught_by=caught,
                    missed_at_first=sorted(k for k, r in first.get(m, {}).items() if r.get("exit") != 1 and res.get(k, {}).get("exit") == 1),
                    how_checks_were_run="tools/try_seed.py: patch applied in the scratch worktree, bin/check <id> --tier quick with "
                                        "VERIF_REPO=<worktree> (private harness copy), undone afterwards")
        json.dump(meta, open(os.path.join(dst, "meta.json"), "w"), indent=1)
        print(p, m, "caught by", caught)
