"""Hostile / adversarial SII EEPROM images for C13, in the sparse form understood by vsim2's eeprom engine:
{"len": bytes, "fill": byte, "words": [[word address, value], ..], "bytes": [[byte offset, [..]], ..]}."""

STRINGS, GENERAL, FMMU, SM, FMMU_EX, TXPDO, RXPDO, DC, END = 10, 30, 40, 41, 42, 50, 51, 60, 0xFFFF
KNOWN = [STRINGS, GENERAL, FMMU, SM, FMMU_EX, TXPDO, RXPDO, DC]


def chain(cats, start=0x40, image_words=0x10000):
    """cats: list of (type, len_words, data bytes or None). Returns (words, bytes) entries; the chain is laid out the way the
    *device-supplied lengths* say (mod 64K words), so overlapping and wrapping chains are possible."""
    words, bts = [], []
    a = start
    for ty, ln, data in cats:
        words.append([a % 0x10000, ty])
        words.append([(a + 1) % 0x10000, ln])
        if data:
            bts.append([((a + 2) % 0x10000) * 2, list(data)])
        a = (a + 2 + ln) % 0x10000
    return words, bts


def image(length, fill, words=(), bts=()):
    return dict(len=length, fill=fill, words=[list(w) for w in words], bytes=[list(b) for b in bts])


def seeds():
    """The adversarial seeds named in the property (deterministic)."""
    out = []
    big = 0x20000
    out.append(("blank_ff_2k", image(2048, 0xFF)))
    out.append(("blank_00_2k", image(2048, 0x00)))
    out.append(("blank_00_128k", image(big, 0x00)))
    out.append(("blank_ff_128k", image(big, 0xFF)))
    out.append(("empty_image", image(0, 0xFF)))
    out.append(("header_only", image(128, 0x00)))
    out.append(("aa_pattern", image(4096, 0xAA)))
    out.append(("fill_01_128k", image(big, 0x01)))       # type 0x0101 len 0x0101 chain through the whole space
    # length 0xFFFF categories
    for ty in (0x0001, STRINGS, SM, TXPDO, RXPDO, FMMU, FMMU_EX, GENERAL):
        w, b = chain([(ty, 0xFFFF, None)])
        out.append((f"len_ffff_ty{ty}", image(big, 0x00, w, b)))
        out.append((f"len_ffff_ty{ty}_small", image(2048, 0xFF, w, b)))
    # a chain that wraps to itself: 0x40 -> 0x8000 -> 0x40
    w, b = chain([(1, 0x8000 - 0x42, None), (2, 0x10000 - 0x8002 + 0x40, None)])
    out.append(("wrap_to_self", image(big, 0x00, w, b)))
    # a chain that wraps to a different address and then continues
    w, b = chain([(1, 0xFFBC, None), (2, 0x0043, None), (3, 5, None)])
    out.append(("wrap_to_0x43", image(big, 0x00, w, b)))
    # one word short of the end of the space, exactly the end, one past
    for ln in (0xFFBC, 0xFFBD, 0xFFBE, 0xFFBF):
        w, b = chain([(1, ln, None), (STRINGS, 4, [1, 3, 65, 66, 67])])
        out.append((f"to_end_{ln:x}", image(big, 0x00, w, b)))
    # every later category empty (31, 32, 33 of them)
    for n in (31, 32, 33, 40):
        w, b = chain([(0x100 + i, 0, None) for i in range(n)] + [(STRINGS, 3, [1, 3, 65, 66, 67, 0]), (END, 0, None)])
        out.append((f"empties_{n}", image(2048, 0xFF, w, b)))
    # size word
    for x in (510, 511, 512, 0x7FFF, 0xFFFF):
        out.append((f"size_word_{x}", image(2048, 0xFF, [[0x3E, x]] + chain([(END, 0, None)])[0])))
    # strings: count 255 of length 255 / index one past the table / length beyond the category
    data = [255] + sum(([255] + [0x41 + (i % 26)] * 255 for i in range(8)), [])
    w, b = chain([(STRINGS, len(data) // 2, data), (END, 0, None)])
    out.append(("strings_255_claimed", image(8192, 0xFF, w, b)))
    data = [3, 1, 65, 1, 66, 1, 67]
    w, b = chain([(STRINGS, 4, data + [0xEE]), (GENERAL, 16, [4, 4, 4, 4] + [0] * 28), (END, 0, None)])
    out.append(("string_idx_one_past", image(2048, 0xFF, w, b)))
    data = [2, 200, 65, 66]
    w, b = chain([(STRINGS, 2, data), (GENERAL, 16, [1, 1, 2, 2] + [0] * 28), (END, 0, None)])
    out.append(("string_len_beyond_category", image(2048, 0xFF, w, b)))
    w, b = chain([(STRINGS, 0, None), (GENERAL, 16, [1, 2, 3, 4] + [0] * 28), (END, 0, None)])
    out.append(("strings_empty_category", image(2048, 0xFF, w, b)))
    # a strings category shorter than what is read from it byte by byte, followed by data that reads as a string
    w, b = chain([(STRINGS, 0, None), (0x0801, 4, [5, 65, 66, 67, 68, 69, 0, 0]), (GENERAL, 16, [1, 1, 1, 1] + [0] * 28), (END, 0, None)])
    out.append(("strings_len0_then_data", image(2048, 0xFF, w, b)))
    w, b = chain([(STRINGS, 1, [1, 9]), (0x0801, 4, [65, 66, 67, 68, 69, 70, 71, 72]), (GENERAL, 16, [1, 1, 1, 1] + [0] * 28), (END, 0, None)])
    out.append(("strings_len1_string_beyond", image(2048, 0xFF, w, b)))
    w, b = chain([(STRINGS, 1, [2, 0]), (0x0809, 4, [3, 66, 67, 68, 69, 70, 71, 72]), (GENERAL, 16, [2, 2, 2, 2] + [0] * 28), (END, 0, None)])
    out.append(("strings_second_beyond", image(2048, 0xFF, w, b)))
    # truncated categories: items cut mid-way
    w, b = chain([(SM, 3, [0, 0x11, 2, 0, 0x64, 0]), (END, 0, None)])
    out.append(("sm_truncated", image(2048, 0xFF, w, b)))
    w, b = chain([(SM, 4 * 9, sum(([0, 0x10 + i, 2, 0, 0x64, 0, 1, 3] for i in range(9)), [])), (END, 0, None)])
    out.append(("sm_nine", image(2048, 0xFF, w, b)))
    w, b = chain([(FMMU, 9, [1, 2, 3] * 6), (END, 0, None)])
    out.append(("fmmu_eighteen", image(2048, 0xFF, w, b)))
    w, b = chain([(FMMU, 2, [7, 9, 200, 4]), (END, 0, None)])
    out.append(("fmmu_unknown_usage", image(2048, 0xFF, w, b)))
    w, b = chain([(FMMU_EX, 3 * 17 // 2 + 1, [1, 0, 0] * 17 + [0]), (END, 0, None)])
    out.append(("fmmuex_seventeen", image(2048, 0xFF, w, b)))
    # PDOs: 255 entries claimed, none present / 255 x 255 bit entries, several on one sync manager / 65 PDOs
    w, b = chain([(TXPDO, 4, [0x00, 0x1A, 255, 0, 0, 0, 0, 0]), (END, 0, None)])
    out.append(("pdo_entries_missing", image(2048, 0xFF, w, b)))
    pdo = lambda idx, sm, n, bits: [idx & 255, idx >> 8, n, sm, 0, 0, 0, 0] + [0x00, 0x60, 1, 0, 0, bits, 0, 0] * n
    for kind in (TXPDO, RXPDO):
        data = pdo(0x1A00, 0, 255, 255) + pdo(0x1A01, 0, 255, 255)
        w, b = chain([(kind, len(data) // 2, data), (END, 0, None)])
        out.append((f"pdo_255x255_twice_{kind}", image(8192, 0xFF, w, b)))
    data = sum((pdo(0x1A00 + i, 0, 0, 0) for i in range(65)), [])
    w, b = chain([(TXPDO, len(data) // 2, data), (END, 0, None)])
    out.append(("pdo_sixtyfive", image(2048, 0xFF, w, b)))
    # categories in the last words of a small device (reads past the memory return 0xFF)
    w, b = chain([(1, 0x3BC, None)], image_words=1024)
    out.append(("last_words_small", image(2048, 0x00, w + [[0x3FE, STRINGS], [0x3FF, 0x7FFF]], b)))
    return out


def random_image(rnd):
    """Structured-then-mutated and plain random images."""
    kind = rnd.choice(["random", "chain", "chain", "mutated_lengths"])
    length = rnd.choice([128, 256, 1024, 2048, 8192, 0x20000])
    fill = rnd.choice([0x00, 0xFF, rnd.randint(0, 255)])
    if kind == "random":
        n = min(length, 600)
        return image(length, fill, [], [[rnd.choice([0, 0x70, 0x80]), [rnd.randint(0, 255) for _ in range(n)]]])
    cats = []
    for _ in range(rnd.randint(1, 12)):
        ty = rnd.choice(KNOWN + KNOWN + [STRINGS, 1, 2, 0x0800, 0x0801, 0x7FFF, rnd.randint(0, 0xFFFE)])
        ln = rnd.choice([0, 0, 1, 2, 3, 4, 8, 16, 17, 64, rnd.randint(0, 300), 0x7FFF, 0x8000, 0xFFFE, 0xFFFF])
        dl = min(ln * 2, 700)
        data = [rnd.choice([0, 1, 2, 3, 8, 16, 255, rnd.randint(0, 255)]) for _ in range(dl)]
        cats.append((ty, ln, data))
    if rnd.random() < 0.6:
        cats.append((END, 0, None))
    w, b = chain(cats)
    hdr = [[rnd.randint(0, 0x3F), rnd.randint(0, 0xFFFF)] for _ in range(rnd.randint(0, 6))]
    if rnd.random() < 0.3:
        hdr.append([0x3E, rnd.choice([0, 1, 15, 511, 512, 0xFFFF])])
    return image(length, fill, hdr + w, b)
