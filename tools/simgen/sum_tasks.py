import json,sys
def dig(r): return [ (x['r'], x.get('wkc'), x['bytes'][:6]) for x in r]
for line in open(sys.argv[1]):
    o=json.loads(line)
    c=o['case']
    print(c['id'],'->',o.get('result'),o.get('stage',''),o.get('detail',''),o.get('panic',''),o.get('why',''),'in flight',o.get('max_in_flight'),'frames',o.get('frames'),'overtakes',o.get('overtakes'),'rxerr',o.get('rx_errors'),'us',o.get('virtual_us'))
    solo=o.get('solo',{})
    for i,t in enumerate(o.get('tasks',[])):
        st=solo.get('tasks',[{}]*99)[i] if solo.get('tasks') else {}
        same = st.get('results')==t['results']
        print('   task',i,t['op'],'done',t['done'],'same as solo:',same)
        print('       ',dig(t['results']))
        if not same: print('   solo ',dig(st.get('results',[])), solo.get('result'),solo.get('panic',''))
