import json,sys
for line in open(sys.argv[1]):
    o=json.loads(line)
    c=o['case']
    v=o.get('value')
    extra={k:o[k] for k in ('abort_code','abort_name','address','sub_index','error_code','error_register','mailbox','timeout','pdu','item','why','stage','canary_seen','replies_used') if k in o}
    print(c['id'],'->',o.get('result'),o.get('detail',''),o.get('panic',''),extra,'frames',o.get('frames'),'us',o.get('virtual_us'))
    if v is not None:
        exp=c.get('object')
        print('     value',len(v),v[:20], ('== object' if exp is not None and v==exp else ''))
    if 'server_od_after' in o: print('     od',o['server_od_after'])
    if '-v' in sys.argv:
        for m in o.get('mailbox_log',[]): print('      ',m['dir'],m['bytes'][:24])
    print('     counters',o.get('counters'),o.get('reply_counters'))
