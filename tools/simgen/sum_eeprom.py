import json,sys
for line in open(sys.argv[1]):
    o=json.loads(line)
    c=o['case']
    print('==',c['id'], c['op'], 'result',o.get('result'), o.get('stage',''), o.get('detail',''), o.get('panic',''), o.get('why',''),'frames',o.get('frames',o.get('init_frames')))
    if c['op']=='ranges':
        print('   size',o.get('size'))
        for r in o.get('reads',[]):
            d=r.get('data')
            print('   read',r['word'],r['via'],r['result'],r.get('detail',''),r.get('panic',''),'n',r.get('n'),(d[:12] if d else d), r.get('tail_untouched'))
    if c['op']=='parse':
        print('   chunk_reads',o.get('chunk_reads'),'init',o.get('init_result'),o.get('init_detail',''),o.get('init_panic',''),'op',o.get('op_result'),o.get('op_detail',''),o.get('op_panic',''),'sd',o.get('subdevice'),'io',o.get('in_len'),o.get('out_len'))
        for d in o.get('dump',[]):
            print('     ',d['name'],'=',d['value'][:150])
    if c['op']=='alias':
        print('   reported',o.get('alias_reported'),'in eeprom',o.get('alias_in_eeprom'),'reg',o.get('alias_register'),'crc ok',o.get('checksum_ok'),'changed',o.get('changed'))
        print('   extra',o.get('extra_writes'))
        print('   events',o.get('write_events'))
        print('   sii_log',len(o.get('sii_log',[])),[ (e['reg'],e['rw'],e['value']) for e in o.get('sii_log',[])[:14]])
