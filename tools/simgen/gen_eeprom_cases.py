#!/usr/bin/env python3
"""Writes samples/eeprom.cases.ndjson: hand designed cases, images assembled here."""
import json, struct

def crc8(data):
    crc = 0xFF
    for b in data:
        crc ^= b
        for _ in range(8):
            crc = ((crc << 1) ^ 0x07) & 0xFF if crc & 0x80 else (crc << 1) & 0xFF
    return crc

def header(size_word=15, alias=0, vendor=0xA01, product=0x1001, rev=1, serial=0x5001, mbx=None):
    h = bytearray(128)
    struct.pack_into('<HHHHH', h, 0, 0x0104, 0, 0, 0, alias)
    h[14] = crc8(h[0:14])
    struct.pack_into('<IIII', h, 16, vendor, product, rev, serial)
    if mbx:
        struct.pack_into('<HHHHH', h, 0x30, *mbx)
    struct.pack_into('<HH', h, 0x7C, size_word, 1)
    return h

def cat(ty, data, len_words=None):
    if len(data) % 2:
        data = data + b'\x00'
    lw = len(data) // 2 if len_words is None else len_words
    return struct.pack('<HH', ty, lw) + data

def strings(*ss):
    out = bytes([len(ss)])
    for s in ss:
        out += bytes([len(s)]) + s
    return out

def general(order=1, name=2, group=0):
    g = bytearray(32)
    g[0] = group; g[2] = order; g[3] = name
    return bytes(g)

def image(cats, total=2048, **kw):
    img = header(**kw) + b''.join(cats) + b'\xff\xff'
    return list(img + b'\xff' * max(0, total - len(img)))

DESC_DIO = {"order": "DUT1", "name": "Device under test one", "group": "Tests", "vendor_id": 0x0A07, "product_id": 0x1007,
            "revision": 7, "serial": 0x5007, "alias": 0x1234,
            "sync_managers": [{"start": 0x1100, "length": 2, "control": 0x64, "enable": 1, "usage": 3},
                              {"start": 0x1180, "length": 3, "control": 0x20, "enable": 1, "usage": 4}],
            "fmmu_usage": [1, 2],
            "rx_pdos": [{"index": 0x1600, "sm": 0, "entries": [8, 8]}],
            "tx_pdos": [{"index": 0x1A00, "sm": 1, "entries": [16, 1, 1, 1, 1, 4]}],
            "size_kbit": 16}
DESC_COE = {"order": "DRV", "name": "Drive with mailbox", "group": "Drives", "vendor_id": [0xACDC, 0], "product_id": 0xC0E1,
            "revision": [2, 1], "serial": [0x5678, 0x1234],
            "mailbox": {"recv_offset": 0x1000, "recv_size": 128, "send_offset": 0x1080, "send_size": 128, "protocols": 4, "coe_details": 0x2F},
            "sync_managers": [{"start": 0x1000, "length": 128, "control": 0x26, "enable": 1, "usage": 1},
                              {"start": 0x1080, "length": 128, "control": 0x22, "enable": 1, "usage": 2},
                              {"start": 0x1100, "length": 6, "control": 0x64, "enable": 1, "usage": 3},
                              {"start": 0x1180, "length": 8, "control": 0x20, "enable": 1, "usage": 4}],
            "fmmu_usage": [1, 2, 3], "fmmu_ex": [2, 3],
            "rx_pdos": [{"index": 0x1600, "sm": 2, "entries": [16, 32]}],
            "tx_pdos": [{"index": 0x1A00, "sm": 3, "entries": [16, 32]}, {"index": 0x1A01, "sm": 3, "entries": [8, 8]}],
            "dc": True, "size_kbit": 32}

cases = []
def add(**c):
    cases.append(c)

# ---- ranges
add(id="e01-ranges-basic", op="ranges", desc=DESC_DIO, sii8=False, reads=[
    {"word": 0, "len": 16, "via": "raw"}, {"word": 4, "len": 2, "via": "typed_u16"}, {"word": 8, "len": 4, "via": "typed_u32"},
    {"word": 8, "len": 8, "via": "typed_u64"}, {"word": 7, "len": 1, "via": "typed_u8"}, {"word": 0x40, "len": 40, "via": "raw"}])
add(id="e02-ranges-sii8-odd-lengths", op="ranges", desc=DESC_DIO, sii8=True, reads=[
    {"word": 1, "len": 1, "via": "raw"}, {"word": 1, "len": 3, "via": "raw"}, {"word": 3, "len": 7, "via": "raw"},
    {"word": 5, "len": 9, "via": "raw"}, {"word": 0, "len": 0, "via": "raw"}, {"word": 2, "len": 17, "via": "raw"}])
add(id="e03-ranges-end-of-image", op="ranges", desc=DESC_DIO, sii8=False, reads=[
    {"word": 1020, "len": 16, "via": "raw"}, {"word": 1023, "len": 2, "via": "typed_u16"}, {"word": 1023, "len": 4, "via": "typed_u32"},
    {"word": 1024, "len": 8, "via": "raw"}, {"word": 0x7FFF, "len": 4, "via": "raw"}])
add(id="e04-ranges-high-words", op="ranges", desc=DESC_DIO, sii8=False, reads=[
    {"word": 0x8000, "len": 4, "via": "raw"}, {"word": 0xFFFF, "len": 2, "via": "typed_u16"}, {"word": 0xFFFF, "len": 8, "via": "typed_u64"},
    {"word": 0xFFFE, "len": 8, "via": "raw"}])
add(id="e05-ranges-long-read", op="ranges", desc=DESC_COE, sii8=True, reads=[{"word": 0, "len": 600, "via": "raw"}, {"word": 0x3E, "len": 2, "via": "typed_u16"}])
add(id="e06-ranges-size-word-511", op="ranges", image=image([cat(10, strings(b"BIG", b"Big eeprom")), cat(30, general())], size_word=511), sii8=False,
    reads=[{"word": 0x3E, "len": 2, "via": "typed_u16"}])
add(id="e07-ranges-size-word-ffff", op="ranges", image=image([cat(10, strings(b"BIG", b"Big eeprom")), cat(30, general())], size_word=0xFFFF), sii8=False, reads=[])

# ---- parse
add(id="e10-parse-dio", op="parse", desc=DESC_DIO, sii8=False, profile="checked")
add(id="e11-parse-coe-sii8", op="parse", desc=DESC_COE, sii8=True, profile="checked")
add(id="e12-parse-category-order", op="parse", desc=dict(DESC_DIO, category_order=["rxpdo", "txpdo", "syncm", "fmmu", "general", "strings"]), sii8=False, profile="checked")
add(id="e13-parse-no-general-no-strings", op="parse", desc={"vendor_id": 1, "product_id": 2, "has_general": False,
    "sync_managers": [{"start": 0x1000, "length": 1, "control": 0, "enable": 1, "usage": 4}], "fmmu_usage": [2],
    "tx_pdos": [{"index": 0x1A00, "sm": 0, "entries": [8]}]}, sii8=False, profile="checked")
add(id="e14-parse-blank-ff", op="parse", image=[0xFF] * 256, sii8=False, profile="checked")
add(id="e15-parse-all-zero", op="parse", image=[0] * 512, sii8=True, profile="checked")
add(id="e16-parse-category-len-ffff", op="parse", image=image([cat(30, general(), len_words=0xFFFF)]), sii8=False, profile="checked")
add(id="e17-parse-self-loop", op="parse", image=image([cat(41, b'', len_words=0xFFFE)]), sii8=False, profile="wrapping")
add(id="e18-parse-no-end-marker", op="parse", image=list(header() + cat(10, strings(b"X", b"Y")) + cat(30, general()) + cat(40, bytes([1, 2])) + b'\x00' * 64), sii8=False, profile="checked")
add(id="e19-parse-string-overruns-category", op="parse", image=image([cat(10, bytes([2, 3]) + b"ABC" + bytes([200]) + b"short"), cat(30, general())]), sii8=False, profile="checked")
add(id="e20-parse-pdo-entries-overrun", op="parse", image=image([cat(10, strings(b"PDO", b"Pdo overrun")), cat(30, general()),
    cat(41, struct.pack('<HHBBBB', 0x1000, 1, 0, 0, 1, 4)), cat(40, bytes([2])),
    cat(50, struct.pack('<HBBBBH', 0x1A00, 9, 0, 0, 0, 0) + struct.pack('<HBBBBH', 0x6000, 1, 0, 1, 8, 0))]), sii8=False, profile="checked")
add(id="e21-parse-pdo-bit-sum-overflow", op="parse", desc={"order": "OVF", "name": "Bit length overflow",
    "sync_managers": [{"start": 0x1000, "length": 0, "control": 0x20, "enable": 1, "usage": 4}], "fmmu_usage": [2],
    "tx_pdos": [{"index": 0x1A00, "sm": 0, "entries": [255] * 250}, {"index": 0x1A01, "sm": 0, "entries": [255] * 10}], "size_kbit": 32}, sii8=True, profile="checked")
add(id="e22-parse-many-strings-idx", op="parse", desc={"order_idx": 5, "name_idx": 51, "group_idx": 255, "strings": ["s%d" % i for i in range(1, 60)]}, sii8=False, profile="checked")
add(id="e23-parse-truncated-image", op="parse", image=list(header()[:100]), sii8=False, profile="checked")
add(id="e24-parse-utf8-garbage-name", op="parse", image=image([cat(10, strings(b"\xff\xfe\x80", b"ok name")), cat(30, general())]), sii8=False, profile="checked")
add(id="e25-parse-17-fmmus-9-sms", op="parse", desc={"order": "MANY", "name": "Too many", "fmmu_usage": [1, 2] * 9,
    "sync_managers": [{"start": 0x1000 + 0x10 * i, "length": 1, "control": 0x20, "enable": 1, "usage": 4} for i in range(9)]}, sii8=False, profile="checked")

# ---- alias
add(id="e30-alias-plain", op="alias", desc=DESC_DIO, alias=0xBEEF, write_errors=0, busy_polls=0, extra_writes=[])
add(id="e31-alias-write-errors-busy", op="alias", desc=DESC_DIO, alias=0x0001, write_errors=3, busy_polls=2, extra_writes=[{"word": 0x20, "data": [0x11, 0x22]}])
add(id="e32-alias-persistent-write-errors", op="alias", desc=DESC_DIO, alias=0x7777, write_errors=100, busy_polls=0, extra_writes=[])
add(id="e33-alias-extra-writes", op="alias", desc=DESC_COE, alias=0, write_errors=0, busy_polls=1, extra_writes=[
    {"word": 0x30, "data": [1]}, {"word": 0x31, "data": [1, 2, 3, 4]}, {"word": 0x34, "data": [1, 2, 3, 4, 5, 6, 7, 8]},
    {"word": 0x38, "data": [1, 2, 3]}, {"word": 0xFFFF, "data": [9, 9]}, {"word": 0x7FFF, "data": [1, 2, 3, 4]}])
add(id="e34-alias-ek1100-like", op="alias", desc=DESC_DIO, alias=0xABCD, write_errors=0, busy_polls=0, errors_after_write=3, extra_writes=[])
add(id="e35-alias-busy-forever", op="alias", desc=DESC_DIO, alias=5, write_errors=0, busy_polls=[65535, 65535], extra_writes=[])
add(id="e36-alias-short-image", op="alias", image=list(header()[:12]), alias=0x4242, write_errors=0, busy_polls=0, extra_writes=[])

with open('/tmp/simnet2/samples/eeprom.cases.ndjson', 'w') as f:
    for c in cases:
        f.write(json.dumps(c) + '\n')
print(len(cases), 'cases')
