import json,sys
for line in open(sys.argv[1]):
    o=json.loads(line)
    c=o['case']
    print(c['id'], o.get('result'), o.get('stage',''), o.get('panic',''), o.get('why',''), o.get('init_detail',''), 'frames',o.get('frames'))
    for g in o.get('groups',[]):
        print('   group',g['group'],g['members'],g.get('result'),g.get('stage',''),'start',g.get('pdi_start'),g.get('pdi_start_src'),'len',g.get('pdi_len'),'read',g.get('read_len'),'win',g.get('windows_len'), 'dc',g.get('dc_result',''), g.get('detail',''), g.get('dc_detail',''),g.get('panic',''),g.get('dc_panic',''), 'reft', g.get('ref_time_at_config',''))
        for cy in g.get('cycles',[]):
            r=cy.get('response',{})
            print('      cycle',cy['result'],cy.get('detail',''),'wkc',r.get('wkc'),'exp',cy['expected_wkc'],cy['expected_wkc_desc'],'states',r.get('states'),'extra',r.get('extra'),r.get('cycle_info',''))
            print('         frames',[[d['cmd']+':'+str(d['len'])+':'+str(d['wkc']) for d in f] for f in cy['frames']])
            for sd,dv in zip(cy['subdevices'],cy['devices']):
                ok_in = sd['inputs_after']==sum([m['bytes'] for m in dv['in_mem']],[])
                ok_out = sd['outputs_before']==sum([m['bytes'] for m in dv['out_mem_after']],[])
                print('         sd',hex(sd['addr']),'in',sd['in_len'],'out',sd['out_len'],'inputs match dev mem:',ok_in,'outputs reached dev mem:',ok_out)
