#!/usr/bin/env python3
"""Dump EtherCAT datagrams from a pcapng file (study aid, not part of the crate)."""
import struct, sys

CMDS = {0:'NOP',1:'APRD',2:'APWR',3:'APRW',4:'FPRD',5:'FPWR',6:'FPRW',7:'BRD',8:'BWR',9:'BRW',10:'LRD',11:'LWR',12:'LRW',13:'ARMW',14:'FRMW'}

def blocks(data):
    off = 0
    while off + 12 <= len(data):
        btype, blen = struct.unpack_from('<II', data, off)
        yield btype, data[off+8:off+blen-4]
        off += blen

def packets(path):
    data = open(path,'rb').read()
    for btype, body in blocks(data):
        if btype == 6:  # EPB
            iface, tsh, tsl, caplen, origlen = struct.unpack_from('<IIIII', body, 0)
            yield body[20:20+caplen]
        elif btype == 3:
            yield body[4:]

def datagrams(pkt):
    if len(pkt) < 16 or pkt[12:14] != b'\x88\xa4':
        return
    hdr = struct.unpack_from('<H', pkt, 14)[0]
    ln = hdr & 0x7ff
    off = 16
    end = 16 + ln
    while off + 12 <= end:
        cmd, idx, adp, ado, lf, irq = struct.unpack_from('<BBHHHH', pkt, off)
        dl = lf & 0x7ff
        more = bool(lf & 0x8000)
        d = pkt[off+10:off+10+dl]
        wkc = struct.unpack_from('<H', pkt, off+10+dl)[0]
        yield cmd, idx, adp, ado, dl, d, wkc
        off += 12 + dl
        if not more:
            break

if __name__ == '__main__':
    path = sys.argv[1]
    start = int(sys.argv[2]) if len(sys.argv) > 2 else 0
    count = int(sys.argv[3]) if len(sys.argv) > 3 else 10**9
    maxd = int(sys.argv[4]) if len(sys.argv) > 4 else 32
    for n, pkt in enumerate(packets(path)):
        if n < start or n >= start + count:
            continue
        src = pkt[6:12].hex()
        tag = 'TX' if src == '101010101010' else 'RX'
        for cmd, idx, adp, ado, dl, d, wkc in datagrams(pkt):
            print(f"{n:5d} {tag} {CMDS.get(cmd,cmd):4s} idx={idx:02x} adp={adp:04x} ado={ado:04x} len={dl:4d} wkc={wkc} {d[:maxd].hex()}")
