#!/usr/bin/env python3
"""Writes samples/dc.cases.ndjson."""
import json
cases = []
def L(v, n=4): return [(v >> (16 * i)) & 0xFFFF for i in range(n)]
def dev(dc="dc64", fwd=40, tag=0, **kw): return dict(dc=dc, fwd_delay_ns=fwd, tag=tag, **kw)
def add(id, devices, parent=None, link=None, now=0, offsets=None, epoch=0, **kw):
    n = len(devices)
    for i, d in enumerate(devices): d["tag"] = i + 1
    c = dict(id=id, devices=devices, parent=parent or [[-1, -1]] + [[i - 1, 1] for i in range(1, n)],
             link_delay_ns=link or [100] * n, now_ns=L(now), clock_offsets_ns=[L(o) for o in (offsets or [0] * n)], epoch_ns=L(epoch))
    c.update(kw); cases.append(c)

add("d01-line-4-dc64", [dev() for _ in range(4)], link=[500, 100, 150, 250], now=1_000_000_000, offsets=[10**9 * (i + 1) + 12345 * i for i in range(4)])
add("d02-line-zero-fwd", [dev(fwd=0) for _ in range(3)], link=[300, 100, 200])
add("d03-single-device", [dev()], now=5_000_000)
add("d04-tree-ebus-and-second-coupler", [dev(kind="coupler"), dev(), dev("none"), dev("dc32", kind="coupler"), dev()],
    parent=[[-1, -1], [0, 3], [1, 1], [0, 1], [3, 3]], link=[300, 100, 100, 100, 100], now=5_000_000, offsets=[77_000_000 * i for i in range(5)])
add("d05-cross-three-branches", [dev(kind="coupler"), dev(), dev(), dev()], parent=[[-1, -1], [0, 3], [0, 1], [0, 2]], link=[200, 50, 60, 70])
add("d06-nested-forks", [dev(kind="coupler"), dev(kind="coupler"), dev(), dev(), dev(), dev()],
    parent=[[-1, -1], [0, 3], [1, 3], [1, 1], [0, 1], [4, 1]], link=[100] * 6)
add("d07-non-dc-in-the-middle", [dev(), dev("none"), dev(), dev()], link=[500, 100, 150, 250])
add("d08-first-device-non-dc", [dev("none"), dev(), dev()], link=[100, 100, 100])
add("d09-no-dc-at-all", [dev("none"), dev("none")])
add("d10-dc32-wrap-in-segment-time", [dev("dc32"), dev("dc32"), dev("dc32")], link=[100, 4000, 4000], epoch=2**32 - 30_000, now=123456789)
add("d11-mixed-32-64-offsets-near-u64-max", [dev("dc64"), dev("dc32"), dev("dc64")], offsets=[2**64 - 1000, 2**32 - 500, 2**63], now=2**63 + 5)
add("d12-now-zero-big-local-clock", [dev(), dev()], offsets=[2**62, 2**62 + 999], now=0)
add("d13-long-cable", [dev(), dev(), dev()], link=[100, 500_000, 100], now=10**12)
add("d14-deep-line-8", [dev(fwd=300) for _ in range(8)], link=[20] * 8)
add("d15-fork-child-with-children", [dev(kind="coupler"), dev(), dev(), dev(), dev()], parent=[[-1, -1], [0, 3], [1, 1], [2, 1], [0, 1]], link=[100, 30, 30, 30, 200])
add("d16-bad-order", [dev(), dev(), dev()], parent=[[-1, -1], [0, 1], [0, 3]])
# raw ports: what the devices report is arbitrary
def raw(id, devices, **kw):
    add(id, devices, op="raw_ports", **kw)
PT = lambda a, b, c, d: [L(a, 2), L(b, 2), L(c, 2), L(d, 2)]
raw("r01-no-open-ports", [dev(dl_status=0x0003 | 0x5500, port_times=PT(0, 0, 0, 0)), dev()])
raw("r02-all-ports-open-everywhere", [dev(dl_status=0xAAF3, port_times=PT(100, 400, 300, 200)) for _ in range(3)])
raw("r03-descending-times", [dev(dl_status=0x2A33 | 0x4000, port_times=PT(1000, 10, 0, 0)), dev(dl_status=0x5613 | 0x0200, port_times=PT(5, 0, 0, 0))])
raw("r04-times-around-u32-wrap", [dev(dl_status=0x5A33, port_times=PT(2**32 - 10, 20, 0, 0)), dev(dl_status=0x5613, port_times=PT(2**32 - 5, 0, 0, 0))])
raw("r05-line-end-claims-fork", [dev(), dev(), dev(dl_status=0x8AB3, port_times=PT(7, 9, 0, 3))])
raw("r06-only-port3-open", [dev(dl_status=0x9583, port_times=PT(0, 0, 0, 77)), dev()])
raw("r07-five-line-ends", [dev(dl_status=0x5613, port_times=PT(1, 0, 0, 0)) for _ in range(5)])
raw("r08-forks-without-children", [dev(dl_status=0xA6B3, port_times=PT(10, 30, 0, 20)) for _ in range(4)])

with open('/tmp/simnet2/samples/dc.cases.ndjson', 'w') as f:
    for c in cases:
        f.write(json.dumps(c) + '\n')
print(len(cases), 'cases')
