#!/usr/bin/env python3
"""Writes samples/coe.cases.ndjson."""
import json, struct
cases = []
def add(**c): cases.append(c)
def obj(n, start=1): return [(start + i) % 256 for i in range(n)]

def T(id, **kw):
    base = dict(id=id, op="transfer", object=[], index=0x2100, sub=0, mailbox_size=128, mode="auto", seg_sizes=[], compat=True,
                read_as="raw_vec", stale_out_mailbox=False, dir="read", value=[], complete=False, inject="none")
    base.update(kw); cases.append(base)

T("c01-expedited-u32", object=[0xEF, 0xBE, 0xAD, 0xDE], read_as="u32")
T("c02-expedited-u8-sub3", object=[0x5A], sub=3, read_as="u8")
T("c03-expedited-u16-as-u32", object=[1, 2], read_as="u32")
T("c04-normal-forced-u32", object=[1, 2, 3, 4], read_as="u32", mode="normal")
T("c05-normal-u64", object=obj(8), read_as="u64")
T("c06-normal-string", object=list(b"Hello EtherCAT"), read_as="str32")
T("c07-string-too-long-for-buffer", object=list(b"x" * 40), read_as="str32")
T("c08-segmented-compat-100-bytes", object=obj(100), mailbox_size=32, read_as="raw_vec", compat=True)
T("c09-segmented-spec-100-bytes", object=obj(100), mailbox_size=32, read_as="raw_vec", compat=False)
T("c10-segmented-forced-sizes-compat", object=obj(30), mode="segmented", seg_sizes=[0, 7, 3, 7, 1], read_as="raw_vec", compat=True)
T("c11-segmented-forced-sizes-spec", object=obj(30), mode="segmented", seg_sizes=[4, 7, 3, 7, 1], read_as="raw_vec", compat=False)
T("c12-mailbox-16-segmented-string", object=list(b"A long device name string"), mailbox_size=16, read_as="str128", compat=True)
T("c13-mailbox-1024-normal-512", object=obj(512), mailbox_size=1024, read_as="raw_vec")
T("c14-empty-object", object=[], read_as="raw_vec")
T("c15-arr16-exact", object=obj(16), read_as="arr16")
T("c16-arr16-short-object", object=obj(10), read_as="arr16")
T("c17-stale-out-mailbox", object=[9, 8, 7, 6], read_as="u32", stale_out_mailbox=True)
T("c18-abort-injected", object=[1, 2, 3, 4], read_as="u32", inject="abort:0x06010002")
T("c19-abort-missing-subindex", object=[1, 2, 3, 4], sub=5, object_sub=0, read_as="u32")
T("c19b-abort-missing-object", object=[1, 2, 3, 4], index=0x5555, sub=0, read_as="u32", inject="abort:0x06020000")
T("c20-emergency-before-reply", object=[1, 2, 3, 4], read_as="u32", inject="emergency")
T("c21-wrong-index", object=[1, 2, 3, 4], read_as="u32", inject="wrong_index")
T("c22-wrong-sub", object=[1, 2, 3, 4], read_as="u32", inject="wrong_sub")
T("c23-write-u16", object=[0, 0], dir="write", value=[0x34, 0x12])
T("c24-write-3-bytes", object=[0, 0, 0], dir="write", value=[1, 2, 3])
T("c25-write-5-bytes-unsupported-by-ethercrab", object=obj(5), dir="write", value=[1, 2, 3, 4, 5])
T("c26-write-length-mismatch", object=[0, 0, 0, 0], dir="write", value=[1, 2])
T("c27-write-complete", object=[0, 0, 0, 0], dir="write", value=[4, 3, 2, 1], complete=True)
T("c28-read-complete-arr16", object=obj(16), read_as="arr16", complete=True)
T("c29-read-array-u16", object=[0x00, 0x1A, 0x01, 0x1A, 0x02, 0x1A], dir="read_array", read_as="u16", index=0x1C13)
T("c30-read-array-too-many", object=obj(40), dir="read_array", read_as="u16")
T("c31-write-array-u16", object=[0] * 8, dir="write_array", read_as="u16", value=[0x00, 0x16, 0x01, 0x16], index=0x1C12)
T("c32-counter-wrap", object=obj(64), mailbox_size=24, read_as="arr64", compat=True)

# ---- hostile
def mbx(payload, mtype=3, cnt=1, length=None, addr=0):
    l = len(payload) if length is None else length
    return list(struct.pack('<HHBB', l, addr, 0, mtype | (cnt << 4))) + list(payload)
def coe(service, rest): return [0x00, service << 4] + list(rest)
def sdo(cmd, index, sub, rest=()): return coe(3, [cmd, index & 0xFF, index >> 8, sub] + list(rest))

def H(id, entry, replies, **kw):
    base = dict(id=id, op="hostile", entry=entry, mailbox_size=64, replies=replies, fill=0xA5, repeat_last=False)
    base.update(kw); cases.append(base)

H("h01-good-expedited", "sdo_read_u32", [mbx(sdo(0x43, 0x2000, 0, [1, 2, 3, 4]))])
H("h02-header-only-length-0", "sdo_read_u32", [mbx([], length=0)])
H("h03-six-zero-bytes", "sdo_read_u32", [[0, 0, 0, 0, 0, 0]])
H("h04-normal-huge-complete-size", "sdo_read_u32", [mbx(sdo(0x41, 0x2000, 0, [0xFF, 0xFF, 0xFF, 0xFF, 1, 2, 3, 4]))])
H("h05-normal-length-field-too-small", "sdo_read_u32", [mbx(sdo(0x41, 0x2000, 0, [4, 0, 0, 0, 1, 2, 3, 4]), length=4)])
H("h06-normal-length-beyond-reply-leaks-fill", "sdo_read_arr16", [mbx(sdo(0x41, 0x1008, 0, [16, 0, 0, 0, 1, 2]), length=10)])
H("h07-normal-declared-long-data-missing", "sdo_read_arr16", [mbx(sdo(0x41, 0x1008, 0, [16, 0, 0, 0, 1, 2]), length=26)])
H("h08-segment-length-2-underflow", "sdo_read_arr16", [mbx(sdo(0x41, 0x1008, 0, [16, 0, 0, 0])), mbx(coe(3, [0x61, 0, 0, 0]), length=2)])
H("h09-segments-never-last", "sdo_read_arr16", [mbx(sdo(0x41, 0x1008, 0, [16, 0, 0, 0])), mbx(coe(3, [0x60, 0, 0, 0, 1, 2, 3, 4, 5, 6, 7]))], repeat_last=True)
H("h10-emergency-raw", "sdo_read_u32", [mbx(coe(1, [0x30, 0x81, 0x11, 1, 2, 3, 4, 5]))])
H("h11-eoe-type", "sdo_read_u32", [mbx(sdo(0x43, 0x2000, 0, [1, 2, 3, 4]), mtype=2)])
H("h12-abort-truncated", "sdo_read_u32", [mbx(sdo(0x80, 0x2000, 0, [0x00]), length=5)])
H("h13-string-invalid-utf8", "sdo_read_str", [mbx(sdo(0x41, 0x1008, 0, [4, 0, 0, 0, 0xFF, 0xFE, 0x80, 0x81]))])
H("h14-write-answered-with-upload-response", "sdo_write", [mbx(sdo(0x43, 0x2001, 0, [1, 2, 3, 4]))])
H("h15-array-count-255", "sdo_read_array", [mbx(sdo(0x4F, 0x1C13, 0, [255, 0, 0, 0]))])
H("h16-expedited-size-bits-3-for-u32", "sdo_read_u32", [mbx(sdo(0x4F, 0x2000, 0, [7, 0, 0, 0]))])
def info(opcode, frags, rest, incomplete=False): return coe(8, [opcode | (0x80 if incomplete else 0), 0, frags & 0xFF, frags >> 8] + list(rest))
H("h17-info-good-two-fragments", "sdo_info_list", [mbx(info(2, 1, [1, 0, 0x00, 0x10, 0x18, 0x10], True)), mbx(info(2, 0, [0x00, 0x20, 0x01, 0x20]))], burst=True)
H("h18-info-length-below-8", "sdo_info_list", [mbx(info(2, 0, [1, 0]), length=4)])
H("h19-info-length-beyond-mailbox", "sdo_info_list", [mbx(info(2, 0, [1, 0, 0x00, 0x10]), length=1000)])
H("h20-info-other-opcode-forever", "sdo_info_list", [mbx(info(4, 0, [0, 0, 0, 0]))], repeat_last=True)
H("h21-info-incomplete-then-silence", "sdo_info_list", [mbx(info(2, 3, [1, 0, 0x00, 0x10], True))])
H("h22-counter-zero-wrong-address", "sdo_read_u32", [mbx(sdo(0x43, 0x2000, 0, [1, 2, 3, 4]), cnt=0, addr=0x1234)])

with open('/tmp/simnet2/samples/coe.cases.ndjson', 'w') as f:
    for c in cases:
        f.write(json.dumps(c) + '\n')
print(len(cases), 'cases')
