import json,sys
def U(l): return sum(x<<(16*i) for i,x in enumerate(l))
for line in open(sys.argv[1]):
    o=json.loads(line)
    c=o['case']
    print(c['id'],'->',o.get('result'),o.get('detail',''),o.get('panic',''),o.get('why',''),'ref',o.get('dc_ref'),'latch wkc',o.get('latch_wkc'),'frames',o.get('frames'))
    for d in o.get('devices',[]):
        print('   ',d['index'],d['dc_kind'],'dl',hex(d['dl_status']),'0920',U(d['reg_0920']),'0928',U(d['reg_0928']),'prop',U(d['propagation_delay']) if 'propagation_delay' in d else None,d.get('dc_support'),'true',U(d['true_delay_ns']),d['before_ref'],'parent',d['true_parent'],d['true_parent_port'],'latched',[U(x) for x in d['latched']],'0918',U(d['rx_time_0918']))
