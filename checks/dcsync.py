"""C18: DcSync.tla (TLC, scaled widths) + apalache/DcSyncApa.tla (true widths) + DcSyncTrace (BigNat) over vsim2 pdi dc runs."""
import json
import os
import random
import subprocess
import time

from . import lib
from .simlib import SimCheck

U64 = 2 ** 64 - 1
U32 = 2 ** 32 - 1


def limbs(v, n):
    return [(v >> (16 * i)) & 0xFFFF for i in range(n)]


def val(ls):
    return sum(x << (16 * i) for i, x in enumerate(ls))


def apalache(sc, inv, expect_ok=True):
    d = os.path.join(sc.wd, f"apa-{inv}")
    os.makedirs(d, exist_ok=True)
    t0 = time.time()
    try:
        r = subprocess.run(["apalache-mc", "check", "--init=Init", "--next=Next", f"--inv={inv}", "--length=0",
                            f"--out-dir={d}", os.path.join(lib.SPEC, "apalache", "DcSyncApa.tla")],
                           capture_output=True, text=True, timeout=600, cwd=d)
    except subprocess.TimeoutExpired:
        raise lib.ToolError(f"apalache {inv}: timeout")
    out = r.stdout + r.stderr
    ok = "The outcome is: NoError" in out
    bad = "The outcome is: Error" in out
    if not ok and not bad:
        raise lib.ToolError(f"apalache {inv}: no verdict: {out[-500:]}")
    lib.log(f"apalache {inv}: {'holds' if ok else 'counter-model'} ({time.time() - t0:.0f}s)")
    return ok


def make_case(i, t, p, d, s, devs, modes):
    return dict(id=f"d{i}", devices=devs, groups=1, max_pdi=64, frame_data=1100, variant="dc", target="op", cycles=1,
                sync0_period_ns=limbs(p, 4), sync0_shift_ns=limbs(s, 4), start_delay_ns=limbs(d, 4),
                ref_time=limbs(t, 4), dc_sync=modes)


def run(pid, tier):
    q = tier == "quick"
    sc = SimCheck(pid, tier, "pdi")
    rnd = random.Random(lib.seed())
    # 1. scaled exhaustive model
    inv = ["OnlySelectedTouched", "StartIsMultipleInInterval", "RangeRejected", "OnlyRangeRejected", "NoReferenceRejected",
           "SetupTotal", "CycleExact", "NoHalfConfiguredActive", "NoSpill"]
    for name, consts in (("arith", dict(TW=7 if q else 9, PW=3 if q else 4, NDev=1, WideSum=True, Sync1Checked=True)),
                         ("select", dict(TW=3, PW=2, NDev=2 if q else 3, WideSum=True, Sync1Checked=True))):
        cfg = lib.cfg_text(init="DsInit", next_="DsNext", constants=consts, invariants=inv)
        sc.mc(name, "DcSync", cfg, workers=8)
    # vacuity guard: an unchecked SYNC1 period must spill in the model
    ctl = lib.cfg_text(init="DsInit", next_="DsNext", constants=dict(TW=3, PW=2, NDev=2, WideSum=True, Sync1Checked=False),
                       invariants=["NoSpill"])
    dctl = os.path.join(sc.wd, "mc-control")
    os.makedirs(dctl, exist_ok=True)
    rc = lib.tlc(dctl, "DcSync", ctl, workers=4, timeout=600, heap="4g")
    if "NoSpill" not in (rc.violated or []):
        raise lib.ToolError(f"control: DcSync.tla with Sync1Checked=FALSE does not spill ({rc.violated}, {rc.error})")
    lib.log("control: Sync1Checked=FALSE writes beyond the SYNC1 register in the model, as it must")
    # 2. true widths with Apalache (proof obligations of the arithmetic)
    obligations = 0
    for inv_name in ("StartInv", "CycleInv"):
        if not apalache(sc, inv_name):
            rp = lib.write_replay(pid, f"apalache-{inv_name}", dict(property=pid, kind="apalache", invariant=inv_name))
            sc.verdict.violation(("apalache", inv_name), rp, f"Apalache found a counter-model of {inv_name} at true widths")
        obligations += 1
    # 3. the real code on boundary and seeded values
    ts = [0, 1, U32, U32 + 1, 2 ** 63, U64 - U32, U64 - 1000, U64 - 1, U64]
    ps = [1, 2, 3, 999, 1_000_000, 62_500, U32 - 1, U32, U32 + 1, 2 ** 33]
    ds = [0, 1, 999, 100_000_000, U32, U32 + 1]
    cases = []
    n = 0

    def devs_modes():
        k = rnd.randint(1, 4)
        devs, modes = [], []
        for j in range(k):
            dc = "dc64" if j == 0 else rnd.choice(["none", "dc64", "dc64", "dc32"])
            devs.append(dict(kind="dio", in_bits=8, out_bits=8, tag=j + 1, dc=dc))
            m = rnd.choice(["disabled", "sync0", "sync0", "sync01"])
            modes.append({"sync01": limbs(rnd.choice([1000, 500_000, 500_000, U32, U32, U32 + 1, 2 ** 33 + 5, 2 ** 48]), 4)} if m == "sync01" else m)
        return devs, modes
    for t in ts:
        for p in ps:
            for d in (ds if not q else rnd.sample(ds, 3)):
                devs, modes = devs_modes()
                cases.append(make_case(n, t, p, d, rnd.choice([0, 1, 5000, U32]), devs, modes))
                n += 1
    for _ in range(300 if q else 20000):
        t = rnd.choice([rnd.randint(0, U64), rnd.randint(0, 2 ** 40), U64 - rnd.randint(0, 2 ** 33)])
        p = rnd.choice([rnd.randint(1, U32), rnd.randint(1, 10 ** 7), rnd.randint(1, 100)])
        d = rnd.choice([rnd.randint(0, U32), rnd.randint(0, 10 ** 8)])
        devs, modes = devs_modes()
        cases.append(make_case(n, t, p, d, rnd.randint(0, U32), devs, modes))
        n += 1
    # a network without reference clock
    cases.append(make_case(n, 5, 1000, 0, 0, [dict(kind="dio", in_bits=8, out_bits=8, tag=1, dc="none")], ["sync0"]))
    raw = sc.run_cases("dc", cases, binary="vsim2")
    # witnesses k = start / period, q = time / period (re-verified by the specification)
    wtrace = os.path.join(sc.wd, "dc.witness.ndjson")
    with open(raw) as fh, open(wtrace, "w") as out:
        for line in fh:
            r = json.loads(line)
            p = val(r["case"]["sync0_period_ns"])
            ks = [limbs(val(dv.get("reg_0990", [0])) // p if p else 0, 4) for dv in r.get("devices", [])]
            qw = [0, 0, 0, 0]
            g = (r.get("groups") or [{}])[0]
            cyc = g.get("cycles") or []
            if cyc and "cycle_info" in cyc[0].get("response", {}):
                qw = limbs(val(cyc[0]["response"]["cycle_info"]["dc_system_time"]) // p if p else 0, 4)
            modes = [m if isinstance(m, str) else "sync01" for m in r["case"]["dc_sync"]]
            sync1 = [[0, 0, 0, 0] if isinstance(m, str) else m["sync01"] for m in r["case"]["dc_sync"]]
            r["witness"] = dict(k=ks, q=qw, modes=modes, sync1=sync1)
            out.write(json.dumps(r) + "\n")

    def key(c):
        g = (c.get("groups") or [{}])[0]
        return (tuple(c["case"]["ref_time"]), tuple(c["case"]["sync0_period_ns"]), tuple(c["case"]["start_delay_ns"]),
                g.get("dc_result"), tuple(d.get("reg_0981", 0) for d in c.get("devices", [])))
    sc.validate("dc", wtrace, "DcSyncTrace", {}, constraints=(), key_fn=key,
                sample_fn=lambda c: (c.get("groups") or [{}])[0].get("dc_result") == "ok")
    return sc.finish(
        "one case = configure_dc_sync + one tx_rx_dc cycle on a simulated segment whose reference clock is preset to a chosen 64-bit value; "
        "distinct by (reference time, period, delay, result, activation registers)",
        ["64-bit arithmetic is re-verified in TLA+ with BigNat on quotient witnesses supplied by the driver (the specification checks k*p = start and q*p + offset = time).",
         "The arithmetic obligations StartInv and CycleInv are discharged at true register widths with Apalache (2 obligations, counted in coverage.obligations).",
         "The reference time used by configure_dc_sync is the value the simulated reference device returned (ref_time_at_config), which is the preset value plus the virtual time elapsed."],
        extra=dict(obligations=obligations, discharged=obligations - len([v for v in sc.verdict.violations if v[0][0] == "apalache"]),
                   checker_cmd="apalache-mc check --init=Init --next=Next --inv=<StartInv|CycleInv> --length=0 spec/apalache/DcSyncApa.tla"))


def replay(pid, tier, path):
    """Re-run the check that produced the replay file with its recorded seed and tier (the generators are seeded, so the
    same cases are produced) and judge again."""
    import json as _json
    rp = _json.load(open(path))
    os.environ["VERIF_SEED"] = str(rp.get("seed", 1))
    return run(pid, rp.get("tier", tier))
