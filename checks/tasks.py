"""Engine `tasks` for C20 (Tasks.tla / TasksTrace + vsim2 tasks)."""
import json
import os
import random

from . import lib
from .simlib import SimCheck


def chunked_case(cid, rnd):
    """Every group's image spans several frames and every group has a process data task."""
    groups = rnd.choice([2, 3])
    ndev = rnd.randint(groups, 6)
    devs = [dict(kind="dio", in_bits=rnd.choice([128, 256]), out_bits=rnd.choice([64, 128]), tag=i + 1) for i in range(ndev)]
    tasks = [dict(op="tx_rx", group=g, cycles=rnd.randint(2, 4)) for g in range(groups)]
    if rnd.random() < 0.5:
        tasks.append(dict(op="register_read", device=rnd.randrange(ndev), reg=0x0130, count=rnd.randint(2, 5)))
    return dict(id=cid, devices=devs, groups=groups, frames=rnd.choice([4, 8, 16]), frame_data=rnd.choice([40, 64, 64]), tasks=tasks,
                schedule_seed=rnd.randint(1, 1 << 30), latency_us=sorted([rnd.randint(0, 500), rnd.randint(0, 500)]))


def wrap_case(cid, rnd):
    """A long segmented SDO upload (the initiate response stays claimed for its whole duration) while the other tasks
    send so many frames that the 8 bit datagram index wraps, several times."""
    ndev = rnd.randint(2, 5)
    devs = [dict(kind="dio", in_bits=8, out_bits=8, tag=i + 1) for i in range(ndev)]
    c = rnd.randrange(ndev)
    devs[c] = dict(kind="coe", in_bits=16, out_bits=16, tag=c + 1, mailbox_size=rnd.choice([20, 24, 32]), big_object=rnd.choice([300, 500, 700]))
    tasks = [dict(op="sdo_read", device=c, index=0x2100, sub=0, read_as="str1024", count=1)]
    for _ in range(rnd.randint(3, 6)):
        tasks.append(dict(op="register_read", device=rnd.randrange(ndev), reg=rnd.choice([0x0010, 0x0130, 0x0000, 0x0008]), count=rnd.randint(150, 300)))
    rnd.shuffle(tasks)
    return dict(id=cid, devices=devs, groups=2, frames=rnd.choice([8, 16, 16]), frame_data=rnd.choice([1100, 128]), tasks=tasks,
                schedule_seed=rnd.randint(1, 1 << 30), latency_us=sorted([rnd.randint(0, 200), rnd.randint(0, 200)]))


def make_case(cid, rnd):
    x = rnd.random()
    if x < 0.25:
        return chunked_case(cid, rnd)
    if x < 0.30:
        return wrap_case(cid, rnd)
    ndev = rnd.randint(2, 8)
    groups = rnd.choice([2, 2, 3])
    devs = []
    for i in range(ndev):
        kind = rnd.choice(["dio", "dio", "coe"])
        devs.append(dict(kind=kind, in_bits=rnd.choice([8, 16, 32, 64, 128]), out_bits=rnd.choice([8, 16, 32, 96]), tag=i + 1))
    ntasks = rnd.randint(2, 4)
    tasks = []
    used_groups, used_sdo = set(), set()
    coes = [i for i, d in enumerate(devs) if d["kind"] == "coe"]
    for _ in range(ntasks):
        kinds = ["register_read", "register_read_cancel", "slice_hold"]
        free_groups = [g for g in range(min(groups, ndev)) if g not in used_groups]
        if free_groups:
            kinds += ["tx_rx", "tx_rx"]
        free_coe = [d for d in coes if d not in used_sdo]
        if free_coe:
            kinds += ["sdo_read", "sdo_write"]
        k = rnd.choice(kinds)
        if k == "tx_rx":
            g = rnd.choice(free_groups)
            used_groups.add(g)
            tasks.append(dict(op="tx_rx", group=g, cycles=rnd.randint(2, 6)))
        elif k == "register_read_cancel":
            tasks.append(dict(op="register_read_cancel", device=rnd.randrange(ndev), reg=rnd.choice([0x0010, 0x0130, 0x0000]), count=rnd.randint(1, 4)))
        elif k == "slice_hold":
            tasks.append(dict(op="slice_hold", device=rnd.randrange(ndev), reg=rnd.choice([0x0010, 0x0000, 0x0008]), count=rnd.randint(1, 3), hold=rnd.randint(1, 6)))
        elif k == "register_read":
            tasks.append(dict(op="register_read", device=rnd.randrange(ndev), reg=rnd.choice([0x0010, 0x0130, 0x0000, 0x0008]), count=rnd.randint(2, 6)))
        elif k == "sdo_read":
            d = rnd.choice(free_coe)
            used_sdo.add(d)
            ix, sub, ty = rnd.choice([(0x2000, 0, "u32"), (0x1018, 1, "u32"), (0x1018, 4, "u32"), (0x2002, 0, "u8"), (0x1008, 0, "str32")])
            tasks.append(dict(op="sdo_read", device=d, index=ix, sub=sub, read_as=ty, count=rnd.randint(2, 4)))
        else:
            d = rnd.choice(free_coe)
            used_sdo.add(d)
            tasks.append(dict(op="sdo_write", device=d, index=0x2001, sub=0, value=[rnd.randint(0, 200), rnd.randint(0, 255)], count=rnd.randint(2, 3)))
    enough = next(f for f in (1, 2, 4, 8, 16) if f >= len(tasks))
    frames = rnd.choice([enough, enough, 8, 16, 2])
    # a task that keeps a response view needs a second slot for what it does meanwhile: such cases always get a slot for
    # everything that can be claimed at a time (the "just too few slots" cases are the ones without held views)
    holders = sum(1 for t in tasks if t["op"] == "slice_hold")
    if holders:
        frames = max(frames, next(f for f in (2, 4, 8, 16) if f >= len(tasks) + holders))
    return dict(id=cid, devices=devs, groups=groups, frames=frames, frame_data=rnd.choice([1100, 1100, 128, 64, 40, 32]), tasks=tasks,
                schedule_seed=rnd.randint(1, 1 << 30), latency_us=sorted([rnd.randint(0, 500), rnd.randint(0, 500)]))


def digest(x):
    return dict(r=x.get("r", ""), wkc=x.get("wkc", -1), bytes=x.get("bytes", []), detail=x.get("detail", ""))


def project(c):
    case = c["case"]
    solo = c.get("solo", {})
    tasks = [dict(done=bool(t.get("done")), results=[digest(x) for x in t.get("results", [])]) for t in c.get("tasks", [])]
    # ground truth for process data cycles: what the devices of the task's group hold as inputs
    gi = c.get("group_inputs", [])
    for spec, t in zip(case.get("tasks", []), tasks):
        t["expect_inputs"] = gi[spec["group"]] if spec.get("op") == "tx_rx" and spec.get("group", 0) < len(gi) else []
        t["is_cycle"] = spec.get("op") == "tx_rx"
    solos = [dict(done=bool(t.get("done")), results=[digest(x) for x in t.get("results", [])]) for t in solo.get("tasks", [])]
    if len(solos) != len(tasks):
        solos = tasks
    for t in solos:
        t["expect_inputs"] = []
        t["is_cycle"] = False
    return dict(case=dict(id=case["id"]), result=c.get("result", "none"), detail=str(c.get("panic", ""))[:200],
                solo_result=solo.get("result", "none"), tasks=tasks, solo=solos, slots=case.get("frames", 0),
                max_in_flight=c.get("max_in_flight", 0), ntasks_frames=len(tasks), ntasks=len(tasks),
                overtakes=c.get("overtakes", 0),
                cancels=any(t.get("op") == "register_read_cancel" for t in case.get("tasks", [])))


def run(pid, tier):
    q = tier == "quick"
    sc = SimCheck(pid, tier, "tasks")
    rnd = random.Random(lib.seed())
    inv = ["OwnResponses", "NoSpuriousFailure", "NeverFailsWithEnoughSlots", "DistinctInFlight", "NoResponseLost"]
    plain = dict(MaxHeld=0, Abandons=False, SentOnly=True)
    runs = [("3t-2s", dict(NTasks=3, Slots=2, Ops=2, IdxMod=8, **plain)), ("3t-3s", dict(NTasks=3, Slots=3, Ops=3, IdxMod=16, **plain)),
            # the index wraps while responses are kept claimed / operations are given up
            ("hold-wrap", dict(NTasks=2, Slots=3, Ops=3, IdxMod=3, MaxHeld=1, Abandons=False, SentOnly=True)),
            ("abandon-wrap", dict(NTasks=2, Slots=2, Ops=3, IdxMod=3, MaxHeld=0, Abandons=True, SentOnly=True)),
            ("hold-abandon-wrap", dict(NTasks=2, Slots=3, Ops=3, IdxMod=3, MaxHeld=1, Abandons=True, SentOnly=True))]
    if not q:
        runs += [("4t-2s", dict(NTasks=4, Slots=2, Ops=2, IdxMod=16, **plain)),
                 ("3t-2s-hold-abandon", dict(NTasks=3, Slots=2, Ops=2, IdxMod=8, MaxHeld=1, Abandons=True, SentOnly=True)),
                 ("2t-3s-4ops-wrap", dict(NTasks=2, Slots=3, Ops=4, IdxMod=3, MaxHeld=1, Abandons=True, SentOnly=True))]
    for name, consts in runs:
        cfg = lib.cfg_text(spec="TkSpec", constants=consts, invariants=inv, properties=["AllFinish"])
        sc.mc(f"tasks-{name}", "Tasks", cfg, workers=8)
    # vacuity guard: the routing rule matters in these configurations - without it (first slot carrying the index
    # decides) the model must lose a response
    cfg = lib.cfg_text(spec="TkSpec", constants=dict(NTasks=2, Slots=3, Ops=3, IdxMod=3, MaxHeld=1, Abandons=False, SentOnly=False),
                       invariants=["NoResponseLost"])
    d = os.path.join(sc.wd, "mc-control")
    os.makedirs(d, exist_ok=True)
    r = lib.tlc(d, "Tasks", cfg, workers=4, timeout=600, heap="4g")
    if "NoResponseLost" not in (r.violated or []):
        raise lib.ToolError(f"control: Tasks.tla with SentOnly=FALSE does not lose a response ({r.violated}, {r.error})")
    lib.log("control: SentOnly=FALSE loses a response in the model, as it must")
    cases = [make_case(f"k{i}", rnd) for i in range(120 if q else 3000)]
    raw = sc.run_cases("tasks", cases, binary="vsim2")
    trace = os.path.join(sc.wd, "tasks.proj.ndjson")
    with open(raw) as fi, open(trace, "w") as fo:
        for line in fi:
            fo.write(json.dumps(project(json.loads(line))) + "\n")
    sc.validate("tasks", trace, "TasksTrace", {}, constraints=(),
                key_fn=lambda c: (c["ntasks"], c["slots"], c["max_in_flight"], c["overtakes"], c["result"],
                                  tuple(tuple(x["r"] for x in t["results"]) for t in c["tasks"])),
                sample_fn=lambda c: c["overtakes"] > 3)
    # frame-level events of the same runs replayed on Tasks.tla (one TLC run per storage size and task count)
    groups_ = {}
    with open(raw) as fi:
        for line in fi:
            c = json.loads(line)
            if c.get("result") != "ok" or "events" not in c or len(c["events"]) > 20000:
                continue
            key_ = (c["case"]["frames"], len(c["case"]["tasks"]))
            groups_.setdefault(key_, []).append(dict(case=dict(id=c["case"]["id"]), events=c["events"]))
    for (slots, nt), recs in sorted(groups_.items()):
        ev = os.path.join(sc.wd, f"events-{slots}-{nt}.ndjson")
        with open(ev, "w") as fo:
            for r_ in recs:
                fo.write(json.dumps(r_) + "\n")
        sc.validate(f"events-{slots}s-{nt}t", ev, "TasksEventTrace", dict(NTasks=nt, Slots=slots, Ops=100000, IdxMod=256, MaxHeld=slots, Abandons=True, SentOnly=True),
                    constraints=("Track", "Judge"), key_fn=lambda c: (len(c["events"]),), sample_fn=lambda c: False)
    return sc.finish(
        "one case = one seeded schedule of 2..7 tasks on one MainDevice, compared operation by operation with the same tasks run "
        "alone; distinct by (tasks, slots, frames in flight, overtakes, results)",
        ["Operations are chosen so that their results do not depend on the other tasks' effects (one process data task per "
         "group, one SDO task per SubDevice, written objects are not read).",
         "Tasks are cooperative futures on one thread (the property's quantifier); thread-level interleavings of the frame "
         "storage are the subject of C01-C03/C06.",
         "The datagram index wraps several times in the 'long segmented upload' cases (a response view stays claimed meanwhile); no case "
         "lets it wrap while a frame is still on the network (Tasks.tla's WrapAssumption: latencies are 0..500 us).",
         "Frame-level events come from ethercrab's verification hooks (slot state changes with the party that made them); "
         "whether a compare-exchange succeeded is derived from the tracked slot state, which is exact on one thread."])


def replay(pid, tier, path):
    """Re-run the check that produced the replay file with its recorded seed and tier (the generators are seeded, so the
    same cases are produced) and judge again."""
    import json as _json
    rp = _json.load(open(path))
    os.environ["VERIF_SEED"] = str(rp.get("seed", 1))
    return run(pid, rp.get("tier", tier))
