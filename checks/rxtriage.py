"""Engine `rxtriage`: C05 (RxTriage.tla / RxTriageMC / RxTriageTrace + harness rxtriage-*)."""
import json
import os
import time

from . import lib

ALL = ["Fresh", "NoneEmpty", "NoneStale", "Created", "CreatedPushed", "Sendable", "Sending", "Sent", "RxBusy",
       "RxDone", "RxProcessing"]


def run(pid, tier):
    t0 = time.time()
    q = tier == "quick"
    wd = lib.scratch(f"{pid}-{tier}")
    binary = lib.build_harness()
    verdict = lib.Verdict(pid)
    states = transitions = 0
    mc_runs = []
    total = accepted = 0
    samples = []
    distinct = set()
    exhaustive = True

    def validate(trace, tag):
        nonlocal total, accepted, states, transitions
        # what the code did wrong while the slot states were being prepared (an oversize reply is used to park a slot in
        # RxBusy: it must be refused)
        if os.path.exists(trace + ".prep"):
            obs = [json.loads(l) for l in open(trace + ".prep") if l.strip()]
            if obs:
                rp = lib.write_replay(pid, f"{tag}-prep-{obs[0]['id']}", dict(
                    property=pid, engine="rxtriage", tier=tier, seed=lib.seed(), kind="preparation", case=obs[0],
                    violated=dict(errors=obs[0]["what"]), signature=dict(kind=obs[0]["what"].split(":")[0])))
                verdict.violation((obs[0]["what"].split(":")[0],), rp,
                                  f"{tag}: {len(obs)} cases: while the slot states were prepared with a plain and an oversize reply: {obs[0]['what'][:200]} ({obs[0]['id']})")
        n = sum(1 for _ in open(trace))
        if n == 0:
            return
        cfg = lib.cfg_text(spec="TraceSpec", constants=dict(NSlots=1, TargetSet='{"Sent"}', Cap=40),
                           postcondition="Report")
        d = os.path.join(wd, f"tv-{tag}")
        os.makedirs(d, exist_ok=True)
        r = lib.tlc(d, "RxTriageTrace", cfg, workers=1, timeout=3000, env_extra={"TRACE": trace}, heap="8g")
        summ = [j for j in r.json if j.get("kind") == "SUMMARY"]
        if not summ or summ[0]["consumed"] != n:
            raise lib.ToolError(f"{tag}: trace validation did not consume the trace: {r.error or r.out[-800:]}")
        viols = [j for j in r.json if j.get("kind") == "VIOL"]
        divs = [j for j in r.json if j.get("kind") == "DIVERGE"]
        states += r.distinct
        transitions += r.generated
        total += n
        accepted += n - len(divs)
        lib.log(f"validate {tag}: {n} deliveries, {len(viols)} property violations, {len(divs)} divergences ({r.wall:.0f}s)")
        cases = {}
        with open(trace) as fh:
            for line in fh:
                c = json.loads(line)
                distinct.add((tuple(c["targets"]), c["res"], len(c["frame"]),
                              tuple(c["frame"][12:18])))
                if len(samples) < 3 and c["res"] not in ("Ignored",) and len(c["targets"]) > 1:
                    samples.append({k: c[k] for k in ("id", "cap", "targets", "frame", "res")} |
                                   {"pre": [dict(st=s["st"], fp=s["fp"]) for s in c["pre"]],
                                    "post": [dict(st=s["st"], fp=s["fp"]) for s in c["post"]]})
                if viols or divs:
                    cases[c["id"]] = c
        for dv in divs[:30]:
            verdict.divergences.append(dict(kind="triage-divergence", tag=tag, case=dv["case"], errs=dv["errs"][:300]))
        for v in viols[:50]:
            c = cases.get(v["case"])
            kind = v["errs"].split('"')[1] if '"' in v["errs"] else "violation"
            rp = lib.write_replay(pid, f"{tag}-{v['case']}", dict(
                property=pid, engine="rxtriage", tier=tier, seed=lib.seed(), kind="case",
                case={k: c[k] for k in ("id", "cap", "targets", "frame", "res")} if c else None,
                violated=dict(errors=v["errs"]), signature=dict(kind=kind)))
            verdict.violation((kind,), rp, f"{tag} case {v['case']}: {v['errs'][:300]}")

    plans = [("n1", 1, ALL, 1), ("n2", 2, ["Fresh", "NoneStale", "Sending", "Sent", "RxDone"] if q else
              ["Fresh", "NoneEmpty", "NoneStale", "CreatedPushed", "Sendable", "Sending", "Sent", "RxBusy", "RxDone"],
              7 if q else 3)]
    for name, nslots, tset, stride in plans:
        d = os.path.join(wd, f"mc-{name}")
        os.makedirs(d, exist_ok=True)
        consts = dict(NSlots=nslots, TargetSet="{" + ", ".join(f'"{t}"' for t in tset) + "}", Cap=40)
        cfg = lib.cfg_text(init="RtInit", next_="RtNext", constants=consts,
                           invariants=["OnlyAcceptedSlotChanges", "AcceptedOnlyIntoAwaitingSlot",
                                       "OwnAndForeignIgnored", "NoMatchNoAccept", "Emit"])
        r = lib.tlc(d, "RxTriageMC", cfg, workers=8, timeout=1500, heap="8g")
        if r.error:
            raise lib.ToolError(f"MC {name}: {r.error}")
        states += r.distinct
        transitions += r.generated
        mc_runs.append(dict(name=name, slots=nslots, targets=tset, distinct=r.distinct, generated=r.generated,
                            violated=r.violated, wall_s=round(r.wall, 1), replay_stride=stride))
        lib.log(f"MC {name}: {r.distinct} distinct, violated={r.violated} ({r.wall:.0f}s)")
        if r.violated:
            exhaustive = False
            rp = lib.write_replay(pid, f"model-{name}", dict(property=pid, engine="rxtriage", kind="model",
                                                              violated=r.violated, out=r.out[-3000:]))
            verdict.violation(("model", tuple(r.violated)), rp, f"RxTriage model violates {r.violated}")
            continue
        cases = [j for j in r.json if "targets" in j and "frame" in j]
        cases.sort(key=lambda c: (c["targets"], c["frame"]))
        off = lib.seed() % stride
        pick = cases[off::stride]
        pfile = os.path.join(wd, f"cases-{name}.ndjson")
        with open(pfile, "w") as fh:
            for i, c in enumerate(pick):
                fh.write(json.dumps(dict(id=f"{name}-{i}", cap=40, targets=c["targets"], frame=c["frame"])) + "\n")
        trace = os.path.join(wd, f"trace-{name}.ndjson")
        lib.run_harness(binary, ["rxtriage-replay", pfile, trace])
        validate(trace, f"mc-{name}")

    trace = os.path.join(wd, "trace-random.ndjson")
    lib.run_harness(binary, ["rxtriage-random", lib.seed(), 4000 if q else 400000, trace])
    validate(trace, "random")

    cov = dict(states=max(states, 1), transitions=max(transitions, 1), traces_validated_against_impl=accepted,
               evaluations=total, distinct_nontrivial=len(distinct),
               rule="one case = one byte sequence delivered to the real PduRx::receive_frame with prepared slot states; "
                    "distinct by (slot state vector, result, frame length, ethertype+EtherCAT header+first datagram bytes)",
               samples=samples or [{"note": "none"}], model_checking_runs=mc_runs, exhaustive=exhaustive,
               conformance_divergences=verdict.divergences[:50], known_findings_matched=verdict.known)
    lib.write_evidence(pid, tier, "model_checking", cov, [
        "Interpretation (DESIGN.md C05): 'the slot the frame is accepted into' is the slot the receive side claimed (Sent -> RxBusy); an oversize matching frame may leave that slot in RxBusy, any other change is a violation.",
        "Deliveries are sequential (the concurrent receive path is C01/C02/C06); slot states are prepared through the real API.",
    ], time.time() - t0, len(verdict.violations))
    lib.cleanup(wd)
    return verdict.finish()


def replay(pid, tier, path):
    raise lib.ToolError("replay: re-run `bin/check C05`; cases are deterministic for a given seed")
