"""Engine `eeprom`: C12 (SiiRead + SiiImageTrace), C13 (SiiCategories + hostile images), C14 (SiiWrite + SiiWriteTrace)
over vsim2 eeprom."""
import json
import os
import random
import re

from . import lib
from .simlib import SimCheck, build_vsim

# set to True by the "fix:" commits' follow-up in this file: the specifications model the code as it is
FIXED = dict(CeilWindow=True, Checked=True, ErrorAfterBound=True)


def base_desc(rnd, kind="dio"):
    d = dict(vendor_id=rnd.randint(1, 0xFFFFFF), product_id=rnd.randint(1, 0xFFFFFF), revision=rnd.randint(0, 0xFFFF),
             serial=rnd.randint(0, 0xFFFFFF), alias=rnd.choice([0, 0x1234, 0xFFFF, rnd.randint(0, 0xFFFF)]),
             order="DUT%d" % rnd.randint(0, 99), name="Device under test", group="Tests", size_kbit=rnd.choice([8, 16, 32]))
    # the rest of the header the checksum covers: any values (most real images have zeros in the reserved words)
    if rnd.random() < 0.6:
        d.update(pdi_config=rnd.randint(0, 0xFFFF), sync_impulse_len=rnd.randint(0, 0xFFFF), pdi_config2=rnd.randint(0, 0xFFFF),
                 reserved_words=[rnd.choice([0, rnd.randint(1, 0xFFFF)]), rnd.choice([0, 0xFFFF, rnd.randint(1, 0xFFFF)])])
    if kind == "dio":
        d.update(sync_managers=[dict(start=0x1100, length=2, control=0x64, enable=1, usage=3),
                                dict(start=0x1180, length=3, control=0x20, enable=1, usage=4)],
                 fmmu_usage=[1, 2], rx_pdos=[dict(index=0x1600, sm=0, entries=[8, 8])],
                 tx_pdos=[dict(index=0x1A00, sm=1, entries=[16, 1, 1, 1, 1, 4])])
    return d


# ---------------------------------------------------------------------------------------------
def run_c14(sc, q, rnd):
    consts = dict(RetryBound=20, MaxErrors=25, ErrorAfterBound=FIXED["ErrorAfterBound"])
    cfg = lib.cfg_text(init="SwInit", next_="SwNext", constants=consts,
                       invariants=["RetryBounded", "OkMeansStored", "EventuallyStored"])
    sc.mc("siiwrite", "SiiWrite", cfg, workers=2)
    cases = []
    aliases = [0, 1, 0x00FF, 0x0100, 0x7FFF, 0x8000, 0xFFFF] + [rnd.randint(0, 0xFFFF) for _ in range(60 if q else 0)]
    if not q:
        aliases = list(range(0, 65536, 1)) if os.environ.get("VERIF_ALL_ALIASES") else \
            sorted(set(aliases + [rnd.randint(0, 0xFFFF) for _ in range(6000)]))
    n = 0
    for a in aliases:
        for errs, busy in ((0, 0), (rnd.randint(1, 20), rnd.randint(0, 3)), (20, 1), (21, 0), (25, 0)):
            c = dict(id=f"a{n}", op="alias", desc=base_desc(rnd), alias=a, write_errors=errs, busy_polls=busy,
                     sii8=rnd.random() < 0.5)
            if rnd.random() < 0.2:
                c["extra_writes"] = [dict(word=rnd.randint(0x30, 0x60), data=[rnd.randint(0, 255) for _ in range(rnd.choice([2, 4, 8]))])]
            cases.append(c)
            n += 1
    # generic writes: odd lengths, window end
    for i in range(40 if q else 2000):
        ln = rnd.choice([1, 2, 4, 8])
        desc = base_desc(rnd)
        last_word = desc["size_kbit"] * 128 // 2 - 4      # stay inside the device's memory
        cases.append(dict(id=f"w{i}", op="alias", desc=desc, alias=rnd.randint(0, 0xFFFF), write_errors=0,
                          busy_polls=0, sii8=rnd.random() < 0.5,
                          extra_writes=[dict(word=rnd.choice([last_word, rnd.randint(0x20, last_word)]),
                                             data=[rnd.randint(0, 255) for _ in range(ln)])]))
    # EepromRange::write with payloads of 0..64 bytes at any word address, windows shorter / longer than the payload
    for i in range(120 if q else 6000):
        ln = rnd.choice([0, 1, 2, 3, 4, 5, 7, 8, 9, 63, 64, rnd.randint(0, 64)])
        start = rnd.choice([0, 4, 0x20, 0x3F, 0x40, 0x3FF, 0x7FFF, 0x8000, 0xFFFE, 0xFFFF, rnd.randint(0, 0xFFFF)])
        win = rnd.choice([ln, ln, ln, ln + 1, max(0, ln - 1), max(0, ln - 3), ln + 10, 0, 2])
        cases.append(dict(id=f"rw{i}", op="rangewrite", image=dict(len=0x20000, fill=rnd.choice([0, 0xFF, 0x5A])), window=[start, win],
                          payload=[rnd.randint(1, 255) for _ in range(ln)], sii8=rnd.random() < 0.5))
    trace = sc.run_cases("alias", cases, binary="vsim2")
    consts_t = dict(RetryBound=20, MaxErrors=0, ErrorAfterBound=True)
    sc.validate("alias", trace, "SiiWriteTrace", consts_t, constraints=(),
                key_fn=lambda c: (c["case"].get("alias"), c["case"].get("write_errors"), c["case"].get("busy_polls"),
                                  c["result"], tuple(c["case"].get("window", [])), len(c["case"].get("payload", [])),
                                  tuple(tuple(x) for x in (c.get("changed") or [])[:8])),
                sample_fn=lambda c: c["result"] == "ok" and c["case"].get("write_errors", 0) > 0)
    return sc.finish(
        "one case = one set_alias_address (plus generic EEPROM writes) on a simulated device with scripted SII behaviour; distinct by "
        "(alias, command errors, busy polls, result, changed bytes)",
        ["The CRC-8 (poly 0x07, init 0xFF) is recomputed in TLA+ (SiiWrite.Crc8 with Bitwise) from the logged before-image.",
         "eeprom_write_dangerously accepts sized integers only (1, 2, 4, 8 bytes); longer payloads of the property's quantifier go through EepromRange::write only inside the crate.",
         "Quick: boundary aliases plus seeded ones; thorough: thousands (all 65536 with VERIF_ALL_ALIASES=1)."])


def run_c12(sc, q, rnd):
    consts = dict(ImageLen=48, Chunks={4, 8}, MaxLen=20, CeilWindow=FIXED["CeilWindow"])
    cfg = lib.cfg_text(init="SrInit", next_="SrNext", constants=consts,
                       invariants=["ReturnsPrefixOfRange", "ReturnsExactlyRange", "NeverBeyondWindow", "AccessesBounded"])
    sc.mc("siiread", "SiiRead", cfg, workers=4)
    cases = []
    n = 0
    for sii8 in (False, True):
        for size_kbit in ((8, 16, 512, 1024) if q else (8, 16, 32, 64, 512, 1024, 4096)):
            desc = base_desc(rnd)
            desc["size_kbit"] = size_kbit
            words = size_kbit * 128 // 2
            starts = [0, 1, 2, 3, 7, 8, 0x3E, 0x40, 0x41, words - 9, words - 2, words - 1, min(words - 1, 0x7FFE), min(words - 1, 0x7FFF), min(words - 1, 0x8000), min(words - 1, 0xFFFE)] + \
                     [rnd.randint(0, words - 1) for _ in range(6 if q else 60)]
            for w in starts:
                # ranges that run past the device's memory or past word 0xFFFF are included: they may be cut short or
                # refused, never answered with other bytes
                reads = [dict(word=w, len=ln, via="raw") for ln in list(range(0, 19)) + [63, 64, 65, 127]]
                reads += [dict(word=w, len=0, via=v) for v in ("typed_u8", "typed_u16", "typed_u32", "typed_u64", "typed_a16x3", "typed_a32x2", "typed_a8x6")]
                cases.append(dict(id=f"g{n}", op="ranges", desc=desc, sii8=sii8, reads=reads))
                n += 1
    trace = sc.run_cases("ranges", cases, binary="vsim2")
    consts_t = dict(ImageLen=0, Chunks="{4}", MaxLen=0, CeilWindow=True)
    sc.validate("ranges", trace, "SiiReadTrace", consts_t, constraints=(),
                key_fn=lambda c: (c["case"]["sii8"], c["image_len"], tuple((r["word"], r["len"], r["via"], r["result"], r.get("n"))
                                                                             for r in c.get("reads", [])[:8])),
                sample_fn=lambda c: True)
    # register-level protocol of every read that succeeded inside the image (SiiDevice)
    cfg = lib.cfg_text(spec="McSpec", constants=dict(MaxBusy=2, MaxWord=9, MaxLen=20), invariants=["AccessesCover"])
    sc.mc("siidevice", "SiiDeviceMC", cfg, workers=2)
    regs = os.path.join(sc.wd, "siidevice.proj.ndjson")
    nreg = 0
    with open(trace) as fi, open(regs, "w") as fo:
        for line in fi:
            c = json.loads(line)
            for j, r in enumerate(c.get("reads", [])):
                if r.get("result") != "ok" or "sii" not in r or len(r["sii"]) >= 400 or nreg >= (500 if q else 4000):
                    continue
                fo.write(json.dumps(dict(case=dict(id=f"{c['case']['id']}#{j}"), word=r["word"], len=r["len"], n=r.get("n", 0),
                                         chunk=8 if c["case"]["sii8"] else 4,
                                         sii=[dict(reg=e["reg"], rw=e["rw"], len=e["len"], value=e["value"] + [0, 0, 0]) for e in r["sii"]])) + "\n")
                nreg += 1
    sc.validate("siidevice", regs, "SiiDeviceTrace", dict(MaxBusy=1000), constraints=("Track", "Judge"),
                key_fn=lambda c: (c["word"] % 4, c["len"], c["chunk"], c["n"], len(c["sii"])), sample_fn=lambda c: False)
    run_c12_image(sc, q, rnd)
    return sc.finish(
        "one case = one device whose EEPROM is read through the public API for a list of (start word, length) ranges; "
        "distinct by (chunk size, image size, ranges and outcomes)",
        ["'expect' is sliced by the harness from its own copy of the image (independent of ethercrab).",
         "Parsed-view fidelity (second sentence of C12) is checked by the SiiImage part of this check when present; see evidence.parts.",
         "Ranges past the device's memory or past word 0xFFFF must not panic and must not return other bytes; only ranges inside both must be complete."])


def project_hostile(src, dst, profile, ndump):
    """The fields SiiHostileTrace needs (no nulls, small)."""
    n = 0
    with open(src) as fi, open(dst, "a") as fo:
        for line in fi:
            c = json.loads(line)
            detail = " | ".join(str(c.get(k, "")) for k in ("panic", "init_panic", "op_panic") if c.get(k))
            fo.write(json.dumps(dict(
                case=dict(id=f"{c['case']['id']}-{profile}", name=c["case"].get("name", ""), profile=profile,
                          sii8=bool(c["case"].get("sii8")), overflow_checks=bool(c.get("overflow_checks"))),
                id=f"{c['case']['id']}-{profile}",
                result=c.get("result", "none"), init_result=c.get("init_result", "none"),
                op_result=c.get("op_result", "none"), detail=detail[:300], queries=ndump,
                chunk_reads=c.get("chunk_reads", 0), init_frames=c.get("init_frames", 0),
                dump=[dict(name=d["name"], reads=d["reads"], cls=d["value"].split("(")[0]) for d in c.get("dump", [])],
                read_log=c.get("read_log", []))) + "\n")
            n += 1
    return n


def run_c13(sc, q, rnd):
    import sys
    sys.path.insert(0, os.path.join(lib.VERIF, "tools", "simgen"))
    import hostile_sii
    lens = {0, 1, 3, 65469, 65470, 65471, 65535}
    for wrapping in (True, False):
        consts = dict(Lens=lens, MaxVisits=4 if q else 6, Wrapping=wrapping, Checked=FIXED["Checked"])
        cfg = lib.cfg_text(init="ScInit", next_="ScNext", constants=consts,
                           invariants=["NoOverflowEvent", "Monotone", "NoRevisit"])
        sc.mc(f"categories-{'wrap' if wrapping else 'checked'}", "SiiCategories", cfg, workers=4)
    cases = []
    for name, img in hostile_sii.seeds():
        for sii8 in (False, True):
            cases.append(dict(id=f"s{len(cases)}", name=name, op="parse", image=img, sii8=sii8))
    for i in range(60 if q else 1500):
        cases.append(dict(id=f"r{i}", name="random", op="parse", image=hostile_sii.random_image(rnd), sii8=rnd.random() < 0.5))
    # structured-then-mutated: a well-formed description with bytes of the encoded image overwritten
    for i in range(30 if q else 600):
        muts = [[rnd.choice([rnd.randint(0x80, 0x140), rnd.randint(0, 0x7F), rnd.randint(0x80, 0x300)]),
                 rnd.choice([0, 1, 0xFF, 0x7F, 0x80, rnd.randint(0, 255)])] for _ in range(rnd.randint(1, 6))]
        cases.append(dict(id=f"m{i}", name="mutated", op="parse", desc=base_desc(rnd), mutate=muts, sii8=rnd.random() < 0.5))
    # adversarial but otherwise well-formed devices: initialisation gets as far as the process data configuration
    def dev(seed_name, **over):
        d = base_desc(rnd)
        d.update(over)
        for sii8 in (False, True):
            cases.append(dict(id=f"d{len(cases)}", name=seed_name, op="parse", desc=d, sii8=sii8))
    big = [255] * 255
    dev("pdo_sum_tx", tx_pdos=[dict(index=0x1A00, sm=1, entries=big), dict(index=0x1A01, sm=1, entries=big)])
    dev("pdo_sum_rx", rx_pdos=[dict(index=0x1600, sm=0, entries=big), dict(index=0x1601, sm=0, entries=big)])
    dev("pdo_sum_both", tx_pdos=[dict(index=0x1A00 + i, sm=1, entries=big) for i in range(3)],
        rx_pdos=[dict(index=0x1600 + i, sm=0, entries=big) for i in range(3)], size_kbit=128)
    dev("pdo_64", tx_pdos=[dict(index=0x1A00 + i, sm=1, entries=[8]) for i in range(64)], size_kbit=32)
    dev("pdo_65", tx_pdos=[dict(index=0x1A00 + i, sm=1, entries=[8]) for i in range(65)], size_kbit=32)
    dev("name_idx_one_past", name_idx=4, order_idx=4)
    dev("name_idx_255", name_idx=255)
    dev("strings_50_long", strings=["x" * 255] * 50, size_kbit=128)
    dev("size_4mbit", size_kbit=4096)
    dev("size_1kbit", size_kbit=1, tx_pdos=[], rx_pdos=[], name="", group="", order="")
    dev("sm_zero_len_pdos", sync_managers=[dict(start=0x1100, length=0, control=0x64, enable=1, usage=3),
                                           dict(start=0x1180, length=0, control=0x20, enable=1, usage=4)])
    dev("fmmu_16", fmmu_usage=[1, 2] + [0] * 14)
    dev("pdo_sm_255", tx_pdos=[dict(index=0x1A00, sm=255, entries=[8])], rx_pdos=[dict(index=0x1600, sm=9, entries=[8])])
    trace = os.path.join(sc.wd, "hostile.trace.ndjson")
    open(trace, "w").close()
    for profile in ("dev", "wrap"):
        bindir = sc.bindir if profile == "dev" else build_vsim("wrap")
        for c in cases:
            c["profile"] = profile
        raw = sc.run_cases(f"hostile-{profile}", cases, binary="vsim2", bindir=bindir)
        project_hostile(raw, trace, profile, 21)
    consts_t = dict(Lens="{}", MaxVisits=0, Wrapping=True, Checked=True)
    sc.validate("hostile", trace, "SiiHostileTrace", consts_t, constraints=("Track", "Judge"),
                key_fn=lambda c: (c["case"]["name"], c["case"]["profile"], c["result"], c["init_result"], c["op_result"],
                                  c["chunk_reads"], tuple(d["cls"] for d in c["dump"])),
                sample_fn=lambda c: c["chunk_reads"] > 200)
    return sc.finish(
        "one case = one EEPROM image given to the parser (all queries, every device access counted and logged) and to a "
        "simulated device that is initialised and taken to OP, in one of two builds (overflow checks on / off); distinct by "
        "(seed name, build, results, access count, result classes of the queries)",
        ["The access log holds the first 3000 accesses of a case; longer walks are validated on that prefix, the access "
         "bound on the full count.",
         "The simulated device's SII interface serves words beyond the image as 0xFF.",
         "An image that makes initialisation fail with an error is a pass: the property demands an orderly end, not success."])


# ---------------------------------------------------------------------------------------------
# C12, second sentence: random device descriptions -> image -> parser, against SiiImage
SM_CONTROLS = [0x00, 0x04, 0x20, 0x24, 0x44, 0x64, 0x02, 0x06, 0x22, 0x26, 0x10, 0x74]
VALID_SIZES = [1, 2, 4, 8, 16, 32, 64, 128, 256, 512, 1024, 2048, 4096]


def rand_bytes_string(rnd):
    kind = rnd.random()
    n = rnd.choice([0, 1, 2, 5, 16, 63, 64, 65, 127, 128, 129, 254, 255, rnd.randint(0, 255), rnd.randint(0, 40), rnd.randint(0, 40)])
    if kind < 0.5:
        return [rnd.randint(0x20, 0x7E) for _ in range(n)]
    if kind < 0.8:
        return [rnd.choice([0, 0x41, 0xB5, 0xFF, 0x80, 0x7F, rnd.randint(0, 255)]) for _ in range(n)]
    return [rnd.randint(0, 255) for _ in range(n)]


def random_desc(rnd, small):
    strings = [rand_bytes_string(rnd) for _ in range(rnd.choice([0, 1, 3, 4, rnd.randint(0, 12) if small else rnd.randint(0, 50), 50 if not small else 6]))]
    ns = len(strings)
    idx = lambda: rnd.choice([0, rnd.randint(0, ns), rnd.randint(0, ns)]) if ns else rnd.choice([0, 0, 3])
    d = dict(vendor_id=rnd.choice([0, 2, 0xFFFFFFFF, rnd.randint(0, 0xFFFFFFFF)]), product_id=rnd.randint(0, 0xFFFFFFFF),
             revision=rnd.randint(0, 0xFFFFFFFF), serial=rnd.choice([0, rnd.randint(0, 0xFFFFFFFF)]),
             alias=rnd.choice([0, 0xFFFF, rnd.randint(0, 0xFFFF)]), strings=strings,
             order_idx=idx(), name_idx=idx(), group_idx=idx(), image_idx=idx(),
             has_general=rnd.random() < 0.9, pad_byte=rnd.choice([0, 0, 0xFF, 0x5A]), dc=rnd.random() < 0.3)
    if rnd.random() < 0.5:
        d["mailbox"] = dict(recv_offset=rnd.randint(0x1000, 0x2000), recv_size=rnd.choice([0, 64, 128, 1024, rnd.randint(0, 0xFFFF)]),
                            send_offset=rnd.randint(0x1000, 0x2000), send_size=rnd.choice([0, 64, 128, rnd.randint(0, 0xFFFF)]),
                            protocols=rnd.randint(0, 0x3F), coe_details=rnd.randint(0, 0x3F))
    d["sync_managers"] = [dict(start=rnd.randint(0, 0xFFFF), length=rnd.choice([0, 1, 2, 128, rnd.randint(0, 0xFFFF)]),
                               control=rnd.choice(SM_CONTROLS), enable=rnd.randint(0, 15), usage=rnd.randint(0, 4))
                          for _ in range(rnd.randint(0, 8))]
    d["fmmu_usage"] = [rnd.choice([0, 1, 2, 3, 255]) for _ in range(rnd.randint(0, 16))]
    d["fmmu_ex"] = [[rnd.randint(0, 255), rnd.randint(0, 8), rnd.randint(0, 255)] for _ in range(rnd.choice([0, 0, rnd.randint(0, 16)]))]
    npdo = rnd.choice([0, 1, 2, 3, rnd.randint(0, 10), rnd.randint(0, 10) if small else rnd.randint(0, 64)])
    ntx = rnd.randint(0, npdo)

    def pdo(i, base):
        ne = rnd.choice([0, 1, 2, 8, rnd.randint(0, 12), rnd.randint(0, 12), rnd.randint(0, 30) if small else rnd.randint(0, 255)])
        return dict(index=base + i, sm=rnd.randint(0, 7), name_idx=rnd.randint(0, ns),
                    entries=[dict(index=rnd.randint(0, 0xFFFF), sub=rnd.randint(0, 255), bit_len=rnd.choice([0, 1, 8, 16, 32, 255, rnd.randint(0, 255)]),
                                  data_type=rnd.randint(0, 255), name_idx=rnd.randint(0, ns)) for _ in range(ne)])
    d["tx_pdos"] = [pdo(i, 0x1A00) for i in range(ntx)]
    d["rx_pdos"] = [pdo(i, 0x1600) for i in range(npdo - ntx)]
    d["extra_categories"] = [[rnd.choice([1, 2, 9, 11, 29, 43, 0x0800, 0x0801, 0x7FFF, 0xFFFE, rnd.randint(0x0800, 0xFFFE)]),
                              [rnd.randint(0, 255) for _ in range(rnd.choice([0, 1, 2, 7, rnd.randint(0, 40)]))]]
                             for _ in range(rnd.choice([0, 0, 1, 2, 4]))]
    order = []
    if strings:
        order.append("strings")
    if d["has_general"]:
        order.append("general")
    for key, name in (("fmmu_usage", "fmmu"), ("sync_managers", "syncm"), ("fmmu_ex", "fmmu_ex"), ("tx_pdos", "txpdo"), ("rx_pdos", "rxpdo")):
        if d[key] or rnd.random() < 0.15:          # sometimes present but empty
            order.append(name)
    if d["dc"]:
        order.append("dc")
    order += [f"extra{i}" for i in range(len(d["extra_categories"]))]
    if rnd.random() < 0.6:
        rnd.shuffle(order)
    d["category_order"] = order
    size = 128 + 2 + sum(4 + 2 for _ in order) + 1 + sum(1 + len(s_) for s_ in strings) + 32 + 16 + 8 * len(d["sync_managers"]) + \
        3 * len(d["fmmu_ex"]) + sum(8 + 8 * len(p_["entries"]) for p_ in d["tx_pdos"] + d["rx_pdos"]) + 64 + \
        sum(len(e[1]) + 1 for e in d["extra_categories"])
    fits = [k for k in VALID_SIZES if k * 128 >= size]
    d["size_kbit"] = rnd.choice(fits[:4] + fits) if not small else fits[0]
    return d


def q_ok(v):
    return dict(k="Ok", v=v)


def limbs(x):
    return [x & 0xFFFF, x >> 16]


def expect_of(d):
    """What the description says, in the shape of SiiImage's queries."""
    strings = d["strings"]
    cats = d["category_order"]

    def find(idx, cap):
        if idx == 0 or "strings" not in cats or idx > len(strings):
            return dict(k="None", v=[])
        s_ = strings[idx - 1]
        if len(s_) > cap:
            return dict(k="Err", v="StringTooLong")
        return dict(k="Some", v=[63 if b >= 128 else b for b in s_ if b != 0])
    mb = d.get("mailbox") or dict(recv_offset=0, recv_size=0, send_offset=0, send_size=0, protocols=0, coe_details=0)
    e = dict(alias=q_ok([d["alias"]]), size=q_ok([d["size_kbit"] * 128]),
             identity=q_ok(limbs(d["vendor_id"]) + limbs(d["product_id"]) + limbs(d["revision"]) + limbs(d["serial"])),
             mailbox=q_ok([mb["recv_offset"], mb["recv_size"], mb["send_offset"], mb["send_size"], mb["protocols"]]))
    if d["has_general"]:
        e["general"] = q_ok([d["group_idx"], d["image_idx"], d["order_idx"], d["name_idx"], mb["coe_details"], 0, 0, 0, 0])
        e["name"] = find(d["order_idx"], 64)
        e["description"] = find(d["name_idx"], 128)
    else:
        e["general"] = dict(k="Err", v="Eeprom(NoCategory)")
        e["name"] = dict(k="None", v=[])
        e["description"] = dict(k="Err", v="Eeprom(NoCategory)")

    def eff(u, mode, dr):
        return u if u else ((4 if dr == 0 else 3) if mode == 0 else (2 if dr == 0 else 1))
    e["sync_managers"] = q_ok([[s_["start"], s_["length"], s_["control"] & 3, (s_["control"] >> 2) & 3, (s_["control"] >> 4) & 1,
                                (s_["control"] >> 5) & 1, (s_["control"] >> 6) & 1, s_["enable"], s_["usage"],
                                eff(s_["usage"], s_["control"] & 3, (s_["control"] >> 2) & 3)] for s_ in d["sync_managers"]]
                              if "syncm" in cats else [])
    fm = [[0 if u == 255 else u] for u in d["fmmu_usage"]]
    if len(fm) % 2:
        fm.append([0])
    e["fmmus"] = q_ok(fm if "fmmu" in cats else [])
    e["fmmu_mappings"] = q_ok([[x[1]] for x in d["fmmu_ex"]] if "fmmu_ex" in cats else [])
    for key, cat, q_ in (("tx_pdos", "txpdo", "read_pdos"), ("rx_pdos", "rxpdo", "write_pdos")):
        e[q_] = q_ok([[p_["index"], len(p_["entries"]), p_["sm"], sum(x["bit_len"] for x in p_["entries"])] for p_ in d[key]]
                     if cat in cats else [])
    return e


def parse_field_value(name, value):
    kind, _, rest = value.partition(":")
    if kind == "Err":
        m = re.match(r"^(\w+)(\((\w+)(\(\w+\))?\))?", rest)
        return dict(k="Err", v=m.group(0) if m else rest)
    if kind == "None":
        return dict(k="None", v=[])
    if kind == "Some":
        return dict(k="Some", v=list(bytes.fromhex(rest)))
    if name in ("alias", "size", "mailbox"):
        return q_ok([int(x) for x in rest.split(",")])
    if name == "general":
        return q_ok([int(x) for x in rest.split(",")][:9])
    if name == "identity":
        return q_ok(sum((limbs(int(x)) for x in rest.split(",")), []))
    return q_ok([[int(x) for x in item.split(",")] for item in rest.split(";") if item != ""])


def project_image_case(c):
    obs = {d["name"]: parse_field_value(d["name"], d["value"]) for d in c.get("dump", [])}
    sub = c.get("subdevice")
    subj = dict(present=False, name=[], identity=[], alias=0)
    if c.get("init_result") == "ok" and sub:
        subj = dict(present=True, name=list(sub["name"].encode()), alias=sub["alias"],
                    identity=sub["vendor"] + sub["product"] + sub["revision"] + sub["serial"])
    return dict(case=dict(id=c["case"]["id"], sii8=bool(c["case"].get("sii8"))), result=c.get("result", "none"),
                init_result=c.get("init_result", "none"), image=c.get("image_prefix", []), obs=obs, sub=subj,
                expect=expect_of(c["case"]["desc"]), ncats=len(c["case"]["desc"]["category_order"]),
                nstrings=len(c["case"]["desc"]["strings"]), npdos=len(c["case"]["desc"]["tx_pdos"]) + len(c["case"]["desc"]["rx_pdos"]),
                image_len=c.get("image_len", 0))


def run_c12_image(sc, q, rnd):
    cases = []
    for i in range(60 if q else 1200):
        small = q or i % 4 != 0
        cases.append(dict(id=f"i{i}", op="parse", fields=True, desc=random_desc(rnd, small), sii8=rnd.random() < 0.5))
    raw = sc.run_cases("image", cases, binary="vsim2")
    trace = os.path.join(sc.wd, "image.proj.ndjson")
    with open(raw) as fi, open(trace, "w") as fo:
        for line in fi:
            fo.write(json.dumps(project_image_case(json.loads(line))) + "\n")
    sc.validate("image", trace, "SiiImageTrace", {}, constraints=(),
                key_fn=lambda c: (c["ncats"], c["nstrings"], c["npdos"], c["image_len"], c["case"]["sii8"], c["init_result"],
                                  tuple(sorted((k, v["k"]) for k, v in c["obs"].items()))),
                sample_fn=lambda c: False)
    sc.samples.append(dict(note="image cases carry the whole image; see tools/simgen and checks/eeprom.py random_desc"))


def run(pid, tier):
    q = tier == "quick"
    sc = SimCheck(pid, tier, "eeprom")
    rnd = random.Random(lib.seed())
    if pid == "C14":
        return run_c14(sc, q, rnd)
    if pid == "C12":
        return run_c12(sc, q, rnd)
    if pid == "C13":
        return run_c13(sc, q, rnd)
    raise lib.ToolError(f"{pid} not implemented in eeprom engine")


def replay(pid, tier, path):
    """Re-run the check that produced the replay file with its recorded seed and tier (the generators are seeded, so the
    same cases are produced) and judge again."""
    import json as _json
    rp = _json.load(open(path))
    os.environ["VERIF_SEED"] = str(rp.get("seed", 1))
    return run(pid, rp.get("tier", tier))
