"""Engine `coe`: C15 (CoE.tla / CoEMC / CoETrace) and C16 (CoEHostile / CoEHostileTrace) over vsim2 coe."""
import json
import os
import random

from . import lib
from .simlib import SimCheck

FIXED = dict(KeepInitData=True, SegDataAt=10)

DESTS = {"u8": ("exact", 1), "u16": ("exact", 2), "u32": ("exact", 4), "u64": ("exact", 8), "arr4": ("exact", 4),
         "arr16": ("exact", 16), "arr64": ("exact", 64), "a16x4": ("exact", 8), "a32x3": ("exact", 12), "a64x2": ("exact", 16), "str32": ("upto", 32), "str128": ("upto", 128), "raw_vec": ("upto", 512)}
ABORTS = [0x05030000, 0x05040000, 0x05040001, 0x05040005, 0x06010000, 0x06010001, 0x06010002, 0x06020000, 0x06040041,
          0x06040042, 0x06040043, 0x06040047, 0x06060000, 0x06070010, 0x06070012, 0x06070013, 0x06090011, 0x06090030,
          0x06090031, 0x06090032, 0x06090036, 0x08000000, 0x08000020, 0x08000021, 0x08000022, 0x08000023]


def rand_obj(rnd, n, ascii_only):
    if ascii_only:
        return [rnd.randint(0x20, 0x7E) for _ in range(n)]
    return [rnd.randint(0, 255) for _ in range(n)]


def read_case(cid, rnd):
    read_as = rnd.choice(list(DESTS))
    kind, n = DESTS[read_as]
    if kind == "exact":
        size = rnd.choice([n, n, n, rnd.randint(0, n), n + rnd.randint(0, 8)])
    else:
        size = rnd.choice([0, 1, 4, 5, rnd.randint(0, n), rnd.randint(0, n), n, n + 1, min(512, n + rnd.randint(1, 40))])
    size = min(size, 512)
    mbx = rnd.choice([16, 17, 18, 20, 24, 32, 64, 128, 256, 1024, rnd.randint(16, 1024)])
    mode = rnd.choice(["auto", "auto", "normal", "segmented", "segmented"])
    seg = []
    if mode == "segmented":
        seg = [rnd.choice([0, 1, 3, 6, 7, 8, rnd.randint(0, 30)]) for _ in range(rnd.randint(1, 6))]
    fault = rnd.choice(["none"] * 8 + ["abort", "emergency", "wrong_index", "wrong_sub"])
    c = dict(id=cid, op="transfer", object=rand_obj(rnd, size, read_as.startswith("str")), index=rnd.choice([0x2100, 0x1008, 0x6000, 0x8fff]),
             sub=rnd.randint(0, 255), mailbox_size=mbx, mode=mode, seg_sizes=seg, compat=False, read_as=read_as,
             stale_out_mailbox=rnd.random() < 0.1, dir="read", value=[], complete=False, inject="none")
    if rnd.random() < 0.1:
        c["complete"] = True
    if rnd.random() < 0.3:
        c["write_mailbox_size"] = rnd.choice([16, 24, 64, 128, 512, rnd.randint(16, 1024)])
    if fault == "abort":
        c["inject"] = "abort:0x%08x" % rnd.choice(ABORTS)
    elif fault != "none":
        c["inject"] = fault
    if fault == "emergency":
        c["emergency_code"] = rnd.choice([0x8130, 0xFF00, 0x50A0, 0xA000, 0x62E5, rnd.randint(0, 0xFFFF)])
        c["emergency_register"] = rnd.randint(0, 255)
    return c


def toolong_segmented_case(cid, rnd):
    """An object larger than the destination whose *first fragment* (what the initiate response of a segmented upload
    carries: mailbox - 16 bytes) fits the destination, or just does not."""
    read_as = rnd.choice(["arr16", "arr64", "str32", "str128", "u64"])
    n = DESTS[read_as][1]
    mbx = rnd.choice([16, 17, 20, 24, max(16, n + 16 - rnd.randint(0, 8)), n + 16, n + 17])
    size = min(512, max(n + 1, mbx - 15) + rnd.choice([0, 0, 1, 5, rnd.randint(0, 40)]))
    c = read_case(cid, rnd)
    c.update(object=rand_obj(rnd, size, read_as.startswith("str")), read_as=read_as, mailbox_size=mbx, mode=rnd.choice(["auto", "segmented"]),
             seg_sizes=[], inject="none", complete=False)
    c.pop("write_mailbox_size", None)
    return c


def write_case(cid, rnd):
    n = rnd.choice([1, 2, 3, 4, 4])
    value = [rnd.randint(0, 255) for _ in range(n)]
    fault = rnd.choice(["none"] * 6 + ["abort", "emergency", "wrong_index", "wrong_sub"])
    c = dict(id=cid, op="transfer", object=[0] * n, index=rnd.choice([0x2100, 0x7010]), sub=rnd.randint(0, 255),
             mailbox_size=rnd.choice([16, 24, 128, 1024]), mode="auto", seg_sizes=[], compat=False, read_as="raw_vec",
             stale_out_mailbox=rnd.random() < 0.1, dir="write", value=value, complete=rnd.random() < 0.1, inject="none")
    if fault == "abort":
        c["inject"] = "abort:0x%08x" % rnd.choice(ABORTS)
    elif fault != "none":
        c["inject"] = fault
    return c


def array_case(cid, rnd, force_n=0):
    read_as = rnd.choice(["u8", "u16"] if force_n else ["u8", "u16", "u32", "u64"])
    elem = DESTS[read_as][1]
    n = rnd.choice([0, 1, 2, 3, 7, 8, 15, 16])
    data = [rnd.randint(0, 255) for _ in range(n * elem)]
    if force_n or (elem <= 2 and rnd.random() < 0.12):
        # a destination for the longest list there is (sub-index 0 = 255)
        n = force_n or rnd.choice([255, 255, 254, 17, 100])
        data = [rnd.randint(0, 255) for _ in range(n * elem)]
        return dict(id=cid, op="transfer", object=data, index=0x1C13, sub=0, mailbox_size=rnd.choice([16, 32, 128]), mode="auto",
                    seg_sizes=[], compat=False, read_as=read_as, stale_out_mailbox=False, dir="read_array", value=[],
                    complete=False, inject="none", array_cap=255)
    if rnd.random() < 0.5 or elem > 4:
        return dict(id=cid, op="transfer", object=data, index=0x1C13, sub=0, mailbox_size=rnd.choice([16, 32, 128]), mode="auto",
                    seg_sizes=[], compat=False, read_as=read_as, stale_out_mailbox=False, dir="read_array", value=[],
                    complete=False, inject="none")
    return dict(id=cid, op="transfer", object=[0] * len(data), index=0x1C12, sub=0, mailbox_size=rnd.choice([16, 32, 128]),
                mode="auto", seg_sizes=[], compat=False, read_as=read_as, stale_out_mailbox=False, dir="write_array",
                value=data, complete=False, inject="none")


def fault_of(case):
    inj = case.get("inject", "none")
    if inj.startswith("abort"):
        return "abort"
    if inj.startswith("emergency"):
        return "emergency"
    return inj


def dest_rec(read_as):
    kind, n = DESTS[read_as]
    return dict(kind=kind, n=n)


def project(c):
    case = c["case"]
    fault = fault_of(case)
    d = case["dir"]
    elem = DESTS.get(case["read_as"], ("exact", 2))[1] if d.endswith("array") else 0
    obj = case["object"]
    res = c.get("result", "none")
    if res == "err:Mailbox":
        res = "err:" + c.get("mailbox", "?")
    plan, expect_value, expect_result = [], [], "any"
    if d == "read":
        dest = dest_rec(case["read_as"])
        plan = [dict(dir="read", sub=1 if case["complete"] else case["sub"], obj=obj, data=[], dest=dest)]
        if len(obj) > dest["n"] and len(obj) > 4:
            expect_result = "err:TooLong"
        elif dest["kind"] == "exact" and len(obj) < dest["n"]:
            expect_result = "err:Pdu"
        elif len(obj) > dest["n"]:
            expect_result = "any"
        else:
            expect_result = "ok"
        expect_value = obj[:dest["n"]] if dest["kind"] == "exact" else obj
    elif d == "read_array":
        n = len(obj) // elem
        plan = [dict(dir="read", sub=0, obj=[min(n, 255)], data=[], dest=dict(kind="exact", n=1))]
        plan += [dict(dir="read", sub=i + 1, obj=obj[i * elem:(i + 1) * elem], data=[], dest=dict(kind="exact", n=elem))
                 for i in range(n)]
        expect_result = "ok" if n <= case.get("array_cap", 16) else "err:Capacity"
        expect_value = obj[:n * elem]
    elif d == "write":
        v = case["value"]
        plan = [dict(dir="write", sub=1 if case["complete"] else case["sub"], obj=obj, data=v, dest=dict(kind="upto", n=4))]
        expect_result = "ok" if 1 <= len(v) <= 4 and len(v) == len(obj) else "any"
    else:
        v = case["value"]
        n = len(v) // elem
        plan = [dict(dir="write", sub=0, obj=[0], data=[0], dest=dict(kind="upto", n=4))]
        plan += [dict(dir="write", sub=i + 1, obj=[0] * elem, data=v[i * elem:(i + 1) * elem], dest=dict(kind="upto", n=4))
                 for i in range(n)]
        plan.append(dict(dir="write", sub=0, obj=[0], data=[n], dest=dict(kind="upto", n=4)))
        expect_result = "ok" if elem <= 4 else "any"
    server_after, expect_server = [], []
    if d == "write":
        sub = 1 if case["complete"] else case["sub"]
        server_after = next((s["bytes"] for s in c.get("server_od_after", []) if s["sub"] == sub), [])
        expect_server = case["value"]
    elif d == "write_array":
        after = {s["sub"]: s["bytes"] for s in c.get("server_od_after", [])}
        n = len(case["value"]) // elem
        server_after = after.get(0, []) + sum((after.get(i + 1, []) for i in range(n)), [])
        expect_server = [n] + case["value"][:n * elem]
    code = c.get("abort_code")
    inj = case.get("inject", "")
    return dict(case=dict(id=case["id"]), index=case["index"], mailbox_size=case["mailbox_size"], fault=fault,
                complete=bool(case["complete"]), dir="read" if d.startswith("read") else "write", plan=plan,
                mailbox_log=[dict(dir=m["dir"], bytes=m["bytes"]) for m in c.get("mailbox_log", [])],
                obs_result=res, value=c.get("value", []), expect_value=expect_value, expect_result=expect_result,
                server_after=server_after, expect_server=expect_server, counters=c.get("counters", []),
                abort_code=(code[0] + 65536 * code[1]) if code else 0,
                expect_abort=int(inj.split(":")[1], 16) if inj.startswith("abort:") else 0,
                mode=case["mode"], nobj=len(obj), array=d.endswith("array"), detail="", frames=c.get("frames", 0), frame_bound=0,
                conform=True,
                emergency=[c.get("error_code", -1), c.get("error_register", -1)],
                expect_emergency=[case.get("emergency_code", 0x8130), case.get("emergency_register", 0x11)])


def run_c15(sc, q, rnd):
    consts = dict(Lens={0, 1, 3, 4, 5, 8, 9, 17} if q else {0, 1, 2, 3, 4, 5, 7, 8, 9, 12, 17, 25}, Objects="<-McObjects", Dests="<-McDests",
                  DownloadValues="<-McDownloads", MbxSizes={16, 18, 24}, Faults='{"none", "abort", "emergency", "wrong_index", "wrong_sub"}',
                  MaxRequests=40, **FIXED)
    cfg = lib.cfg_text(spec="CoSpec", constants=consts,
                       invariants=["ReadExact", "WriteExact", "FaultsReported", "CounterCycles", "NeverBeyondBuffer", "OneOutstanding", "Progress"])
    sc.mc("coe", "CoEMC", cfg, workers=8)
    cases = []
    for i in range(150 if q else 4000):
        cases.append(read_case(f"r{i}", rnd))
    for i in range(20 if q else 400):
        cases.append(toolong_segmented_case(f"t{i}", rnd))
    for i in range(40 if q else 800):
        cases.append(write_case(f"w{i}", rnd))
    for i in range(30 if q else 500):
        cases.append(array_case(f"a{i}", rnd))
    cases.append(array_case("a255", rnd, force_n=255))
    cases.append(array_case("a254", rnd, force_n=254))
    raw = sc.run_cases("transfer", cases, binary="vsim2")
    trace = os.path.join(sc.wd, "transfer.proj.ndjson")
    with open(raw) as fi, open(trace, "w") as fo:
        for line in fi:
            fo.write(json.dumps(project(json.loads(line))) + "\n")
    tconst = dict(Objects="{}", Dests="{}", DownloadValues="{}", MbxSizes="{}", Faults="{}", MaxRequests=100000, **FIXED)
    sc.validate("transfer", trace, "CoETrace", tconst, constraints=("Track", "Judge"),
                key_fn=lambda c: (c["dir"], c["fault"], c["mailbox_size"], c["mode"], c["nobj"], c["obs_result"], len(c["mailbox_log"]),
                                  len(c["plan"]), c["complete"]),
                sample_fn=lambda c: len(c["mailbox_log"]) > 6)
    # the register-level handshake around every request (MailboxPoll)
    mcfg = lib.cfg_text(spec="MpSpec", constants=dict(MaxStale=3, MaxPolls=3, PromptReload=True),
                        invariants=["WrittenOnce", "ResponseIsResponse", "DrainBounded"])
    sc.mc("mailboxpoll", "MailboxPoll", mcfg, workers=2)
    hs = os.path.join(sc.wd, "handshake.proj.ndjson")
    with open(raw) as fi, open(hs, "w") as fo:
        for line in fi:
            c = json.loads(line)
            if "wire" not in c:
                continue
            ms = c["case"]["mailbox_size"]
            fo.write(json.dumps(dict(case=dict(id=c["case"]["id"]), result=c.get("result", "none"), wire=c["wire"],
                                     stale=1 if c["case"].get("stale_out_mailbox") else 0,
                                     requests=sum(1 for m in c.get("mailbox_log", []) if m["dir"] == "in"),
                                     out_status=0x080D, in_status=0x0805, mbx_in=0x1000, mbx_out=0x1400, mbx=ms)) + "\n")
    sc.validate("handshake", hs, "MailboxPollTrace", dict(MaxStale=1, MaxPolls=100000, PromptReload=False),
                constraints=("Track", "Judge"), key_fn=lambda c: (len(c["wire"]), c["stale"], c["requests"], c["result"]),
                sample_fn=lambda c: c["stale"] == 1)
    # beyond the listed properties: the object dictionary list of a conforming server, in one or several fragments
    # (conformance only: a difference is reported as a divergence, see DESIGN 11.3 O6)
    il = [dict(id=f"il{i}", op="info_list", objects=n, mailbox_size=m)
          for i, (n, m) in enumerate([(3, 128), (40, 128), (60, 128), (100, 64), (40, 32), (300, 1024), (700, 256)][:7 if q else 7])]
    iltrace = sc.run_cases("infolist", il, binary="vsim2")
    sc.validate("infolist", iltrace, "SdoInfoTrace", {}, constraints=(), key_fn=lambda c: (c["case"]["objects"], c["case"]["mailbox_size"], c.get("result")))
    return sc.finish(
        "one case = one SDO call on the simulated CoE server; distinct by (direction, fault, mailbox size, server mode, object "
        "size, result, messages exchanged, transfers, complete access)",
        ["The server is the harness' own (ETG1000.6 message layouts, any segment split); its messages are fed to the model's "
         "client, the MainDevice's requests must be the model's byte for byte.",
         "Writes of more than four bytes are not supported by ethercrab (documented) and expected to be refused.",
         "Expedited objects larger than an integer destination (e.g. 4 bytes into u16) are outside the statement: any outcome."])


# ---------------------------------------------------------------------------------------------
# C16: scripted hostile replies
ENTRIES = {"sdo_read_u32": (0x2000, "u32"), "sdo_read_arr16": (0x1008, "arr16"), "sdo_read_str": (0x1008, "str32"),
           "sdo_read_array": (0x1C13, None), "sdo_write": (0x2001, None), "sdo_info_list": (0, None),
           "sdo_info_quantities": (0, None), "sdo_write_array": (0x1C12, None), "sdo_read_array255": (0x1C13, None)}


def mbx_msg(length, cnt, mtype, service, body):
    return [length & 255, (length >> 8) & 255, 0, 0, 0, (mtype & 15) | ((cnt & 7) << 4), 0, (service & 15) << 4] + body


def hostile_reply(rnd, index, cnt, seg, hi=250):
    """A field-mutated response: valid enums, everything else free."""
    length = rnd.choice([0, 1, 2, 3, 4, 9, 10, 11, 12, 13, 14, 16, 17, 26, 58, 59, 64, 1000, 65535, rnd.randint(0, 70)])
    mtype = rnd.choice([3, 3, 3, 3, 1, 2, 4, 5, 15])
    service = rnd.choice([3, 3, 3, 3, 1, 2, 4, 8])
    ndata = rnd.choice([0, 0, 1, 4, 7, 8, 16, 40])
    data = [rnd.randint(1, hi) for _ in range(ndata)]
    if seg and rnd.random() < 0.8:
        cmdbyte = rnd.choice([0, 1]) | (rnd.randint(0, 7) << 1) | (rnd.choice([0, 16])) | (rnd.choice([0, 0, 0, 4]) << 5)
        return mbx_msg(length, cnt, mtype, service, [cmdbyte] + data)
    cmd = rnd.choice([2, 2, 2, 2, 0, 1, 3, 4])
    cmdbyte = rnd.randint(0, 31) | (cmd << 5)
    ix = index if rnd.random() < 0.85 else rnd.randint(0, 0xFFFF)
    sub = 0 if rnd.random() < 0.85 else rnd.randint(0, 255)
    size = rnd.choice([[0, 0, 0, 0], [1, 0, 0, 0], [4, 0, 0, 0], [16, 0, 0, 0], [17, 0, 0, 0], [32, 0, 0, 0], [33, 0, 0, 0], [255, 255, 255, 127],
                       [rnd.randint(0, 255), rnd.randint(0, 2), 0, 0]])
    return mbx_msg(length, cnt, mtype, service, [cmdbyte, ix & 255, ix >> 8, sub] + size + data)


def hostile_case(cid, rnd):
    entry = rnd.choice(["sdo_read_u32", "sdo_read_arr16", "sdo_read_arr16", "sdo_read_str", "sdo_read_str", "sdo_read_array", "sdo_write", "sdo_info_list",
                        "sdo_info_quantities", "sdo_write_array", "sdo_read_array255"])
    index = ENTRIES[entry][0]
    mbx = rnd.choice([16, 17, 20, 24, 32, 64, 64, 128, 1024, 6, 8, 10, 12, 13, 14, 15])
    kind = rnd.choice(["fields", "fields", "seg_fields", "seg_fields", "seg_fields", "random", "truncated", "endless"])
    replies = []
    hi = 127 if entry == "sdo_read_str" else 250          # strings: only the ASCII range decodes
    if entry in ("sdo_read_array", "sdo_read_array255", "sdo_write_array") and rnd.random() < 0.6:
        kind = "array_steps"
        mbx = rnd.choice([16, 17, 24, 64, 128])
    c = dict(id=cid, op="hostile", entry=entry, mailbox_size=mbx, fill=0x55 if entry == "sdo_read_str" else 165, repeat_last=False, kind=kind)
    if kind == "array_steps":
        # the helper is answered correctly step by step (sub-index 0, then 1, 2, ..) for a while: the count it is told may
        # be anything up to 255; somewhere a mutated reply may take over
        n = rnd.choice([0, 1, 3, 16, 17, 200, 254, 255, 255])
        if entry == "sdo_write_array":
            # download responses: clear the count, three values, set the count
            replies = [mbx_msg(10, (k % 7) + 1, 3, 3, [0x60, index & 255, index >> 8, sub, 0, 0, 0, 0]) for k, sub in enumerate([0, 1, 2, 3, 0])]
        else:
            replies = [mbx_msg(10, 1, 3, 3, [0x4F, index & 255, index >> 8, 0, n, 0, 0, 0])]
            replies += [mbx_msg(10, (k % 7) + 1, 3, 3, [0x4B, index & 255, index >> 8, k, k, 0x16, 0, 0]) for k in range(1, n + 1)]
        if rnd.random() < 0.5 and len(replies) > 1:
            cut = rnd.randrange(1, len(replies))
            replies = replies[:cut] + [hostile_reply(rnd, index, 1, False, hi)]
    elif kind == "fields":
        n = rnd.randint(1, 6)
        replies = [hostile_reply(rnd, index, i + 1, i > 0, hi) for i in range(n)]
        c["repeat_last"] = rnd.random() < 0.3
    elif kind == "seg_fields":
        # a well-formed start of a segmented upload, then field-mutated segment responses
        cap = {"sdo_read_u32": 4, "sdo_read_arr16": 16, "sdo_read_str": 32}.get(entry, 16)
        k0 = rnd.choice([0, 0, 1, 3])
        complete = rnd.randint(k0 + 1, cap + rnd.choice([0, 0, 0, 1]))
        first = mbx_msg(10 + k0, 1, 3, 3, [0x41, index & 255, index >> 8, 0, complete, 0, 0, 0] + [rnd.randint(1, hi) for _ in range(k0)])
        replies = [first]
        for i in range(rnd.randint(1, 8)):
            if rnd.random() < 0.6:
                # nearly right: valid header, varied length / flags
                n = rnd.choice([1, 2, 6, 7, 8, 12])
                pad = max(0, 7 - n)
                length = rnd.choice([3 + n + pad, 3 + n + pad, 3 + n, 2, 3, 10, 3 + n + pad + 1, 60])
                last = rnd.choice([0, 0, 1])
                unused = rnd.choice([pad, pad, 0, 7, rnd.randint(0, 7)])
                replies.append(mbx_msg(length, i + 2, 3, 3, [last | (unused << 1) | ((i % 2) << 4)] + [rnd.randint(1, hi) for _ in range(n)] + [0] * pad))
            else:
                replies.append(hostile_reply(rnd, index, i + 2, True, hi))
        c["repeat_last"] = rnd.random() < 0.5
    elif kind == "random":
        replies = [[rnd.randint(0, 255) for _ in range(rnd.randint(0, min(mbx, 40)))] for _ in range(rnd.randint(1, 4))]
    elif kind == "truncated":
        good = mbx_msg(10 + 16, 1, 3, 3, [0x41, index & 255, index >> 8, 0, 16, 0, 0, 0] + list(range(1, 17)))
        replies = [good[:rnd.randint(0, len(good))]]
    else:
        first = mbx_msg(10, 1, 3, 3, [0x41, index & 255, index >> 8, 0, rnd.choice([16, 32, 255]), 0, 0, 0])
        seg = rnd.choice([mbx_msg(3, 2, 3, 3, [0]), mbx_msg(10, 2, 3, 3, [14, 1, 2, 3, 4, 5, 6, 7]), mbx_msg(4, 2, 3, 3, [0, 9]),
                          mbx_msg(10, 2, 3, 3, [0, 1, 2, 3, 4, 5, 6, 7])])
        replies = [first, seg]
        if entry in ("sdo_info_list", "sdo_info_quantities"):
            replies = [mbx_msg(10, 1, 3, 8, [0x82, 0, 3, 0, 1, 0, 0, 16]),
                       rnd.choice([mbx_msg(8, 1, 3, 8, [0x82, 0, 3, 0, 0, 0]), mbx_msg(10, 1, 3, 8, [4, 0, 0, 0, 0, 0, 0, 0]),
                                   mbx_msg(10, 1, 3, 8, [0x82, 0, 3, 0, 0x20, 0x20, 0x21, 0x20])])]
            c["burst"] = True
            c["endless"] = True
        c["repeat_last"] = True
    c["replies"] = [r[:mbx] for r in replies]
    return c


def project_hostile(c):
    case = c["case"]
    entry = case["entry"]
    index, read_as = ENTRIES[entry]
    res = c.get("result", "none")
    if res == "err:Mailbox":
        res = "err:" + c.get("mailbox", "?")
    is_write = entry == "sdo_write"
    conform = (read_as is not None or is_write) and case.get("kind") in ("fields", "seg_fields", "truncated", "endless")     # (array helpers: monitor only)
    log = [dict(dir=m["dir"], bytes=m["bytes"]) for m in c.get("mailbox_log", [])] if conform else []
    # the device pads what it puts into the mailbox up to the mailbox size with the fill byte: so does the model
    # (Fetched); a logged reply must have at least the 9 bytes every handler looks at
    for m in log:
        if m["dir"] == "out":
            m["bytes"] = (m["bytes"] + [case.get("fill", 165)] * max(0, case["mailbox_size"] - len(m["bytes"])))[:case["mailbox_size"]]
    dest = dest_rec(read_as) if read_as else dict(kind="exact", n=4)
    bound = 250000 if entry in ("sdo_info_list", "sdo_info_quantities") else 600 * (dest["n"] + 20) * (12 if entry == "sdo_read_array255" else 1)
    if len(log) > 400 or case["mailbox_size"] < 16:       # the model client looks at 16 bytes of every response
        log, conform = [], False
    # a string destination only takes valid UTF-8: replies with bytes outside ASCII in their data are left to the monitor
    if entry == "sdo_read_str" and any(b >= 128 for m in log if m["dir"] == "out" for b in m["bytes"][9:]):
        log, conform = [], False
    plan = [dict(dir="read", sub=0, obj=[], data=[], dest=dest)]
    if is_write:
        plan = [dict(dir="write", sub=0, obj=[0, 0], data=[0xEF, 0xBE], dest=dict(kind="upto", n=4))]
    return dict(case=dict(id=case["id"]), index=index, mailbox_size=case["mailbox_size"], fault="hostile", complete=False,
                dir="write" if is_write else "read",
                plan=plan, mailbox_log=log, obs_result=res,
                value=c.get("value", []), expect_value=[], expect_result="any", server_after=[], expect_server=[],
                counters=c.get("counters", []) if conform else [], abort_code=0, expect_abort=0, mode=case.get("kind", ""), nobj=0,
                array=False, emergency=[0, 0], expect_emergency=[0, 0], detail=str(c.get("panic", ""))[:200],
                frames=c.get("frames", 0), frame_bound=bound, conform=conform, entry=entry)


def run_c16(sc, q, rnd):
    consts = dict(Objects="{}", Dests="{}", DownloadValues="{}", MbxSizes="{}", Faults="{}", MaxRequests=1000, HFull=not q, **FIXED)
    cfg = lib.cfg_text(spec="HSpec", constants=consts, invariants=["NeverBeyondBuffer", "RequestsBounded", "CounterCycles", "Ends"])
    sc.mc("coe-hostile", "CoEHostileMC", cfg, workers=8, timeout=3000)
    cases = [hostile_case(f"h{i}", rnd) for i in range(300 if q else 8000)]
    raw = sc.run_cases("hostile", cases, binary="vsim2")
    trace = os.path.join(sc.wd, "hostile.proj.ndjson")
    with open(raw) as fi, open(trace, "w") as fo:
        for line in fi:
            fo.write(json.dumps(project_hostile(json.loads(line))) + "\n")
    tconst = dict(Objects="{}", Dests="{}", DownloadValues="{}", MbxSizes="{}", Faults="{}", MaxRequests=100000, **FIXED)
    sc.validate("hostile", trace, "CoETrace", tconst, constraints=("Track", "Judge"),
                key_fn=lambda c: (c["entry"], c["mode"], c["mailbox_size"], c["obs_result"], len(c["mailbox_log"]), c["frames"]),
                sample_fn=lambda c: c["conform"] and len(c["mailbox_log"]) > 3)
    return sc.finish(
        "one case = one SDO / SDO information call answered with scripted mailbox contents; distinct by (entry point, family, "
        "mailbox size, result, messages, frames)",
        ["Conformance (same value-or-error outcome and value as the CoE model's client fed with the logged replies) is judged "
         "for the typed read and the write entry points and replies whose enumerated fields (mailbox type, service, command) are valid; "
         "random byte replies and the array / information entry points are judged by the monitor (orderly end, frame "
         "bound).",
         "'Never reads outside the response' is taken as memory safety of the received mailbox buffer: the model's client reads "
         "only inside the fetched mailbox, and agreement on returned values shows the code reads the same bytes."])


def run(pid, tier):
    q = tier == "quick"
    sc = SimCheck(pid, tier, "coe")
    rnd = random.Random(lib.seed())
    if pid == "C15":
        return run_c15(sc, q, rnd)
    if pid == "C16":
        return run_c16(sc, q, rnd)
    raise lib.ToolError(f"{pid} not implemented in coe engine")


def replay(pid, tier, path):
    """Re-run the check that produced the replay file with its recorded seed and tier (the generators are seeded, so the
    same cases are produced) and judge again."""
    import json as _json
    rp = _json.load(open(path))
    os.environ["VERIF_SEED"] = str(rp.get("seed", 1))
    return run(pid, rp.get("tier", tier))
