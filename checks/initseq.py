"""Engine `init`: C09 (InitSeq.tla / InitSeqMC / InitTrace + vsim init)."""
import json
import os
import random

from . import lib
from .simlib import SimCheck


from .dctopology import rand_tree


def name_for(tag, rnd):
    """The name the device reports: usually short, sometimes exactly as long as ethercrab's name buffer (64) or just below."""
    base = f"DEV{tag}"
    k = rnd.random()
    if k < 0.15:
        return base + "x" * (64 - len(base))
    if k < 0.25:
        return base + "y" * (63 - len(base))
    if k < 0.3:
        return base + "z" * rnd.randint(1, 59)
    return base


def mailbox_sizes(d, rnd):
    if d["kind"] == "coe" and rnd.random() < 0.5:
        d["mbx_recv"] = rnd.choice([16, 32, 64, 96, 128])
        d["mbx_send"] = rnd.choice([16, 32, 64, 96, 128])
    return d


def case_from_model(i, j, rnd):
    net, cfg = j["net"], j["cfg"]
    devs = []
    for k, d in enumerate(net):
        kind = "coupler" if k == 0 and rnd.random() < 0.5 else rnd.choice(["dio", "dio", "coe"])
        devs.append(mailbox_sizes(dict(kind=kind, in_bits=rnd.choice([0, 1, 8, 12]), out_bits=rnd.choice([0, 2, 8, 16]),
                         dc=d["dc"], sii8=rnd.random() < 0.5, named=rnd.random() < 0.7, mailbox=(kind == "coe"),
                         prior_addr=d["prior"], alias=rnd.choice([0, 0, 7, 0x1234, 0xFFFF]), tag=d["tag"],
                         name=name_for(d["tag"], rnd)), rnd))
    c = dict(id=f"m{i}", max_subdevices=cfg["maxSub"], devices=devs, groups=cfg["groups"], filter=cfg["filter"])
    if cfg["filter"] == "error_at":
        c["error_at"] = cfg["errorAt"]
    return c


def random_case(i, rnd):
    maxs = rnd.choice([2, 4, 8, 16])
    n = rnd.choice([0, 1, maxs - 1, maxs, maxs, maxs + 1, maxs + 2, rnd.randint(0, maxs + 2)])
    n = max(0, min(n, 18))
    devs = []
    for k in range(n):
        kind = rnd.choice(["coupler", "dio", "dio", "coe"])
        devs.append(mailbox_sizes(dict(kind=kind, in_bits=rnd.randint(0, 24), out_bits=rnd.randint(0, 24),
                         dc=rnd.choice(["none", "dc32", "dc64", "ref32", "ref64"]), sii8=rnd.random() < 0.5, named=rnd.random() < 0.7,
                         mailbox=(kind == "coe"),
                         prior_addr=rnd.choice([0, 0x1000, 0x1001, 0x1000 + rnd.randint(0, 17), rnd.randint(0, 0xFFFF), 7]),
                         alias=rnd.choice([0, 1, 0x00FF, 0x8000, 0xFFFF, rnd.randint(0, 0xFFFF)]), tag=k + 1,
                         name=name_for(k + 1, rnd)), rnd))
    groups = rnd.choice([1, 2, 3])
    flt = rnd.choice(["single", "roundrobin", "roundrobin", "bytag", "error_at"])
    if flt == "single":
        groups = 1
    c = dict(id=f"r{i}", max_subdevices=maxs, devices=devs, groups=groups, filter=flt)
    if flt == "error_at":
        c["error_at"] = rnd.randint(0, max(n, 1))
    # a tree instead of a line (junctions whose ports 1, 2, 3 are not all in use)
    if n >= 3 and rnd.random() < 0.4:
        parent = rand_tree(rnd, n)
        if len(parent) == n:
            c["parent"] = parent
    return c


def run(pid, tier):
    q = tier == "quick"
    sc = SimCheck(pid, tier, "init")
    rnd = random.Random(lib.seed())
    inv = ["CountExact", "AddressesBasePlusIndex", "Distinct", "IdentityFromOwnEeprom", "ExactlyOneGroup", "AllPreOp",
           "OverCapacityIsError", "EmptyNetworkEmptyGroups", "NoAmbiguousRead", "Emit"]
    consts = dict(MaxSubs={2}, MaxDevs=4, PriorAddrs={0, 4096, 4097, 7}, DcKinds='{"none", "dc64"}',
                  NGroups={1, 2}, Filters='{"single", "roundrobin", "bytag", "error_at"}')
    if not q:
        consts.update(MaxSubs={2, 4}, MaxDevs=5, NGroups={1, 2, 3}, DcKinds='{"none", "dc32", "dc64"}',
                      PriorAddrs={0, 4096, 4097})
    cfg = lib.cfg_text(init="IsInit", next_="IsNext", constants=consts, invariants=inv)
    r = sc.mc("initseq", "InitSeqMC", cfg)
    models = [j for j in r.json if "net" in j and "cfg" in j]
    models.sort(key=lambda j: json.dumps(j, sort_keys=True))
    stride = max(1, len(models) // (3000 if q else 40000))
    picked = models[lib.seed() % stride::stride]
    cases = [case_from_model(i, j, rnd) for i, j in enumerate(picked)]
    cases += [random_case(i, rnd) for i in range(1000 if q else 20000)]
    trace = sc.run_cases("init", cases)
    tconst = dict(MaxSubs="{2}", MaxDevs=0, PriorAddrs="{0}", DcKinds="{}", NGroups="{1}", Filters="{}")
    sc.validate("init", trace, "InitTrace", tconst,
                key_fn=lambda c: (len(c["case"]["devices"]), c["case"]["max_subdevices"], c["case"]["groups"],
                                  c["case"]["filter"], c["result"],
                                  tuple(d["prior_addr"] for d in c["case"]["devices"])),
                sample_fn=lambda c: len(c["case"]["devices"]) >= 3)
    return sc.finish(
        "one case = one real MainDevice::init on a simulated segment built from a TLC-enumerated or seeded network; distinct by "
        "(device count, MAX_SUBDEVICES, groups, filter, result, prior station addresses)",
        ["simdev (the simulated segment) is trusted as far as it follows ETG.1000; it is calibrated byte-exactly against two of the repository's captures.",
         "An 'empty network' is a wire that returns the broadcast frame unprocessed (working counter 0).",
         "SubDevice::index is crate-private; ring positions are inferred from the configured addresses."])


def replay(pid, tier, path):
    """Re-run the check that produced the replay file with its recorded seed and tier (the generators are seeded, so the
    same cases are produced) and judge again."""
    import json as _json
    rp = _json.load(open(path))
    os.environ["VERIF_SEED"] = str(rp.get("seed", 1))
    return run(pid, rp.get("tier", tier))
