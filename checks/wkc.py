"""Engine `wkc`: C11 (Wkc.tla / WkcTrace + vsim wkc)."""
import json
import os
import random

from . import lib
from .simlib import SimCheck

SINGLE = ["receive_u16", "receive_slice", "send_receive_u16", "send_receive_slice", "brd_receive_u16",
          "register_read", "register_write"]
MULTI = ["status", "eeprom_read", "eeprom_read_raw", "sdo_read", "sdo_write", "into_op", "lrw_tx_rx"]


def case(i, entry, mode="default", with_=1, kind="none", k=1, w=0, network=2, len_override="none"):
    return {"id": f"{entry}-{i}", "entry": entry, "wkc_mode": mode, "with": with_,
            "fault": {"kind": kind, "k": k, "w": w}, "network": network, "len_override": len_override}


def run(pid, tier):
    q = tier == "quick"
    sc = SimCheck(pid, tier, "wkc")
    rnd = random.Random(lib.seed())
    consts = dict(MaxSteps=3 if q else 4, Counts={0, 1, 2, 3})
    cfg = lib.cfg_text(init="WkInit", next_="WkNext", constants=consts,
                       invariants=["OkImpliesServiced", "ErrorFieldsExact", "AbsentIsNoticed"])
    sc.mc("wkc", "Wkc", cfg)
    cases = []
    n = 0
    # single-datagram entry points: the full product
    for entry in SINGLE:
        modes = [("default", 1), ("ignore", 1)] + [("with", x) for x in range(4)]
        if entry in ("register_read", "register_write"):
            modes = [("default", 1)]
        for mode, with_ in modes:
            for kind, ws in (("none", [0]), ("force_wkc", [0, 1, 2, 3]), ("skip_device", [0]), ("absent_from", [0])):
                for w in ws:
                    for network in (2, 3):
                        cases.append(case(n, entry, mode, with_, kind, 1, w, network))
                        n += 1
                    # a read whose response fills the frame slot to the last byte (and one just below)
                    if entry == "receive_slice":
                        for ln in (1100, 1099):
                            c_ = case(n, entry, mode, with_, kind, 1, w, 2)
                            c_["slice_len"] = ln
                            cases.append(c_)
                            n += 1
                    # the builder calls of a write commute: an explicit length before or after the counter mode
                    if entry.startswith("send_receive"):
                        for lo in ("before", "after"):
                            cases.append(case(n, entry, mode, with_, kind, 1, w, 2, lo))
                            n += 1
    # multi-step entry points: learn the number of datagrams, then put the fault at every step
    probe = [case(f"probe{j}", e, network=nw) for j, (e, nw) in enumerate((e, nw) for e in MULTI for nw in (2,))]
    ptrace = sc.run_cases("probe", probe)
    lens = {}
    with open(ptrace) as fh:
        for line in fh:
            r = json.loads(line)
            lens[r["case"]["entry"]] = len(r["datagrams"])
    for entry in MULTI:
        total = lens.get(entry, 1)
        ks = list(range(1, total + 1))
        if len(ks) > (12 if q else 80):
            ks = sorted(set(rnd.sample(ks, (10 if q else 70)) + ks[-4:]))
        for k in ks:
            for kind, ws in (("force_wkc", [0, 2] if q else [0, 1, 2, 3]), ("skip_device", [0]), ("absent_from", [0])):
                for w in ws:
                    cases.append(case(n, entry, "default", 1, kind, k, w, 2))
                    n += 1
    trace = sc.run_cases("wkc", cases)
    sc.validate("wkc", trace, "WkcTrace", {}, constraints=(),
                key_fn=lambda c: (c["case"]["entry"], c["case"]["wkc_mode"], c["case"]["with"], c["case"]["fault"]["kind"],
                                  c["case"]["fault"]["k"], c["case"]["fault"]["w"], c["result"]),
                sample_fn=lambda c: c["result"] != "ok" and len(c["datagrams"]) > 1)
    return sc.finish(
        "one case = one real call of a public entry point with one injected fault (forced counter / device skips the datagram / "
        "device absent from datagram k on); distinct by (entry, mode, fault, result)",
        ["WrappedWrite::send and callers that opt out are exempt (property text); a device that merely misses a fire-and-forget write is not judged.",
         "Which datagrams an entry point checks is the table Expected in WkcTrace.tla (read off the code); status polls of group transitions and LRW are validated by content / reported, not checked.",
         "Process-data cycles report the working counter to the caller instead of checking it (C07 covers the reported sum)."])


def replay(pid, tier, path):
    """Re-run the check that produced the replay file with its recorded seed and tier (the generators are seeded, so the
    same cases are produced) and judge again."""
    import json as _json
    rp = _json.load(open(path))
    os.environ["VERIF_SEED"] = str(rp.get("seed", 1))
    return run(pid, rp.get("tier", tier))
