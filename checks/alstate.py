"""Engine `alstate`: C10 (AlState.tla / AlStateTrace / TxRxSummaryTrace + vsim alstate, vsim wkc for the summaries)."""
import itertools
import random

from . import lib
from .simlib import SimCheck

SCRIPT_SET = ('{ [after |-> a, refuse |-> r, stall |-> s, fallAfter |-> f, silent |-> FALSE] : a \\in 0..2, r \\in BOOLEAN, '
              's \\in BOOLEAN, f \\in {0, 1} } \\cup {[after |-> 0, refuse |-> FALSE, stall |-> FALSE, fallAfter |-> 0, silent |-> TRUE]}')


def dev(kind, tag):
    return dict(kind=kind, in_bits=8, out_bits=8, dc="none", sii8=False, named=True, mailbox=False, prior_addr=0,
                alias=0, tag=tag)


def script(after=0, refuse=0, stall=False, fall=0, to=2, silent=False):
    return dict(accept_after_polls=after, refuse_with=refuse, stall=stall, fall_back_after=fall, fall_back_to=to, silent=silent)


def single_stage_cases(prefix, ndev, groups, frame_data, rnd, limit):
    """PRE-OP -> SAFE-OP with every combination of scripts (sampled down to `limit`)."""
    opts = [script(a, r, s, f) for a in (0, 1, 2) for r in (0, 0x1D) for s in (False, True) for f in (0, 1)]
    opts.append(script(silent=True))
    combos = list(itertools.product(range(len(opts)), repeat=ndev))
    rnd.shuffle(combos)
    # half of the sample without a device that refuses or stalls (else nearly every sampled case fails for that reason and
    # the interplay of slow devices, fall-backs and frame boundaries is hardly seen)
    good = [k for k, o in enumerate(opts) if not o["refuse_with"] and not o["stall"]]
    gcombos = list(itertools.product(good, repeat=ndev))
    rnd.shuffle(gcombos)
    picked = gcombos[:limit // 2] + combos[:limit - min(len(gcombos), limit // 2)]
    out = []
    for i, combo in enumerate(picked):
        out.append(dict(id=f"{prefix}{i}", devices=[dev("dio", k + 1) for k in range(ndev)], groups=groups,
                        target="safe_op", scripts=[opts[c] for c in combo], script_state="all", frame_data=frame_data,
                        transition_timeout_ms=100))
    return out


def random_cases(rnd, n):
    out = []
    for i in range(n):
        ndev = rnd.choice([rnd.randint(1, 8), rnd.randint(1, 8), rnd.randint(9, 16)])
        scripts = []
        for _ in range(ndev):
            k = rnd.random()
            if k < 0.6:
                scripts.append(script(rnd.randint(0, 6)))
            elif k < 0.75:
                scripts.append(script(0, rnd.choice([0x11, 0x1D, 0x1E, 0x16])))
            elif k < 0.82:
                scripts.append(script(0, 0, True))
            elif k < 0.87:
                scripts.append(script(silent=True))
            else:
                scripts.append(script(rnd.randint(0, 2), 0, False, rnd.randint(1, 3), rnd.choice([1, 2, 4])))
        out.append(dict(id=f"r{i}", devices=[dev(rnd.choice(["dio", "dio", "coupler"]) if k else "dio", k + 1)
                                             for k in range(ndev)],
                        groups=rnd.choice([1, 1, 2, 3]), target=rnd.choice(["safe_op", "op", "op", "request_op", "pre_op", "init"]),
                        scripts=scripts, script_state=rnd.choice(["all", "all", "safeop", "op"]),
                        frame_data=rnd.choice([1100, 1100, 64, 48, 32, 24]), transition_timeout_ms=rnd.choice([50, 100])))
    return out


def summary_cases(rnd, n):
    out = []
    for i in range(n):
        kind = rnd.choice(["none", "skip_device", "absent_from", "force_wkc"])
        out.append(dict(id=f"s{i}", entry="lrw_tx_rx", wkc_mode="default", **{"with": 1},
                        fault=dict(kind=kind, k=rnd.randint(1, 4), w=rnd.randint(0, 3)), network=rnd.choice([2, 3])))
    return out


def run(pid, tier):
    q = tier == "quick"
    sc = SimCheck(pid, tier, "alstate")
    rnd = random.Random(lib.seed())
    inv = ["OkImpliesAllReportedAtCheck", "BadDeviceMeansError", "ErrWithinTimeout", "Terminates",
           "RequestToAllMembersOnly"]
    # (name, devices, members of the group, status reads per frame = (frame_data + 12) // 14, groups, frame_data)
    shapes = [("a3", 3, "{1, 2, 3}", 79, 1, 1100), ("b4", 4, "{1, 2, 3, 4}", 2, 1, 24), ("c4", 4, "{1, 3}", 79, 2, 1100),
              ("d4", 4, "{1, 2, 3, 4}", 3, 1, 32)]
    for name, ndev, members, per_frame, groups, frame_data in shapes:
        mod = f"---- MODULE AlStateMC_{name} ----\nEXTENDS AlState\nMCScripts == {SCRIPT_SET}\n====\n"
        consts = dict(NDev=ndev, Members=members, PerFrame=per_frame, MaxRounds=6, From=2, Target=4, PerDeviceCheck=True)
        cfg = lib.cfg_text(init="AsInit", next_="AsNext", constants=consts, invariants=inv).replace(
            "CONSTANTS\n", "CONSTANTS\n  Scripts <- MCScripts\n")
        if ndev == 4 and q:
            # 24^4 script vectors: sample the space in quick mode by restricting two devices
            mod = mod.replace("====", 'MCInit == AsInit /\\ script[3].after = 0 /\\ script[4].fallAfter = 0\n====')
            cfg = cfg.replace("INIT AsInit", "INIT MCInit")
        sc.mc(name, f"AlStateMC_{name}", cfg, extra_module=(f"AlStateMC_{name}", mod))
        cases = single_stage_cases(name, ndev, groups, frame_data, rnd, 600 if q else 8000)
        trace = sc.run_cases(name, cases)
        tconst = dict(NDev=ndev, Members=members, PerFrame=per_frame, MaxRounds=12, From=2, Target=4, Scripts="{}", PerDeviceCheck=True)
        sc.validate(name, trace, "AlStateTrace", tconst,
                    key_fn=lambda c: (c["case"]["target"], tuple((s["accept_after_polls"], s["refuse_with"], s["stall"],
                                      s["fall_back_after"], s.get("silent", False)) for s in c["case"]["scripts"]), c["result"]),
                    sample_fn=lambda c: c["result"] != "ok")
    # vacuity guard: comparing the OR of a frame's answers instead of every answer must let a silent device through
    ctl_mod = ("---- MODULE AlStateMC_control ----\nEXTENDS AlState\nMCScripts == "
               "{[after |-> a, refuse |-> FALSE, stall |-> FALSE, fallAfter |-> 0, silent |-> FALSE] : a \\in 0..1} \\cup "
               "{[after |-> 0, refuse |-> FALSE, stall |-> FALSE, fallAfter |-> 0, silent |-> TRUE]}\n====\n")
    ctl_cfg = lib.cfg_text(init="AsInit", next_="AsNext", constants=dict(NDev=3, Members="{1, 2, 3}", PerFrame=79, MaxRounds=6,
                                                                       From=2, Target=4, PerDeviceCheck=False),
                           invariants=["BadDeviceMeansError"]).replace("CONSTANTS\n", "CONSTANTS\n  Scripts <- MCScripts\n")
    import os as _os
    dctl = _os.path.join(sc.wd, "mc-control")
    _os.makedirs(dctl, exist_ok=True)
    with open(_os.path.join(dctl, "AlStateMC_control.tla"), "w") as fh:
        fh.write(ctl_mod)
    rc = lib.tlc(dctl, "AlStateMC_control", ctl_cfg, workers=4, timeout=600, heap="4g")
    if "BadDeviceMeansError" not in (rc.violated or []):
        raise lib.ToolError(f"control: AlState.tla with PerDeviceCheck=FALSE does not let a silent device through ({rc.violated}, {rc.error})")
    lib.log("control: PerDeviceCheck=FALSE lets a silent device through in the model, as it must")
    cases = random_cases(rnd, 400 if q else 20000)
    trace = sc.run_cases("random", cases)
    sc.validate("random", trace, "AlStateTrace", dict(NDev=1, Members="{1}", PerFrame=1, MaxRounds=1, From=2, Target=4,
                                                      Scripts="{}", PerDeviceCheck=True),
                key_fn=lambda c: (c["case"]["target"], len(c["case"]["devices"]), c["case"]["groups"],
                                  c["case"]["frame_data"], c["result"], tuple(c.get("al_after", []))))
    # the summaries clause, with devices that do not answer
    cases = summary_cases(rnd, 150 if q else 3000)
    trace = sc.run_cases("summary", cases, engine="wkc")
    sc.validate("summary", trace, "TxRxSummaryTrace", {}, constraints=(),
                key_fn=lambda c: (c["case"]["fault"]["kind"], c["case"]["fault"]["k"], tuple(c.get("states", [])),
                                  c.get("all_op")))
    return sc.finish(
        "one case = one real group transition (or process-data cycle) on a simulated segment with scripted devices; distinct by "
        "(target, scripts, result) / (fault, reported states)",
        ["The non-waiting request_into_op is documented not to check; only 'request written to all members' is required of it.",
         "With fall-back scripts only the round that succeeded is judged (the property says 'at the moment it was checked'); "
         "the observable used is the devices' state after the call, so fall-back cases are judged by conformance with the model only.",
         "Error latency is judged against 3x the configured transition timeout (each transition of a chain has its own timeout).",
         "simdev's AL machine is the trusted device model (ETG.1000.6 state machine with error indication)."])


def replay(pid, tier, path):
    """Re-run the check that produced the replay file with its recorded seed and tier (the generators are seeded, so the
    same cases are produced) and judge again."""
    import json as _json
    rp = _json.load(open(path))
    os.environ["VERIF_SEED"] = str(rp.get("seed", 1))
    return run(pid, rp.get("tier", tier))
