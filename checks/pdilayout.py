"""Engine `pdi` for C08 (PdiLayout.tla / PdiLayoutMC / PdiLayoutTrace + vsim2 pdi)."""
import json
import os
import random

from . import lib
from .simlib import SimCheck

FIXED = dict(PerSmFmmu=True)


def rand_pdos(rnd, sms, n, big):
    out = []
    for _ in range(n):
        ne = rnd.choice([1, 1, 2, 3, rnd.randint(1, 8)])
        bits = [rnd.choice([1, 1, 2, 4, 8, 8, 16, 32, 64, rnd.randint(1, 64)]) for _ in range(ne)]
        if not big:
            bits = [min(b, 16) for b in bits[:3]]
        out.append(dict(sm=rnd.choice(sms), entries=bits))
    return out


def rand_device(rnd, tag, big):
    kind = rnd.choice(["dio", "dio", "coe", "coe", "coupler"])
    if kind == "coupler":
        return dict(kind="coupler", tag=tag)
    d = dict(kind=kind, tag=tag)
    multi = rnd.random() < 0.4
    if kind == "coe":
        pool = list(range(2, 8))
        rnd.shuffle(pool)
        n_out = rnd.choice([1, 2, 3]) if multi else 1
        n_in = rnd.choice([1, 2, 3]) if multi else 1
        chosen = sorted(pool[:n_out + n_in])
        # outputs and inputs interleave freely over the sync manager indices
        rnd.shuffle(chosen)
        out_sms, in_sms = sorted(chosen[:n_out]), sorted(chosen[n_out:])
        if multi and rnd.random() < 0.35:
            # fewer FMMUs than sync managers: the ones that must share lie back to back (same direction on adjacent
            # indices, packed areas)
            out_sms = list(range(2, 2 + n_out))
            in_sms = list(range(2 + n_out, 2 + n_out + n_in))
            d["fmmus"] = "%d,%d" % (rnd.randint(1, n_out), rnd.randint(1, n_in))
            d["sm_spacing"] = "packed"
        elif multi:
            d["fmmus"] = "per_sm"
            d["sm_spacing"] = rnd.choice(["spaced", "packed"])
        else:
            d["fmmus"] = rnd.choice(["single", "per_sm"])
    else:
        pool = list(range(0, 8))
        rnd.shuffle(pool)
        n_out = rnd.choice([1, 2, 3]) if multi else 1
        n_in = rnd.choice([1, 2, 3]) if multi else 1
        chosen = pool[:n_out + n_in]
        out_sms, in_sms = sorted(chosen[:n_out]), sorted(chosen[n_out:])
        d["fmmu_ex"] = rnd.random() < 0.5
        d["sm_spacing"] = rnd.choice(["spaced", "packed"])
    d["rx_pdos"] = rand_pdos(rnd, out_sms, rnd.choice([0, 1, 1, 2, rnd.randint(0, 8)]), big)
    d["tx_pdos"] = rand_pdos(rnd, in_sms, rnd.choice([0, 1, 1, 2, rnd.randint(0, 8)]), big)
    if rnd.random() < 0.25:
        ov = []
        for key, name in (("rx_pdos", "rx"), ("tx_pdos", "tx")):
            for i in range(len(d[key])):
                if rnd.random() < 0.5:
                    ov.append([f"{name}{i}", rnd.choice([2, 3, 4, 10])])
        if ov:
            d["oversampling"] = ov
    if rnd.random() < 0.3:
        d["sii8"] = True
    return d


def dev_bytes(d):
    def total(pdos, name):
        by_sm = {}
        ov = {o[0]: o[1] for o in d.get("oversampling", [])}
        for i, p in enumerate(pdos):
            by_sm[p["sm"]] = by_sm.get(p["sm"], 0) + sum(p["entries"]) * ov.get(f"{name}{i}", 1)
        return sum((b + 7) // 8 for b in by_sm.values())
    return total(d.get("rx_pdos", []), "rx") + total(d.get("tx_pdos", []), "tx")


def make_case(cid, rnd, q):
    ndev = rnd.choice([1, 2, 3, 4, rnd.randint(1, 8), rnd.randint(1, 16)])
    groups = rnd.choice([1, 1, 2, 3])
    big = rnd.random() < 0.3
    devs = [rand_device(rnd, k + 1, big) for k in range(ndev)]
    per_group = [sum(dev_bytes(d) for i, d in enumerate(devs) if i % groups == g) for g in range(groups)]
    need = max(per_group + [1])
    fits = [m for m in (16, 64, 256, 1024) if m >= need]
    # mostly a capacity that fits, sometimes exactly too small
    if fits and groups > 1 and rnd.random() < 0.12:
        max_pdi = 16384         # a large declared capacity: the next group starts that much further on
    elif fits and rnd.random() < 0.85:
        max_pdi = rnd.choice(fits[:2])
    else:
        smaller = [m for m in (16, 64, 256, 1024) if m < need]
        max_pdi = smaller[-1] if smaller else 16
    return dict(id=cid, devices=devs, groups=groups, max_pdi=max_pdi, frame_data=rnd.choice([1100, 1100, 256, 128]),
                variant="plain", target=rnd.choice(["op", "op", "safe_op"]), cycles=1)


def eff_usage(sm):
    if sm["usage"]:
        return sm["usage"]
    mode, dr = sm["control"] & 3, (sm["control"] >> 2) & 3
    return (4 if dr == 0 else 3) if mode == 0 else (2 if dr == 0 else 1)


def project(c):
    """What PdiLayoutTrace needs: model devices from the descriptions, observed registers, views and memories."""
    case = c["case"]
    out = dict(case=dict(id=case["id"]), result=c.get("result", "none"), stage=c.get("stage", ""), groups=case["groups"],
               max_pdi=case["max_pdi"], modelled=False, devs=[], gstart=[0], obs_groups=[], obs_fmmu=[], obs_sm=[])
    if "groups" not in c or "devices" not in c or c.get("init_result") != "ok":
        return out
    devs = []
    for d in c["devices"]:
        need = {s["sm"]: s for s in d["in_sms"] + d["out_sms"]}
        ins, outs = [], []
        for k, sm in enumerate(d["desc_sms"]):
            u = eff_usage(sm)
            if u not in (3, 4):
                continue
            n = need.get(k)
            rec = dict(sm=k, start=n["start"] if n else sm["start"], len=n["len"] if n else 0)
            (ins if u == 4 else outs).append(rec)
        devs.append(dict(coe=bool(d["coe"]), ins=ins, outs=outs, usage=[0 if u == 255 else u for u in d["fmmu_usage"]],
                         fmmuEx=d["fmmu_ex"]))
        out["obs_fmmu"].append([dict(enable=bool(f["enable"]), logical=f["logical"][0] + 65536 * f["logical"][1], len=f["len"],
                                     phys=f["phys"], type={1: 2, 2: 1}.get(f["type"], f["type"] + 10 if f["type"] else 0))
                                for f in d["fmmu"]])
        out["obs_sm"].append([dict(start=s["start"], len=s["len"], enable=bool(s["enable"])) for s in d["sm"]])
    gstart, ogs = [], []
    for g in c["groups"]:
        members = [m + 1 for m in g["members"]]
        cyc = (g.get("cycles") or [None])[0]
        starts = [f["logical"] for m in members for f in out["obs_fmmu"][m - 1] if f["enable"]]
        if "pdi_start" in g:
            start = g["pdi_start"][0] + 65536 * g["pdi_start"][1]
            if g.get("pdi_start_src") != "lrw" and starts:
                start = min(starts)
        else:
            start = min(starts) if starts else 0
        gstart.append(start)
        og = dict(members=members, result=g.get("result", "none"), start=start, pdi_len=g.get("pdi_len", 0), subs=[])
        if cyc and g.get("result") == "ok":
            memd = {d["index"]: d for d in cyc["devices"]}
            for n, sdev in enumerate(cyc["subdevices"]):
                md = memd[g["members"][n]]
                og["subs"].append(dict(in_len=sdev["in_len"], out_len=sdev["out_len"], inputs_after=sdev["inputs_after"],
                                       outputs_after=sdev["outputs_after"], outputs_written=sdev["outputs_before"],
                                       in_mem=[m["bytes"] for m in md["in_mem"]],
                                       out_mem=[m["bytes"] for m in md["out_mem_after"]]))
        elif g.get("result") == "ok":
            og["result"] = "none"
        ogs.append(og)
    out.update(modelled=True, devs=devs, gstart=gstart, obs_groups=ogs)
    return out


def run(pid, tier):
    q = tier == "quick"
    sc = SimCheck(pid, tier, "pdi")
    rnd = random.Random(lib.seed())
    inv = ["LengthsRight", "WindowsRight", "MapExact", "SmRight", "GroupsDisjoint", "TooLongIsError"]
    for name, consts in (("two-devices", dict(MaxDevs=2, MaxGroups=2, Caps={3, 8}, Lens={0, 1, 2})),
                         ("three-groups", dict(MaxDevs=3, MaxGroups=3, Caps={2}, Lens={0, 1}))):
        if q and name == "three-groups":
            continue
        consts = dict(consts, PerSmFmmu=FIXED["PerSmFmmu"])
        cfg = lib.cfg_text(spec="McSpec", constants=consts, invariants=inv)
        sc.mc(f"pdilayout-{name}", "PdiLayoutMC", cfg, workers=8, timeout=2400)
    cases = [make_case(f"l{i}", rnd, q) for i in range(250 if q else 5000)]
    raw = sc.run_cases("layout", cases, binary="vsim2")
    trace = os.path.join(sc.wd, "layout.proj.ndjson")
    with open(raw) as fi, open(trace, "w") as fo:
        for line in fi:
            fo.write(json.dumps(project(json.loads(line))) + "\n")
    sc.validate("layout", trace, "PdiLayoutTrace", dict(PerSmFmmu=FIXED["PerSmFmmu"]), constraints=("Judge",),
                key_fn=lambda c: (c["groups"], c["max_pdi"], len(c["devs"]), c["result"],
                                  tuple((d["coe"], tuple((s["sm"], s["len"]) for s in d["ins"]),
                                         tuple((s["sm"], s["len"]) for s in d["outs"])) for d in c["devs"])),
                sample_fn=lambda c: c["modelled"] and len(c["devs"]) == 2)
    return sc.finish(
        "one case = one simulated network configured and cycled once by the real MainDevice; distinct by (groups, capacity, "
        "devices' sync manager sets and lengths, result)",
        ["Window positions are not visible through the API: they are taken from the FMMU registers and confirmed by the data "
         "that flows (distinct random outputs per SubDevice, device memory read back).",
         "A CoE device with several non-adjacent sync managers per direction is described with one FMMU per sync manager "
         "(a single FMMU cannot serve it); the simulated ESC has 8 FMMUs and 8 sync managers.",
         "The EEPROM path programs FMMU[sync manager index] regardless of FMMU_EX (modelled as such): on the simulated "
         "8-FMMU ESC this maps correctly."])


def replay(pid, tier, path):
    """Re-run the check that produced the replay file with its recorded seed and tier (the generators are seeded, so the
    same cases are produced) and judge again."""
    import json as _json
    rp = _json.load(open(path))
    os.environ["VERIF_SEED"] = str(rp.get("seed", 1))
    return run(pid, rp.get("tier", tier))
