"""Engine `pdi` for C07 (PdiCycle.tla / PdiCycleMC / PdiCycleTrace + vsim2 pdi)."""
import json
import os
import random

from . import lib
from .simlib import SimCheck

DATA_TABLE = [16, 17, 18, 20, 22, 24, 26, 28, 30, 31, 32, 33, 34, 36, 40, 44, 48, 50, 52, 56, 60, 64, 96, 128, 256,
              512, 1100, 1514]


def split(total, parts, rnd):
    """total = sum of `parts` non-negative numbers (seeded composition)."""
    if parts == 0:
        return []
    cuts = sorted(rnd.randint(0, total) for _ in range(parts - 1))
    out, prev = [], 0
    for c in cuts + [total]:
        out.append(c - prev)
        prev = c
    return out


def limbs(v, n=2):
    return [(v >> (16 * i)) & 0xFFFF for i in range(n)]


def make_case(cid, cap, image, in_len, ndev, variant, rnd):
    ins = split(in_len, ndev, rnd)
    outs = split(image - in_len, ndev, rnd)
    clock = variant != "plain"
    # tx_rx_sync_system_time must also work on a network without any DC-capable device
    if variant == "sync" and rnd.random() < 0.25:
        clock = False
    devs = []
    for k in range(ndev):
        devs.append(dict(kind="dio", in_bits=8 * ins[k], out_bits=8 * outs[k], tag=k + 1,
                         dc=("dc64" if clock and (k == 0 or rnd.random() < 0.5) else "none")))
    max_pdi = next(m for m in (16, 64, 256, 1024) if m >= max(image, 1))
    c = dict(id=cid, devices=devs, groups=1, max_pdi=max_pdi, frame_data=cap - 12, variant=variant,
             target=rnd.choice(["op", "op", "safe_op"]), cycles=1)
    if variant == "dc":
        c.update(sync0_period_ns=limbs(rnd.choice([1_000_000, 250_000, 62_500])), sync0_shift_ns=limbs(rnd.randint(0, 50_000)),
                 start_delay_ns=limbs(rnd.choice([0, 10_000_000])), ref_time=limbs(rnd.randint(0, 2 ** 40), 4),
                 dc_sync=["sync0" if d["dc"] != "none" and rnd.random() < 0.7 else "disabled" for d in devs])
    return c


def run(pid, tier):
    q = tier == "quick"
    sc = SimCheck(pid, tier, "pdi")
    sc.not_mine = ('"dc_config"',)
    rnd = random.Random(lib.seed())
    inv = ["Tiling", "FitsFrame", "OneStatePerSubDeviceInOrder", "ExactlyOneClockDatagramFirst", "NoClockDatagramInPlain",
           "FramesWithinNeed", "Terminates", "NoEmptyFrame", "Emit"]
    caps = {14, 15, 16, 26, 27, 28, 29, 30, 32, 34, 35, 36, 40, 42, 43, 48}
    consts = dict(Caps=caps | {100}, MaxImage=16 if q else 24, MaxDevs=4, Variants='{"plain", "sync", "dc"}')
    cfg = lib.cfg_text(init="PcInit", next_="PcNext", constants=consts, invariants=inv)
    r = sc.mc("pdicycle", "PdiCycleMC", cfg)
    models = [j for j in r.json if "cap" in j and "image" in j]
    # the implementation needs frames that also carry initialisation traffic (16 data bytes) and at least one device
    runnable = [j for j in models if (j["cap"] - 12) in DATA_TABLE and j["ndev"] >= 1]
    runnable.sort(key=lambda j: json.dumps(j, sort_keys=True))
    want = 1500 if q else 30000
    stride = max(1, len(runnable) // want)
    picked = runnable[lib.seed() % stride::stride]
    cases = [make_case(f"m{i}", j["cap"], j["image"], j["inLen"], j["ndev"], j["variant"], rnd)
             for i, j in enumerate(picked)]
    # seeded larger configurations: big images, many devices, all frame sizes
    for i in range(150 if q else 6000):
        d = rnd.choice(DATA_TABLE)
        ndev = rnd.randint(1, 12)
        image = min(1000, rnd.choice([0, 1, d, d + 1, 2 * d, rnd.randint(0, 200), rnd.randint(0, 900)]))
        variant = rnd.choice(["plain", "plain", "sync", "dc"])
        if variant != "plain" and d + 12 < 34:
            variant = "plain"
        cases.append(make_case(f"r{i}", d + 12, image, rnd.randint(0, image), ndev, variant, rnd))
        if rnd.random() < 0.15:
            # a network that answers every process data datagram with inverted bytes: the inputs are what came back,
            # the outputs stay what the application wrote
            cases[-1]["hostile_lrw"] = True
        if rnd.random() < 0.2:
            # one or two devices do not answer their status check in this cycle: their entries read None, nobody's entry
            # moves (a device that holds no process data does not make the cycle fail)
            cases[-1]["silent_status"] = sorted(rnd.sample(range(ndev), min(ndev, rnd.choice([1, 1, 2]))))
    trace = sc.run_cases("pdi", cases, binary="vsim2")
    tconst = dict(Caps="{}", MaxImage=0, MaxDevs=0, Variants="{}")

    def key(c):
        g = (c.get("groups") or [{}])[0]
        cyc = (g.get("cycles") or [{}])[0]
        shape = tuple(tuple((d["cmd"], d["len"]) for d in f) for f in cyc.get("frames", []))
        return (c["case"]["frame_data"], c["case"]["variant"], g.get("pdi_len"), g.get("read_len"),
                len(c["case"]["devices"]), c["result"], shape)
    viols, divs = sc.validate("pdi", trace, "PdiCycleTrace", tconst, key_fn=key,
                              sample_fn=lambda c: c["result"] == "ok" and len((c["groups"][0].get("cycles") or [{}])[0].get("frames", [])) >= 2)
    return sc.finish(
        "one case = one network brought to SAFE-OP/OP on the simulated segment and one real process-data cycle; distinct by "
        "(frame size, variant, image length, input length, devices, result, frame/datagram shape)",
        ["The implementation runs use frame sizes that can also carry the initialisation traffic (>= 16 data bytes, i.e. datagram area >= 28); "
         "the smaller capacities of the property's quantifier (down to 14 / 34) are covered by the TLC run of PdiCycle only.",
         "Group image geometry (start, length, input length) is derived from the LRW datagrams and the API windows because the group's own fields are private.",
         "Failures of configure_dc_sync are C18's business and are not judged here (stage dc_config)."])


def replay(pid, tier, path):
    """Re-run the check that produced the replay file with its recorded seed and tier (the generators are seeded, so the
    same cases are produced) and judge again."""
    import json as _json
    rp = _json.load(open(path))
    os.environ["VERIF_SEED"] = str(rp.get("seed", 1))
    return run(pid, rp.get("tier", tier))
