"""Engine `wirelayout`: C19 (WireLayout.tla / WireLayoutMC / WireLayoutTrace + generated crate wiregen)."""
import json
import os
import random
import subprocess
import time

from . import lib

STUB_INCRATE = "pub fn run(_rng: &mut crate::Rng, _out: &mut Vec<String>) {}\n"
STUB = "pub fn cases() -> Vec<Box<dyn crate::Case>> {\n    Vec::new()\n}\n"

INT_TY = {16: ("u16", "i16"), 32: ("u32", "i32"), 64: ("u64", "i64")}


def rust_discriminants(vs):
    """Rust's rule: implicit = previous + 1, first = 0."""
    out = []
    prev = -1
    for v in vs:
        d = v["d"] if v["d"] != -1 else prev + 1
        out.append(d)
        prev = d
    return out


def make_enum(rnd, w):
    """A random enum definition whose discriminants (by Rust's rule) fit w bits."""
    cap = (1 << w) if w <= 8 else 65536
    for _ in range(100):
        n = rnd.randint(1, min(4, cap))
        vs = []
        used = set()
        ok = True
        prev = -1
        for i in range(n):
            implicit = rnd.random() < 0.5
            if implicit:
                d = prev + 1
                ent = dict(d=-1, alts=[])
            else:
                d = rnd.randrange(cap)
                ent = dict(d=d, alts=[])
            if d >= cap or d in used:
                ok = False
                break
            used.add(d)
            prev = d
            vs.append(ent)
        if not ok:
            continue
        # alternatives on some variant
        if rnd.random() < 0.3:
            free = [x for x in range(min(cap, 64)) if x not in used]
            if free:
                k = rnd.randrange(n)
                alts = rnd.sample(free, min(len(free), rnd.randint(1, 2)))
                vs[k]["alts"] = alts
                used.update(alts)
                # an implicit variant right after alternatives is where the macro and Rust may disagree;
                # keep the definition well-formed under Rust's rule
                disc = rust_discriminants(vs)
                if len(set(disc) | set(a for v in vs for a in v["alts"])) != len(disc) + sum(len(v["alts"]) for v in vs):
                    continue
        mode = rnd.choice(["none", "none", "catch", "default", "both"])
        if mode in ("catch", "both"):
            # Rust gives the data-carrying catch-all variant the next implicit discriminant: it must be free
            nxt = rust_discriminants(vs)[-1] + 1
            if nxt in set(rust_discriminants(vs)) or nxt > (255 if w <= 8 else 65535):
                continue
        return dict(vs=vs, catchAll=(mode in ("catch", "both")), dflt=(rnd.randint(1, n) if mode in ("default", "both") else 0))
    return dict(vs=[dict(d=0, alts=[])], catchAll=False, dflt=0)


NOENUM = dict(vs=[], catchAll=False, dflt=0)


def gen_inner(name, inner, rnd):
    """Rust source of a plain struct (no enums) used as a nested field: definition, generator, field values."""
    src = [f"#[derive(Debug, Clone, PartialEq, ethercrab_wire::EtherCrabWireReadWrite)]\n#[wire(bits = {sum(f['pre'] + f['w'] + f['post'] for f in inner)})]\npub struct {name} {{"]
    gens, vals = [], []
    for i, f in enumerate(inner):
        w, pre, post, kind = f["w"], f["pre"], f["post"], f["kind"]
        attr = ([f"pre_skip = {pre}"] if pre else []) + [f"bits = {w}"] + ([f"post_skip = {post}"] if post else [])
        fn = f"g{i}"
        if kind == "bits":
            ty = "u8"
            gens.append(f"        {fn}: if canon {{ (rng.next_u64() >> 20) as u8 & {(1 << w) - 1} }} else {{ (rng.next_u64() >> 20) as u8 }},")
            vals.append(f"bv(vec![v.{fn}])")
        elif kind == "bool":
            ty = "bool"
            gens.append(f"        {fn}: rng.below(2) == 1,")
            vals.append(f"bv(vec![v.{fn} as u8])")
        elif kind == "int":
            ty = INT_TY[w][rnd.randrange(2)]
            gens.append(f"        {fn}: match rng.below(4) {{ 0 => 0, 1 => {ty}::MAX, 2 => {ty}::MIN, _ => rng.next_u64() as {ty} }},")
            vals.append(f"bv(v.{fn}.to_le_bytes().to_vec())")
        else:
            n = w // 8
            ty = f"[u8; {n}]"
            gens.append(f"        {fn}: {{ let b = rng.bytes({n}); let mut a = [0u8; {n}]; a.copy_from_slice(&b); a }},")
            vals.append(f"bv(v.{fn}.to_vec())")
        src.append(f"    #[wire({', '.join(attr)})]\n    pub {fn}: {ty},")
    src.append("}")
    low = name.lower()
    src.append(f"fn gen_{low}(rng: &mut Rng, canon: bool) -> {name} {{\n    {name} {{\n" + "\n".join(gens) + "\n    }\n}")
    src.append(f"fn vals_{low}(v: &{name}) -> Value {{\n    Value::Array(vec![{', '.join(vals)}])\n}}")
    return "\n".join(src)


def gen_struct(k, layout, rnd):
    """Rust source for struct S{k} with its enums and its driver."""
    src = []
    L = layout
    total = 0
    fields = []
    enums = []
    E = []
    for i, f in enumerate(L):
        w, pre, post, kind = f["w"], f["pre"], f["post"], f["kind"]
        total += pre + w + post
        attr = []
        if pre:
            attr.append(f"pre_skip = {pre}")
        attr.append(f"bits = {w}")
        if post:
            attr.append(f"post_skip = {post}")
        if kind == "bits":
            ty = "u8"
        elif kind == "bool":
            ty = "bool"
        elif kind == "int":
            ty = INT_TY[w][rnd.randrange(2)]
        elif kind == "arr":
            ty = f"[u8; {w // 8}]"
        elif kind == "enum":
            ty = f"E{k}_{i}"
        elif kind == "nested":
            ty = f"N{k}_{i}"
            src.append(gen_inner(ty, f["inner"], rnd))
        else:
            raise ValueError(kind)
        if kind == "enum":
            d = make_enum(rnd, w)
            E.append(d)
            enums.append((ty, w, d))
        else:
            E.append(NOENUM)
        fields.append((f"f{i}", ty, kind, w, ", ".join(attr)))
    for ty, w, d in enums:
        repr_ = "u8" if w <= 8 else "u16"
        derives = "Debug, Clone, Copy, PartialEq, ethercrab_wire::EtherCrabWireReadWrite"
        if d["dflt"]:
            derives = "Default, " + derives
        src.append(f"#[derive({derives})]\n#[repr({repr_})]\npub enum {ty} {{")
        for vi, v in enumerate(d["vs"]):
            at = []
            if d["dflt"] == vi + 1:
                src.append("    #[default]")
            if v["alts"]:
                src.append(f"    #[wire(alternatives = [{', '.join(str(a) for a in v['alts'])}])]")
            src.append(f"    V{vi}" + (f" = {v['d']}," if v["d"] != -1 else ","))
        if d["catchAll"]:
            src.append(f"    #[wire(catch_all)]\n    Other({repr_}),")
        src.append("}")
        # tag(), from_choice()
        arms = [f"            {ty}::V{vi} => tagv(\"variant\", {vi + 1})," for vi in range(len(d["vs"]))]
        if d["catchAll"]:
            arms.append(f"            {ty}::Other(x) => tagv(\"catchall\", *x as u64),")
        src.append(f"impl {ty} {{\n    pub fn tag(&self) -> Value {{\n        match self {{\n" + "\n".join(arms) +
                   "\n        }\n    }")
        disc = rust_discriminants(d["vs"])
        taken = set(disc) | set(a for v in d["vs"] for a in v["alts"])
        cap = (1 << w) if w <= 8 else 65536
        free = [x for x in range(cap) if x not in taken][:8]
        pick = [f"            {vi} => {ty}::V{vi}," for vi in range(len(d["vs"]))]
        nch = len(d["vs"])
        if d["catchAll"] and free:
            pick.append(f"            _ => {ty}::Other([{', '.join(str(x) for x in free)}][rng.below({len(free)}) as usize]),")
            nch += 1
        else:
            pick[-1] = f"            _ => {ty}::V{len(d['vs']) - 1},"
        wide = ""
        if d["catchAll"] and w < 8:
            # not canonical: a catch-all value with bits above the field's width (the encoder keeps them out of the image)
            wide = (f"        if !canon && rng.below(3) == 0 {{\n            return {ty}::Other(((rng.next_u64() >> 9) as u8) | {1 << w});\n        }}\n")
        src.append(f"    pub fn choose(rng: &mut Rng, canon: bool) -> Self {{\n{wide}        match rng.below({nch}) {{\n" + "\n".join(pick) +
                   "\n        }\n    }\n}")
    # struct
    src.append(f"#[derive(Debug, Clone, PartialEq, ethercrab_wire::EtherCrabWireReadWrite)]\n#[wire(bits = {total})]\npub struct S{k} {{")
    for name, ty, kind, w, attr in fields:
        src.append(f"    #[wire({attr})]\n    pub {name}: {ty},")
    src.append("}")
    meta = json.dumps(dict(L=L, E=E))
    gen_fields = []
    val_fields = []
    for name, ty, kind, w, attr in fields:
        if kind == "bits":
            mask = (1 << w) - 1
            gen_fields.append(f"            {name}: if canon {{ (rng.next_u64() >> 20) as u8 & {mask} }} else {{ (rng.next_u64() >> 20) as u8 }},")
            val_fields.append(f"bv(vec![v.{name}])")
        elif kind == "bool":
            gen_fields.append(f"            {name}: rng.below(2) == 1,")
            val_fields.append(f"bv(vec![v.{name} as u8])")
        elif kind == "int":
            gen_fields.append(f"            {name}: match rng.below(4) {{ 0 => 0, 1 => {ty}::MAX, 2 => {ty}::MIN, _ => rng.next_u64() as {ty} }},")
            val_fields.append(f"bv(v.{name}.to_le_bytes().to_vec())")
        elif kind == "arr":
            n = w // 8
            gen_fields.append(f"            {name}: {{ let b = rng.bytes({n}); let mut a = [0u8; {n}]; a.copy_from_slice(&b); a }},")
            val_fields.append(f"bv(v.{name}.to_vec())")
        elif kind == "enum":
            gen_fields.append(f"            {name}: {ty}::choose(rng, canon),")
            val_fields.append(f"v.{name}.tag()")
        elif kind == "nested":
            gen_fields.append(f"            {name}: gen_{ty.lower()}(rng, canon),")
            val_fields.append(f"vals_{ty.lower()}(&v.{name})")
    body = f"""
fn vals_s{k}(v: &S{k}) -> Value {{
    Value::Array(vec![{", ".join(val_fields)}])
}}
pub struct C{k};
impl Case for C{k} {{
    fn name(&self) -> &'static str {{ "S{k}" }}
    fn meta(&self) -> &'static str {{ r#"{meta}"# }}
    fn plen(&self) -> usize {{ <S{k} as ethercrab_wire::EtherCrabWireSized>::PACKED_LEN }}
    fn blen(&self) -> usize {{ <S{k} as ethercrab_wire::EtherCrabWireSized>::buffer().as_ref().len() }}
    fn sample(&self, rng: &mut Rng, canon: bool) -> Sample {{
        let v = S{k} {{
{chr(10).join(gen_fields)}
        }};
        let plen = self.plen();
        let packed = guarded(|| ethercrab_wire::EtherCrabWireWriteSized::pack(&v).as_ref().to_vec());
        let short = guarded(|| {{ let mut b = vec![0xA5u8; plen.saturating_sub(1)]; ethercrab_wire::EtherCrabWireWrite::pack_to_slice(&v, &mut b).map(|s| s.len()).map_err(|_| ()) }});
        let extra = 1 + rng.below(5) as usize;
        let long = guarded(|| {{ let mut b = vec![0xA5u8; plen + extra]; let n = ethercrab_wire::EtherCrabWireWrite::pack_to_slice(&v, &mut b).map(|s| s.len()).map_err(|_| ()); (n, b) }});
        let rt = match &packed {{
            Ok(p) => matches!(guarded(|| <S{k} as ethercrab_wire::EtherCrabWireRead>::unpack_from_slice(p)), Ok(Ok(b)) if b == v),
            Err(_) => false,
        }};
        Sample {{ vals: vals_s{k}(&v), packed, short, long, rt }}
    }}
    fn unpack(&self, buf: &[u8]) -> Result<Result<Value, ()>, String> {{
        guarded(|| <S{k} as ethercrab_wire::EtherCrabWireRead>::unpack_from_slice(buf).map(|v| vals_s{k}(&v)).map_err(|_| ()))
    }}
}}
"""
    src.append(body)
    return "\n".join(src)


def parse_enum(path, name):
    """Variants of a fieldless `#[repr(uN)]` enum with explicit discriminants and an optional catch-all, from its source."""
    src = open(path).read()
    body = src[src.index(f"pub enum {name}"):]
    body = body[:body.index("\n}")]
    import re as _re
    vs = [(m.group(1), int(m.group(2), 0)) for m in _re.finditer(r"^\s*([A-Z]\w*)\s*=\s*(0x[0-9a-fA-F]+|\d+)\s*,", body, _re.M)]
    ca = _re.search(r"#\[wire\(catch_all\)\]\s*([A-Z]\w*)\((u8|u16)\)", body)
    return vs, (ca.group(1) if ca else None), (ca.group(2) if ca else ("u16" if "repr(u16)" in src[:src.index(f"pub enum {name}")][-200:] else "u8"))


def generate_incrate(repo):
    """The crate's own wire types that an application can name: two enums (from their declarations) and the identity."""
    out = ["// generated by checks/wirelayout.py - do not edit\n#![allow(clippy::all)]\nuse crate::{Rng, bv, guarded, tagv};\nuse serde_json::{Value, json};\n"]
    calls = []
    for name, path, w in (("SubDeviceState", "src/subdevice_state.rs", 8), ("AlStatusCode", "src/al_status_code.rs", 16)):
        vs, ca, ty = parse_enum(os.path.join(repo, path), name)
        E = dict(vs=[dict(d=d, alts=[]) for _, d in vs], catchAll=bool(ca), dflt=0)
        L = [dict(w=w, pre=0, post=0, kind="enum", inner=[])]
        arms = [f"        ethercrab::{name}::{v} => tagv(\"variant\", {i + 1})," for i, (v, _) in enumerate(vs)]
        if ca:
            arms.append(f"        ethercrab::{name}::{ca}(x) => tagv(\"catchall\", x as u64),")
        fn = name.lower()
        meta = json.dumps(dict(L=L, E=[E]))
        nbytes = w // 8
        out.append(f"""fn tag_{fn}(v: ethercrab::{name}) -> Value {{
    match v {{
{chr(10).join(arms)}
    }}
}}
fn run_{fn}(rng: &mut Rng, out: &mut Vec<String>) {{
    let meta: Value = serde_json::from_str(r#"{meta}"#).unwrap();
    // every declared value, its neighbours, and seeded ones; exact, long and short buffers
    let mut raws: Vec<u64> = vec![{', '.join(str(d) for _, d in vs)}];
    for k in 0..raws.len() {{ raws.push(raws[k] + 1); raws.push(raws[k].wrapping_sub(1) & {(1 << w) - 1}); }}
    for _ in 0..40 {{ raws.push(rng.next_u64() & {(1 << w) - 1}); }}
    raws.push({(1 << w) - 1});
    for (n, raw) in raws.iter().enumerate() {{
        let mut buf = raw.to_le_bytes()[..{nbytes}].to_vec();
        match n % 5 {{ 0 => buf.extend(rng.bytes(3)), 1 => {{ buf.truncate({nbytes - 1}); }} _ => {{}} }}
        let r = guarded(|| <ethercrab::{name} as ethercrab_wire::EtherCrabWireRead>::unpack_from_slice(&buf));
        let (res, fields) = match r {{
            Ok(Ok(v)) => ("ok", json!([tag_{fn}(v)])),
            Ok(Err(_)) => ("err", json!([])),
            Err(_) => ("panic", json!([])),
        }};
        out.push(json!({{"id": format!("{name}-{{n}}"), "op": "unpack", "L": meta["L"], "E": meta["E"], "buf": bv(buf), "res": res, "fields": fields}}).to_string());
    }}
    let plen = <ethercrab::{name} as ethercrab_wire::EtherCrabWireSized>::PACKED_LEN;
    let blen = <ethercrab::{name} as ethercrab_wire::EtherCrabWireSized>::buffer().as_ref().len();
    out.push(json!({{"id": "{name}", "op": "buffer", "plen": plen, "item": {nbytes}, "n": 1, "buflen": blen}}).to_string());
}}
""")
        calls.append(f"    run_{fn}(rng, out);")
    # SubDevice identity: four little-endian 32 bit words (ETG1000.6 SII words 8..15)
    metaI = json.dumps(dict(L=[dict(w=32, pre=0, post=0, kind="int", inner=[]) for _ in range(4)], E=[NOENUM] * 4))
    out.append(f"""fn run_identity(rng: &mut Rng, out: &mut Vec<String>) {{
    let meta: Value = serde_json::from_str(r#"{metaI}"#).unwrap();
    for n in 0..30 {{
        let len = match n % 5 {{ 0 => 16 + rng.below(5) as usize, 1 => rng.below(16) as usize, _ => 16 }};
        let buf = match n % 3 {{ 0 => vec![0xffu8; len], _ => rng.bytes(len) }};
        let r = guarded(|| <ethercrab::SubDeviceIdentity as ethercrab_wire::EtherCrabWireRead>::unpack_from_slice(&buf));
        let (res, fields) = match r {{
            Ok(Ok(v)) => ("ok", json!([bv(v.vendor_id.to_le_bytes().to_vec()), bv(v.product_id.to_le_bytes().to_vec()),
                                        bv(v.revision.to_le_bytes().to_vec()), bv(v.serial.to_le_bytes().to_vec())])),
            Ok(Err(_)) => ("err", json!([])),
            Err(_) => ("panic", json!([])),
        }};
        out.push(json!({{"id": format!("SubDeviceIdentity-{{n}}"), "op": "unpack", "L": meta["L"], "E": meta["E"], "buf": bv(buf), "res": res, "fields": fields}}).to_string());
    }}
}}
""")
    calls.append("    run_identity(rng, out);")
    out.append("pub fn run(rng: &mut Rng, out: &mut Vec<String>) {\n" + "\n".join(calls) + "\n}\n")
    return "\n".join(out)


def generate(layouts, rnd):
    parts = ["// generated by checks/wirelayout.py - do not edit\n#![allow(clippy::all)]\n"
             "use crate::{Case, Rng, Sample, bv, guarded, tagv};\nuse serde_json::Value;\n"]
    for k, L in enumerate(layouts):
        parts.append(gen_struct(k, L, rnd))
    items = ", ".join(f"Box::new(C{k})" for k in range(len(layouts)))
    parts.append(f"pub fn cases() -> Vec<Box<dyn Case>> {{\n    vec![{items}]\n}}\n")
    return "\n".join(parts)


def run(pid, tier):
    t0 = time.time()
    q = tier == "quick"
    wd = lib.scratch(f"{pid}-{tier}")
    verdict = lib.Verdict(pid)
    states = transitions = 0
    mc_runs = []
    rnd = random.Random(lib.seed())
    lib.HARNESS = lib.harness_dir()
    GEN = os.path.join(lib.HARNESS, "wiregen", "src", "generated.rs")
    try:
        # 1. exhaustive model check of the positional semantics for small layouts
        consts = dict(Widths={1, 2, 3, 5, 7, 8, 16, 32, 64}, Skips={0, 1, 3, 8}, MaxFields=2 if q else 3,
                      Kinds='{"bits", "bool", "int", "arr", "enum"}')
        cfg = lib.cfg_text(init="WlInit", next_="WlNext", constants=consts,
                           invariants=["NoOverlap", "RoundTrip", "UndeclaredZero", "NestedTransparent", "Emit"])
        d = os.path.join(wd, "mc")
        os.makedirs(d)
        r = lib.tlc(d, "WireLayoutMC", cfg, workers=12, timeout=1500 if q else 2400, heap="8g")
        mc_complete = True
        if r.error == "timeout":
            # bounded, not exhaustive: the layouts enumerated so far are used, the evidence says so
            mc_complete = False
            lib.log(f"MC: timeout after {r.distinct} distinct states (bounded, not exhaustive)")
        elif r.error:
            raise lib.ToolError(f"MC: {r.error}")
        states += r.distinct
        transitions += r.generated
        mc_runs.append(dict(name="exhaustive", constants={k: (sorted(v) if isinstance(v, set) else v) for k, v in consts.items()},
                            distinct=r.distinct, generated=r.generated, violated=r.violated, wall_s=round(r.wall, 1)))
        lib.log(f"MC: {r.distinct} distinct, violated={r.violated} ({r.wall:.0f}s)")
        if r.violated:
            rp = lib.write_replay(pid, "model", dict(property=pid, kind="model", violated=r.violated, out=r.out[-3000:]))
            verdict.violation(("model", tuple(r.violated)), rp, f"WireLayout model violates {r.violated}")
        small = [j["layout"] for j in r.json if "layout" in j]
        # 2. larger layouts by simulation
        consts2 = dict(consts, MaxFields=12)
        cfg2 = lib.cfg_text(init="WlInit", next_="WlNext", constants=consts2, invariants=["NoOverlap", "RoundTrip", "Emit"])
        d2 = os.path.join(wd, "sim")
        os.makedirs(d2)
        r2 = lib.tlc(d2, "WireLayoutMC", cfg2, workers=1, timeout=900,
                     simulate=(f"num={400 if q else 3000}", 14, lib.seed()))
        big = [j["layout"] for j in r2.json if "layout" in j]
        lib.log(f"simulate: {len(big)} layouts")
        # 3. choose the layouts to compile
        rnd.shuffle(small)
        nsmall, nbig = (120, 130) if q else (1200, 1800)
        seen = set()
        layouts = []
        for L in small[:nsmall] + big:
            key = json.dumps(L, sort_keys=True)
            if key in seen or sum(f["pre"] + f["w"] + f["post"] for f in L) > 2040:
                continue
            seen.add(key)
            layouts.append(L)
            if len(layouts) >= nsmall + nbig:
                break
        if not layouts:
            raise lib.ToolError("no layouts to compile")
        # nested structs: a plain layout (no enums) of whole bytes becomes the first field of another layout
        plain = [L for L in layouts if all(f["kind"] != "enum" for f in L)
                 and sum(f["pre"] + f["w"] + f["post"] for f in L) % 8 == 0 and sum(f["pre"] + f["w"] + f["post"] for f in L) <= 256]
        for L in layouts:
            for f in L:
                f["inner"] = []
        if plain:
            extra = []
            for L in rnd.sample(layouts, min(len(layouts), 40 if q else 400)):
                inner = [dict(f) for f in rnd.choice(plain)]
                w = sum(f["pre"] + f["w"] + f["post"] for f in inner)
                if w + sum(f["pre"] + f["w"] + f["post"] for f in L) > 2040:
                    continue
                extra.append([dict(w=w, pre=0, post=0, kind="nested", inner=inner)] + [dict(f) for f in L])
            layouts += extra
        with open(GEN, "w") as fh:
            fh.write(generate(layouts, rnd))
        with open(os.path.join(os.path.dirname(GEN), "incrate.rs"), "w") as fh:
            fh.write(generate_incrate(os.environ.get("VERIF_REPO", "/repo")))
        env = dict(os.environ, CARGO_NET_OFFLINE="true", RUSTUP_TOOLCHAIN="1.88.0")
        tb = time.time()
        b = subprocess.run(["cargo", "build", "--offline", "-q", "-p", "wiregen"], cwd=lib.HARNESS, env=env,
                           capture_output=True, text=True)
        if b.returncode != 0:
            # a layout the model accepts but the macro rejects (or vice versa) is a divergence worth seeing
            open(os.path.join(lib.WORK, "wiregen-build-error.txt"), "w").write(b.stderr)
            raise lib.ToolError("generated wire types do not compile (see work/wiregen-build-error.txt): "
                                + b.stderr[-1500:])
        lib.log(f"compiled {len(layouts)} generated types in {time.time() - tb:.0f}s")
        trace = os.path.join(wd, "trace.ndjson")
        lib.run_harness(os.path.join(lib.HARNESS, "target", "debug", "wiregen"), [lib.seed(), 3 if q else 6, trace])
        n = sum(1 for _ in open(trace))
        cfg3 = lib.cfg_text(spec="TraceSpec", constants=dict(Widths="{1}", Skips="{0}", MaxFields=0, Kinds="{}"),
                            postcondition="Report")
        d3 = os.path.join(wd, "tv")
        os.makedirs(d3)
        r3 = lib.tlc(d3, "WireLayoutTrace", cfg3, workers=1, timeout=3000, env_extra={"TRACE": trace}, heap="8g")
        summ = [j for j in r3.json if j.get("kind") == "SUMMARY"]
        if not summ or summ[0]["consumed"] != n:
            open(os.path.join(lib.WORK, "wirelayout-tlc.txt"), "w").write(r3.out)
            raise lib.ToolError(f"trace validation did not consume the trace: {r3.error or r3.out[-800:]}")
        viols = [j for j in r3.json if j.get("kind") == "VIOL"]
        states += r3.distinct
        transitions += r3.generated
        lib.log(f"validate: {n} operations on {len(layouts)} types, {len(viols)} rejected ({r3.wall:.0f}s)")
        cases = {}
        samples = []
        distinct = set()
        with open(trace) as fh:
            for line in fh:
                c = json.loads(line)
                if c["op"] in ("buffer", "array_unpack") or "L" not in c:
                    distinct.add((c["op"], c["id"], c.get("res")))
                elif c["op"] != "roundtrip":
                    distinct.add((c["op"], json.dumps(c["L"], sort_keys=True), c.get("res")))
                    if len(samples) < 3 and len(c["L"]) >= 3:
                        samples.append(c)
                if viols:
                    cases[(c["id"], c["op"])] = c
        known = [k for k in lib.load_known() if k.get("status") == "known" and k.get("property") == pid]
        for v in viols:
            c = cases.get((v["case"], v["op"]))
            kind = v["errs"].split('"')[1] if '"' in v["errs"] else "mismatch"
            matched = None
            for kf in known:
                if kind in kf["signature"]["kinds"]:
                    matched = kf
            if matched:
                verdict.known_finding(matched["what_fails"])
                continue
            if any(s == (kind,) for s, _, _ in verdict.violations):
                continue
            rp = lib.write_replay(pid, f"{v['case']}-{v['op']}", dict(
                property=pid, engine="wirelayout", tier=tier, seed=lib.seed(), kind="case", case=c,
                violated=dict(errors=v["errs"]), signature=dict(kind=kind)))
            verdict.violation((kind,), rp, f"type {v['case']} {v['op']}: {v['errs'][:400]}")
        cov = dict(states=max(states, 1), transitions=max(transitions, 1),
                   traces_validated_against_impl=n - len(viols), evaluations=n, distinct_nontrivial=len(distinct),
                   generated_types=len(layouts),
                   rule="one case = one pack / pack_to_slice / unpack_from_slice operation on a value of a type generated from a "
                        "TLC layout; distinct by (operation, layout, outcome)",
                   samples=samples or [{"note": "none"}], model_checking_runs=mc_runs,
                   exhaustive=(not r.violated) and mc_complete, conformance_divergences=verdict.divergences,
                   known_findings_matched=verdict.known)
        lib.write_evidence(pid, tier, "model_checking", cov, [
            "Reference semantics = positional bit layout (WireLayout.tla Pack/Unpack) and Rust's rule for implicit discriminants (EnumDecode).",
            "Generated field kinds: sub-byte u8, bool, u16..u64/i16..i64, [u8; N], enums with u8/u16 repr (explicit/implicit discriminants, alternatives, catch-all, default); structs of whole bytes without enums nested as a field of another struct (one level); the crate's own wire types an application can name (SubDeviceState, AlStatusCode from their declarations, SubDeviceIdentity) are decoded from declared values, their neighbours and seeded buffers.",
        ], time.time() - t0, len(verdict.violations))
        return verdict.finish()
    finally:
        with open(GEN, "w") as fh:
            fh.write(STUB)
        with open(os.path.join(os.path.dirname(GEN), "incrate.rs"), "w") as fh:
            fh.write(STUB_INCRATE)
        lib.cleanup(wd)


def replay(pid, tier, path):
    raise lib.ToolError("replay: re-run `bin/check C19` with the same VERIF_SEED")
