"""Shared driver pieces for the engines that run on the simulated segment (simdev / vsim)."""
import json
import os
import subprocess
import time

from . import lib


def build_vsim(profile="dev"):
    lib.HARNESS = lib.harness_dir()
    os.makedirs(lib.WORK, exist_ok=True)
    import fcntl
    lock = open(os.path.join(lib.HARNESS, ".build.lock"), "w")
    fcntl.flock(lock, fcntl.LOCK_EX)
    try:
        env = dict(os.environ, CARGO_NET_OFFLINE="true", RUSTUP_TOOLCHAIN="1.88.0")
        t0 = time.time()
        cmd = ["cargo", "build", "--offline", "-q", "-p", "simdev", "--bins"]
        if profile != "dev":
            cmd += ["--profile", profile]
        r = subprocess.run(cmd, cwd=lib.HARNESS, env=env, capture_output=True, text=True)
        if r.returncode != 0:
            import sys
            sys.stderr.write(r.stderr[-4000:])
            raise lib.ToolError("simdev / repository does not build with --cfg ethercrab_verif")
        lib.log(f"simdev built ({profile}) in {time.time() - t0:.1f}s")
    finally:
        fcntl.flock(lock, fcntl.LOCK_UN)
        lock.close()
    return os.path.join(lib.HARNESS, "target", "debug" if profile == "dev" else profile)


class SimCheck:
    """Common flow: TLC model check -> cases -> vsim -> TLC trace validation -> verdict/evidence."""

    def __init__(self, pid, tier, engine):
        self.pid, self.tier, self.engine = pid, tier, engine
        self.t0 = time.time()
        self.wd = lib.scratch(f"{pid}-{tier}")
        self.bindir = build_vsim()
        self.verdict = lib.Verdict(pid)
        self.states = self.transitions = 0
        self.mc_runs = []
        self.total = self.accepted = 0
        self.samples = []
        self.distinct = set()
        self.exhaustive = True
        self.not_mine = ()
        self.known = [k for k in lib.load_known() if k.get("status") == "known" and k.get("property") == pid]

    def mc(self, name, module, cfg, workers=8, timeout=1500, heap="8g", extra_module=None):
        d = os.path.join(self.wd, f"mc-{name}")
        os.makedirs(d, exist_ok=True)
        if extra_module:
            with open(os.path.join(d, extra_module[0] + ".tla"), "w") as fh:
                fh.write(extra_module[1])
        r = lib.tlc(d, module, cfg, workers=workers, timeout=timeout, heap=heap)
        if r.error and r.error != "timeout":
            raise lib.ToolError(f"MC {name}: {r.error}")
        self.states += r.distinct
        self.transitions += r.generated
        self.mc_runs.append(dict(name=name, module=module, distinct=r.distinct, generated=r.generated,
                                 violated=r.violated, wall_s=round(r.wall, 1), complete=(r.left == 0 and not r.error)))
        lib.log(f"MC {name}: {r.distinct} distinct, violated={r.violated} ({r.wall:.0f}s)")
        if r.error == "timeout" or r.left:
            self.exhaustive = False
        if r.violated:
            self.exhaustive = False
            rp = lib.write_replay(self.pid, f"model-{name}", dict(property=self.pid, kind="model", violated=r.violated,
                                                                  out=r.out[-3000:]))
            self.verdict.violation(("model", tuple(r.violated)), rp,
                                   f"{module} model violates {r.violated} (the design as specified breaks the property)")
        return r

    def run_cases(self, tag, cases, binary="vsim", engine=None, bindir=None):
        cf = os.path.join(self.wd, f"{tag}.cases.ndjson")
        tf = os.path.join(self.wd, f"{tag}.trace.ndjson")
        with open(cf, "w") as fh:
            for c in cases:
                fh.write(json.dumps(c) + "\n")
        lib.run_harness(os.path.join(bindir or self.bindir, binary), [engine or self.engine, cf, tf, lib.seed()], timeout=3000)
        n = sum(1 for _ in open(tf))
        if n != len(cases):
            raise lib.ToolError(f"{tag}: {binary} wrote {n} lines for {len(cases)} cases")
        return tf

    def validate(self, tag, trace, module, constants, key_fn, sample_fn=None, spec="TraceSpec", constraints=("Judge",),
                 heap="8g", timeout=3000):
        n = sum(1 for _ in open(trace))
        cfg = lib.cfg_text(spec=spec, constants=constants, constraints=list(constraints), postcondition="Report")
        d = os.path.join(self.wd, f"tv-{tag}")
        os.makedirs(d, exist_ok=True)
        r = lib.tlc(d, module, cfg, workers=1, timeout=timeout, env_extra={"TRACE": trace}, heap=heap,
                    depth_first=True)
        summ = [j for j in r.json if j.get("kind") == "SUMMARY"]
        if not summ or summ[0].get("judged", summ[0].get("consumed")) != n:
            open(os.path.join(lib.WORK, f"{self.pid}-tlc.txt"), "w").write(r.out)
            raise lib.ToolError(f"{tag}: trace validation did not judge every case ({summ}): "
                                f"{r.error or r.out[-600:]}")
        viols = [j for j in r.json if j.get("kind") == "VIOL"]
        divs = [j for j in r.json if j.get("kind") == "DIVERGE"]
        if os.environ.get("VERIF_KEEP"):
            with open(os.path.join(lib.WORK, f"{self.pid}-{tag}-judgements.ndjson"), "w") as fh:
                for j in viols + divs:
                    fh.write(json.dumps(j) + "\n")
        self.states += r.distinct
        self.transitions += r.generated
        self.total += n
        self.accepted += n - len({d["case"] for d in divs})
        lib.log(f"validate {tag}: {n} cases, {len(viols)} property violations, {len(divs)} divergences ({r.wall:.0f}s)")
        recs = {}
        with open(trace) as fh:
            for line in fh:
                c = json.loads(line)
                self.distinct.add(key_fn(c))
                if len(self.samples) < 3 and (sample_fn is None or sample_fn(c)):
                    self.samples.append(c)
                if viols or divs:
                    recs[c["case"]["id"]] = c
        for dv in divs[:40]:
            self.verdict.divergences.append(dict(kind="divergence", tag=tag, case=dv["case"], errs=dv["errs"][:300]))
        for v in viols:
            if self.skip_violation(v):
                continue
            import re as _re
            kinds = _re.findall(r'<<"(\w+)"', v["errs"]) or ["violation"]
            kind = None
            for kd in kinds:
                matched = None
                for kf in self.known:
                    if kd in kf["signature"]["kinds"] and self.known_applies(kf, recs.get(v["case"])):
                        matched = kf
                        break
                if matched:
                    self.verdict.known_finding(matched["what_fails"])
                elif kind is None:
                    kind = kd
            if kind is None:
                continue
            if any(s == (kind,) for s, _, _ in self.verdict.violations):
                continue
            rp = lib.write_replay(self.pid, f"{tag}-{v['case']}", dict(
                property=self.pid, engine=self.engine, tier=self.tier, seed=lib.seed(), kind="case",
                case=(recs.get(v["case"]) or {}).get("case"), observed=recs.get(v["case"]),
                violated=dict(errors=v["errs"]), signature=dict(kind=kind)))
            self.verdict.violation((kind,), rp, f"{tag} case {v['case']}: {v['errs'][:400]}")
        return viols, divs

    def known_applies(self, kf, rec):
        return True

    def skip_violation(self, v):
        """Violations that belong to another property's check."""
        return any(s in v["errs"] for s in self.not_mine)

    def finish(self, rule, assumptions, extra=None):
        cov = dict(states=max(self.states, 1), transitions=max(self.transitions, 1),
                   traces_validated_against_impl=self.accepted, evaluations=self.total,
                   distinct_nontrivial=len(self.distinct), rule=rule,
                   samples=self.samples or [{"note": "none"}], model_checking_runs=self.mc_runs,
                   exhaustive=self.exhaustive, conformance_divergences=self.verdict.divergences[:50],
                   known_findings_matched=self.verdict.known)
        if extra:
            cov.update(extra)
        lib.write_evidence(self.pid, self.tier, "model_checking", cov, assumptions, time.time() - self.t0,
                           len(self.verdict.violations))
        lib.cleanup(self.wd)
        return self.verdict.finish()
