"""Engine `pduloop`: C01, C02, C03, C06 (PduLoop.tla / PduLoopMC.tla / PduLoopTrace.tla /
PduLoopMonitor.tla + harness `pduloop-*` commands)."""
import json
import os
import time

from . import lib

# The model of the code as it is after the fix: commits
FIXED = dict(ViewOwnsSlot=True, TxCas=True, ClearFirst=True, Recheck=True, SentOnly=True)

KINDS = {
    "C01": {"Misroute", "ViewLen", "ViewChanged", "TrimWrong", "GenuineReject", "Stuck",
            "OkWithoutResponse", "Panic"},
    "C02": {"MutualExclusion", "ClaimNotFree", "Lifecycle", "WriteWhileViewed", "ViewOverlap", "Panic"},
    "C03": {"Leak", "LeakAfterProbe", "Panic"},
    "C06": {"DeadlinesBeyondBudget", "TooManyTransmissions", "TransmissionCount", "RetransmitDiffers", "OkWithoutResponse", "ResponseLostToDeadline",
            "Misroute", "ViewChanged", "MutualExclusion", "WriteWhileViewed", "ViewOverlap",
            "ClaimNotFree", "Leak", "LeakAfterProbe", "Panic", "Stuck"},
}


def model_constants(sc):
    c = dict(
        N=sc["n"], Apps=set(range(sc["apps"])), IdxMod=sc.get("idxmod", 4), MaxReq=sc["max_req"],
        MaxPdus=sc["max_pdus"], RetrySet=set(sc["retry_set"]),
        AllowTimer=sc.get("allow_timer", False), AllowAbandon=sc.get("allow_abandon", False),
        AllowDropCreated=sc.get("allow_drop_created", False), AllowLose=sc.get("allow_lose", False),
        DupBudget=sc.get("dup_budget", 0), SendFailBudget=sc.get("send_fail_budget", 0),
        EarlyResponse=sc.get("early_response", False), InitPduIdx=sc.get("init_pdu_idx", 0),
        TimerApps=set(sc.get("timer_apps", range(sc["apps"]))),
    )
    c.update(FIXED)
    c.update(sc.get("model_override", {}))
    return c


def harness_cfg(sc):
    keys = ["n", "apps", "max_req", "max_pdus", "retry_set", "allow_timer", "allow_abandon",
            "allow_drop_created", "allow_lose", "dup_budget", "send_fail_budget", "early_response",
            "tx_prompt", "no_release_inside", "burn_idx", "timer_apps"]
    return {k: sc[k] for k in keys if k in sc}


def max_choice(sc):
    # StartReq: 1 + np + 8*rt ; RxTake: 2 + 2*fid with fid up to apps*max_req*(1+max retry)+send fails
    frames = sc["apps"] * sc["max_req"] * (1 + max(sc["retry_set"])) + 2
    return max(1 + sc["max_pdus"] + 8 * max(sc["retry_set"]), 2 + 2 * frames)


class Engine:
    def __init__(self, pid, tier):
        self.pid = pid
        self.tier = tier
        self.wd = lib.scratch(f"{pid}-{tier}")
        self.binary = None
        self.verdict = lib.Verdict(pid)
        self.states = 0
        self.transitions = 0
        self.mc_runs = []
        self.traces_strict = 0
        self.traces_total = 0
        self.events = 0
        self.samples = []
        self.viol_kinds = {}
        self.known = [k for k in lib.load_known() if k.get("status") == "known"
                      and k.get("engine") == "pduloop"]
        self.exhaustive = True
        self.sched_count = 0
        self.distinct = set()
        self.band = "A"
        self.traps = []

    # -- model checking -------------------------------------------------------------------
    def mc(self, name, sc, invariants=(), properties=(), constraints=(), workers=8, timeout=900,
           expect_violation=False):
        consts = model_constants(sc)
        consts["MaxChoice"] = max_choice(sc)
        consts["EmitSchedules"] = False
        cfg = lib.cfg_text(spec="MCSpec", view="MCView", constants=consts, invariants=invariants,
                           properties=properties,
                           constraints=[c for c in constraints if not c.startswith("ACTION:")],
                           action_constraints=[c[7:] for c in constraints if c.startswith("ACTION:")])
        d = os.path.join(self.wd, f"mc-{name}")
        os.makedirs(d, exist_ok=True)
        r = lib.tlc(d, "PduLoopMC", cfg, workers=workers, timeout=timeout, coverage=False)
        self.states += r.distinct
        self.transitions += r.generated
        ent = dict(name=name, constants={k: (sorted(v) if isinstance(v, set) else v) for k, v in consts.items()},
                   invariants=list(invariants) + list(properties), constraints=list(constraints),
                   distinct=r.distinct, generated=r.generated, wall_s=round(r.wall, 1),
                   complete=(r.left == 0 and not r.violated and r.error is None), violated=r.violated)
        self.mc_runs.append(ent)
        if r.error == "timeout":
            self.exhaustive = False
            lib.log(f"MC {name}: timeout after {r.distinct} distinct states (bounded, not exhaustive)")
            return r
        if r.error:
            raise lib.ToolError(f"TLC error in MC {name}: {r.error}")
        lib.log(f"MC {name}: {r.distinct} distinct / {r.generated} generated, violated={r.violated} ({r.wall:.0f}s)")
        if r.violated:
            self.exhaustive = False
            self.handle_counterexample(name, sc, r)
        return r

    def liveness(self, name, sc, props, timeout=600):
        consts = model_constants(sc)
        cfg = lib.cfg_text(spec="FairSpec", constants=consts, properties=props)
        d = os.path.join(self.wd, f"live-{name}")
        os.makedirs(d, exist_ok=True)
        r = lib.tlc(d, "PduLoop", cfg, workers=4, timeout=timeout)
        self.states += r.distinct
        self.transitions += r.generated
        self.mc_runs.append(dict(name="live-" + name, properties=props, distinct=r.distinct,
                                 generated=r.generated, wall_s=round(r.wall, 1),
                                 complete=(not r.violated and r.error is None), violated=r.violated,
                                 note="temporal property under weak fairness of every process and the clock, "
                                      "no state constraint"))
        lib.log(f"liveness {name}: {r.distinct} distinct, violated={r.violated}, error={r.error} ({r.wall:.0f}s)")
        if r.error == "timeout":
            self.exhaustive = False
            return r
        if r.error:
            raise lib.ToolError(f"TLC error in liveness {name}: {r.error}")
        if r.violated:
            # a liveness counterexample is a lasso; the implementation side of it is the "Stuck"
            # verdict of the monitor on seeded runs - report as divergence for the evidence
            self.verdict.divergences.append(dict(kind="model-liveness-counterexample", mc=name, props=props))
        return r

    def trap(self, trapname, sc, timeout=120):
        """Model-based test generation: have TLC find a shortest schedule into a branch of the specification
        (trap property), replay it on the real loop, drain, and let the monitor judge the execution."""
        consts = model_constants(sc)
        consts["MaxChoice"] = max_choice(sc)
        consts["EmitSchedules"] = False
        cfg = lib.cfg_text(spec="MCSpec", view="MCView", constants=consts, invariants=[f"NotTrap_{trapname}"],
                           constraints=["IndexConstraint"])
        d = os.path.join(self.wd, f"trap-{trapname}")
        os.makedirs(d, exist_ok=True)
        r = lib.tlc(d, "PduLoopMC", cfg, workers=4, timeout=timeout)
        self.states += r.distinct
        self.transitions += r.generated
        hist = r.hist() if r.violated else None
        self.traps.append(dict(trap=trapname, reached=bool(hist), steps=len(hist) if hist else 0,
                               distinct=r.distinct, wall_s=round(r.wall, 1)))
        if r.error and r.error != "timeout":
            raise lib.ToolError(f"TLC error in trap {trapname}: {r.error}")
        if not hist:
            lib.log(f"trap {trapname}: not reached ({r.distinct} states, {r.wall:.0f}s)")
            return
        line = {"cfg": harness_cfg(sc), "steps": hist, "seed": lib.seed(), "id": f"trap-{trapname}"}
        pth = os.path.join(self.wd, f"trap-{trapname}.ndjson")
        with open(pth, "w") as fh:
            fh.write(json.dumps(line) + "\n")
        self.sched_count += 1
        lib.log(f"trap {trapname}: reached in {len(hist)} steps ({r.wall:.0f}s)")
        self.replay_and_validate(pth, sc, tag=f"trap-{trapname}")

    def handle_counterexample(self, name, sc, r):
        """A model-level counterexample is only a verdict about the code if the code reproduces it."""
        hist = r.hist()
        if not hist:
            raise lib.ToolError(f"MC {name}: counterexample without schedule")
        line = {"cfg": harness_cfg(sc), "steps": hist, "seed": lib.seed(), "id": f"cex-{name}"}
        p = os.path.join(self.wd, f"cex-{name}.ndjson")
        with open(p, "w") as fh:
            fh.write(json.dumps(line) + "\n")
        viols, rejects = self.replay_and_validate(p, sc, tag=f"cex-{name}")
        mine = [v for v in viols if v["v"]["kind"] in KINDS[self.pid]]
        if not mine:
            self.verdict.divergences.append(
                dict(kind="model-counterexample-not-reproduced", mc=name, invariant=r.violated,
                     steps=len(hist), strict_rejects=len(rejects)))
            lib.log(f"MC {name}: counterexample for {r.violated} NOT reproduced by the code (model divergence)")

    # -- S->I: TLC behaviours replayed into the code ---------------------------------------
    def simulate(self, name, sc, num, depth=400):
        consts = model_constants(sc)
        consts["IdxMod"] = 256
        consts["MaxChoice"] = max_choice(sc)
        consts["EmitSchedules"] = True
        cfg = lib.cfg_text(spec="MCSpec", constants=consts, invariants=["Emit"],
                           constraints=["NoReleaseInside"] if sc.get("no_release_inside") else [])
        d = os.path.join(self.wd, f"sim-{name}")
        os.makedirs(d, exist_ok=True)
        r = lib.tlc(d, "PduLoopMC", cfg, workers=1, timeout=600,
                    simulate=(f"num={num}", depth, lib.seed()))
        scheds = [j["sched"] for j in r.json if "sched" in j]
        if not scheds:
            raise lib.ToolError(f"simulate {name}: TLC produced no schedules")
        p = os.path.join(self.wd, f"sim-{name}.ndjson")
        with open(p, "w") as fh:
            for i, s in enumerate(scheds):
                fh.write(json.dumps({"cfg": harness_cfg(sc), "steps": s, "seed": lib.seed() + i,
                                     "id": f"sim-{name}-{i}"}) + "\n")
        self.sched_count += len(scheds)
        lib.log(f"simulate {name}: {len(scheds)} complete behaviours from TLC")
        return self.replay_and_validate(p, sc, tag=f"sim-{name}", expect_strict=True)

    # -- I->S: seeded exploration of the code ----------------------------------------------
    def random(self, name, sc, runs, max_steps=600):
        t = os.path.join(self.wd, f"rnd-{name}.trace.ndjson")
        s = os.path.join(self.wd, f"rnd-{name}.sched.ndjson")
        lib.run_harness(self.binary, ["pduloop-random", json.dumps(harness_cfg(sc)), lib.seed(), runs,
                                      max_steps, t, s])
        return self.validate(t, sc, tag=f"rnd-{name}", sched_file=s)

    def replay_and_validate(self, sched_file, sc, tag, expect_strict=False):
        t = os.path.join(self.wd, f"{tag}.trace.ndjson")
        lib.run_harness(self.binary, ["pduloop-replay", sched_file, t])
        return self.validate(t, sc, tag, sched_file=sched_file, expect_strict=expect_strict)

    def validate(self, trace, sc, tag, sched_file=None, expect_strict=False):
        n_events = sum(1 for _ in open(trace))
        self.events += n_events
        # strict conformance
        consts = model_constants(sc)
        consts.update(IdxMod=256, MaxReq=100000, MaxPdus=7, RetrySet=set(range(8)), AllowTimer=True,
                      AllowAbandon=True, AllowDropCreated=True, AllowLose=True, DupBudget=10 ** 6,
                      SendFailBudget=10 ** 6, EarlyResponse=True, InitPduIdx=0,
                      TimerApps=set(range(sc["apps"])))
        cfg = lib.cfg_text(spec="TraceSpec", constants=consts, constraints=["Track"],
                           postcondition="TraceAccepted")
        d = os.path.join(self.wd, f"tv-{tag}")
        os.makedirs(d, exist_ok=True)
        r = lib.tlc(d, "PduLoopTrace", cfg, workers=1, timeout=1800, depth_first=True,
                    env_extra={"TRACE": trace}, heap="4g")
        summ = [j for j in r.json if j.get("kind") == "SUMMARY"]
        if not summ:
            raise lib.ToolError(f"trace validation {tag} did not finish: {r.error or r.out[-500:]}")
        rejects = [j for j in r.json if j.get("kind") == "REJECT"]
        self.traces_total += summ[0]["runs"]
        self.traces_strict += summ[0]["accepted"]
        self.states += r.distinct
        self.transitions += r.generated
        # monitor
        cfgm = lib.cfg_text(spec="MonSpec", constants=dict(N=sc["n"], NApps=sc["apps"]),
                            constraints=["Track"], postcondition="Report")
        d2 = os.path.join(self.wd, f"mon-{tag}")
        os.makedirs(d2, exist_ok=True)
        rm = lib.tlc(d2, "PduLoopMonitor", cfgm, workers=1, timeout=1800, depth_first=True,
                     env_extra={"TRACE": trace}, heap="4g")
        summ2 = [j for j in rm.json if j.get("kind") == "SUMMARY"]
        if not summ2 or summ2[0]["finished"] != summ2[0]["runs"]:
            raise lib.ToolError(f"monitor {tag} did not finish: {rm.error or rm.out[-800:]}")
        viols = [j for j in rm.json if j.get("kind") == "VIOL"]
        lib.log(f"validate {tag}: {summ[0]['runs']} runs / {n_events} events, strict accepted "
                f"{summ[0]['accepted']}, monitor violations {len(viols)}")
        for rj in rejects[:20]:
            self.verdict.divergences.append(dict(kind="strict-reject", tag=tag, run=rj["run"],
                                                 at=rj["at"] - rj["start"], event_at=rj["event"].get("at"),
                                                 p=rj["event"].get("p")))
        if not self.samples:
            self.samples = self.sample_from(trace)
        self.count_distinct(trace)
        self.classify(viols, trace, sched_file, tag)
        return viols, rejects

    def count_distinct(self, trace):
        """Distinct executions = distinct sequences of (process, point, choice); non-trivial = the
        execution contains a switch away from a process that was in the middle of an operation."""
        import hashlib
        cur = None
        nontrivial = False
        last_p = None
        last_next = None

        def close():
            if cur is not None and nontrivial:
                self.distinct.add(cur.hexdigest())
        with open(trace) as fh:
            for line in fh:
                e = json.loads(line)
                if e.get("e") == "Init":
                    close()
                    cur = hashlib.sha1()
                    nontrivial = False
                    last_p = None
                    last_next = None
                    continue
                if cur is None:
                    continue
                cur.update(f"{e.get('p')},{e.get('at')},{e.get('c')};".encode())
                if last_p is not None and e.get("p") != last_p and last_next not in (
                        "idle", "tx_idle", "rx_idle", "parked", "view", "created", None):
                    nontrivial = True
                last_p = e.get("p")
                last_next = e.get("next")
        close()

    def sample_from(self, trace):
        out = []
        with open(trace) as fh:
            cur = None
            for line in fh:
                e = json.loads(line)
                if e.get("e") == "Init":
                    if cur and len(out) < 2:
                        out.append(cur)
                    if len(out) >= 2:
                        break
                    cur = {"run": e.get("run"), "cfg": e.get("cfg"), "events": []}
                elif cur is not None and len(cur["events"]) < 40:
                    cur["events"].append({k: e[k] for k in ("p", "at", "c", "slot", "a", "b", "st", "fp", "next")
                                          if k in e})
        return out

    def run_lines(self, trace, run_id):
        lines = []
        on = False
        with open(trace) as fh:
            for line in fh:
                e = json.loads(line)
                if e.get("e") == "Init":
                    on = e.get("run") == run_id
                if on:
                    lines.append(e)
        return lines

    def schedule_of(self, sched_file, run_id):
        if not sched_file:
            return None
        with open(sched_file) as fh:
            for line in fh:
                j = json.loads(line)
                if j.get("id") == run_id:
                    return j
        return None

    def released_inside_before(self, events, upto):
        """Did an application task release / re-queue its slot while TX or RX was inside it?"""
        prev = None
        for i, e in enumerate(events):
            if i >= upto:
                break
            if e.get("at") == "SetState" and prev is not None and isinstance(e.get("p"), int) \
                    and e["p"] >= 0 and e.get("slot", 99) < len(prev.get("st", [])):
                if prev["st"][e["slot"]] in (3, 5) and e.get("a") in (0, 2):
                    return True
            if "st" in e:
                prev = e
        return False

    def classify(self, viols, trace, sched_file, tag):
        by_run = {}
        for v in viols:
            if v["v"]["kind"] in KINDS[self.pid]:
                by_run.setdefault(v["run"], []).append(v)
            self.viol_kinds[v["v"]["kind"]] = self.viol_kinds.get(v["v"]["kind"], 0) + 1
        for run_id, vs in by_run.items():
            events = self.run_lines(trace, run_id)
            for v in vs:
                kind = v["v"]["kind"]
                at = v["v"]["at"] - v["start"]
                inside = self.released_inside_before(events, at + 1)
                matched = None
                for k in self.known:
                    if self.pid == k["property"] and kind in k["signature"]["kinds"] \
                            and (not k["signature"].get("requires_release_inside") or inside):
                        matched = k
                        break
                if matched:
                    self.verdict.known_finding(matched["what_fails"])
                    continue
                sig = (kind, inside)
                if any(s == sig for s, _, _ in self.verdict.violations):
                    continue
                sched = self.schedule_of(sched_file, run_id)
                rp = lib.write_replay(self.pid, f"{tag}-{run_id}-{kind}", dict(
                    property=self.pid, engine="pduloop", tier=self.tier, seed=lib.seed(),
                    kind="schedule", config=(sched or {}).get("cfg"), steps=(sched or {}).get("steps"),
                    run_seed=(sched or {}).get("seed"),
                    violated=dict(kind=kind, at_event=at, detail=v["v"]["d"]),
                    signature=dict(kind=kind, released_while_inside=inside)))
                self.verdict.violation(sig, rp, f"{kind} in run {run_id} ({tag}) at event {at}: {v['v']['d']}")

    def finish(self, t0, assumptions, rule):
        cov = dict(
            states=max(self.states, 1), transitions=max(self.transitions, 1),
            traces_validated_against_impl=self.traces_strict,
            traces_monitored=self.traces_total,
            tlc_behaviours_replayed=self.sched_count,
            trap_schedules=self.traps,
            events=self.events,
            samples=self.samples or [{"note": "no trace recorded"}],
            model_checking_runs=self.mc_runs,
            exhaustive=self.exhaustive and all(m["complete"] for m in self.mc_runs),
            evaluations=self.traces_total,
            distinct_nontrivial=len(self.distinct),
            rule=rule,
            monitor_violation_kinds_seen=self.viol_kinds,
            conformance_divergences=self.verdict.divergences[:50],
            known_findings_matched=self.verdict.known,
        )
        lib.write_evidence(self.pid, self.tier, "model_checking", cov, assumptions, time.time() - t0,
                           len(self.verdict.violations))
        lib.cleanup(self.wd)
        return self.verdict.finish()


BASE = dict(n=1, apps=2, max_req=1, max_pdus=1, retry_set=[0])


def scenarios(pid, tier):
    q = tier == "quick"
    if pid == "C01":
        inv = ["NoMisroute", "ViewStable", "OkIsOwn", "NoLostWake", "NoGenuineReject", "NoWriterWhileViewed"]
        return dict(
            mc=[("n1a2", dict(BASE), ["TypeOK"] + inv, [], ["IndexConstraint"]),
                ("n2a2", dict(BASE, n=2, max_req=1 if q else 2, max_pdus=1 if q else 2), inv, [], ["IndexConstraint"]),
                ("n1a2dup", dict(BASE, dup_budget=1), inv, [], ["IndexConstraint"])]
               + ([] if q else [("n2a3", dict(BASE, n=2, apps=3), inv, [], ["IndexConstraint"])]),
            live=[("n1a2", dict(BASE), ["Resolves"])],
            sim=[("n2a2", dict(BASE, n=2, max_req=2, max_pdus=2), 150 if q else 3000)],
            rnd=[("n2a2", dict(BASE, n=2, max_req=3, max_pdus=2, dup_budget=1), 150 if q else 5000),
                 ("n4a3wrap", dict(BASE, n=4, apps=3, max_req=4, max_pdus=3, burn_idx=250), 60 if q else 3000),
                 ("n1a3", dict(BASE, apps=3, max_req=2), 60 if q else 2000)],
        )
    if pid == "C02":
        inv = ["MutualExclusion", "NoWriterWhileViewed", "FreeMeansUnowned", "NoOrphan"]
        prop = ["ClaimOnlyWhenFree", "LifecycleOrder"]
        return dict(
            mc=[("n1a2", dict(BASE, send_fail_budget=1, dup_budget=1, allow_drop_created=True),
                 ["TypeOK"] + inv, prop, []),
                ("n2a2", dict(BASE, n=2, max_req=1 if q else 2, send_fail_budget=1), inv, prop, [])]
               + ([] if q else [("n2a3", dict(BASE, n=2, apps=3), inv, prop, []),
                                ("n1a3", dict(BASE, apps=3, dup_budget=1), inv, prop, [])]),
            sim=[("n2a2", dict(BASE, n=2, max_req=2, send_fail_budget=1, dup_budget=1,
                                allow_drop_created=True), 150 if q else 3000)],
            rnd=[("n2a2", dict(BASE, n=2, max_req=3, max_pdus=2, send_fail_budget=2, dup_budget=2,
                                allow_drop_created=True), 150 if q else 5000),
                 ("n1a3", dict(BASE, apps=3, max_req=2, send_fail_budget=1, dup_budget=1), 80 if q else 3000),
                 # a response that arrives while the transmit side is still inside the send call (the request then
                 # needs its deadline to get on, hence timers; without releases while a party is inside: that is C06's F4)
                 ("n2a2early", dict(BASE, n=2, max_req=2, retry_set=[0, 1], allow_timer=True, early_response=True,
                                    no_release_inside=True), 100 if q else 3000)],
        )
    if pid == "C03":
        inv = ["NoLeak", "FreeMeansUnowned", "NoOrphan"]
        one = dict(n=1, apps=1, max_req=2, max_pdus=1, retry_set=[0], early_response=True)
        allf = dict(allow_timer=True, allow_abandon=True, allow_lose=True, dup_budget=1, send_fail_budget=1,
                    allow_drop_created=True, early_response=True, no_release_inside=True)
        return dict(
            mc=[("timer", dict(one, retry_set=[0, 1], allow_timer=True, max_req=1 if q else 2), inv, [], ["NoReleaseInside"]),
                ("abandon", dict(one, allow_abandon=True), inv, [], ["NoReleaseInside"]),
                ("net", dict(one, allow_lose=True, dup_budget=1, allow_timer=True), inv, [], ["NoReleaseInside"]),
                ("send", dict(one, send_fail_budget=2, allow_drop_created=True), inv, [], []),
                ("n2a2abandon", dict(BASE, n=2, allow_abandon=True, allow_drop_created=True, early_response=True,
                                     timer_apps=[0]), inv, [], ["NoReleaseInside"])],
            sim=[("n2a2", dict(BASE, n=2, max_req=2, retry_set=[0, 1], **allf), 150 if q else 3000)],
            rnd=[("n2a2", dict(BASE, n=2, max_req=3, max_pdus=2, retry_set=[0, 1, 2], **allf), 150 if q else 5000),
                 ("n4a3", dict(BASE, n=4, apps=3, max_req=3, retry_set=[0, 1], **allf), 60 if q else 3000),
                 ("n1a2", dict(BASE, max_req=3, retry_set=[0, 2], **allf), 80 if q else 3000)],
        )
    if pid == "C06":
        inv = ["MutualExclusion", "NoWriterWhileViewed", "NoMisroute", "OkIsOwn", "NoLeak", "FreeMeansUnowned",
               "NoOrphan", "TxCountBound"]
        one = dict(n=1, apps=1, max_req=1, max_pdus=1, retry_set=[0, 1, 2], allow_timer=True,
                   early_response=True)
        A = dict(no_release_inside=True)
        allf = dict(allow_timer=True, allow_abandon=True, allow_lose=True, early_response=True)
        return dict(
            mc=[("a1timer", dict(one, allow_lose=True, max_req=1 if q else 2, **A), inv, [], ["NoReleaseInside"]),
                ("a1count", dict(one, allow_lose=True, tx_prompt=True, **A), inv + ["TxCountExact"], [],
                 ["NoReleaseInside", "ACTION:TxPromptAct"]),
                ("a2timer", dict(BASE, retry_set=[0, 1], allow_timer=True, allow_lose=True, early_response=True,
                                 timer_apps=[0], **A), inv, [], ["NoReleaseInside"]),
                ("a2abandon", dict(BASE, allow_abandon=True, early_response=True, timer_apps=[0], **A), inv, [],
                 ["NoReleaseInside"])]
               + ([] if q else [("n2a2timer", dict(BASE, n=2, retry_set=[0, 1], allow_timer=True, allow_lose=True,
                                                    early_response=True, timer_apps=[0], **A), inv, [],
                                 ["NoReleaseInside"])]),
            mc_band_b=[("a2inside", dict(BASE, retry_set=[0], allow_timer=True, early_response=True,
                                         timer_apps=[0]), ["MutualExclusion"])],
            live=[("a1", dict(one, allow_lose=True), ["Resolves"])],
            sim=[("n2a2", dict(BASE, n=2, max_req=2, retry_set=[0, 1, 2], **allf, **A), 150 if q else 3000)],
            rnd=[("n2a2", dict(BASE, n=2, max_req=3, retry_set=[0, 1, 2, 3], dup_budget=1, send_fail_budget=1,
                                **allf, **A), 150 if q else 5000),
                 ("count", dict(BASE, n=2, max_req=3, retry_set=[0, 1, 2, 3], allow_timer=True, allow_lose=True,
                                tx_prompt=True, **A), 100 if q else 3000),
                 ("n1a3", dict(BASE, apps=3, max_req=2, retry_set=[0, 1], **allf, **A), 60 if q else 3000)],
            rnd_band_b=[("n2a2", dict(BASE, n=2, max_req=3, retry_set=[0, 1, 2], dup_budget=1, **allf),
                         100 if q else 3000)],
        )
    raise lib.ToolError(f"no scenarios for {pid}")


TRAPS = {
    "C01": [("ScanSkipsUnsent", dict(BASE, n=2)), ("WakeBeforeFirstPoll", dict(BASE, apps=1)),
            ("ClaimDuringRelease", dict(BASE)), ("ClaimWhileViewHeld", dict(BASE)), ("AllocRetry", dict(BASE)),
            ("AllocFail", dict(BASE))],
    "C02": [("ClaimWhileViewHeld", dict(BASE)), ("ClaimDuringRelease", dict(BASE)), ("AllocRetry", dict(BASE, n=2)),
            ("RxClaimFails", dict(BASE, dup_budget=1)), ("TxUnclaimAfterRelease", dict(BASE, send_fail_budget=1)),
            ("ScanSkipsUnsent", dict(BASE, n=2))],
    "C03": [("AllocFail", dict(BASE)),
            ("AbandonInSendable", dict(BASE, apps=1, allow_abandon=True, early_response=True)),
            ("AbandonInSent", dict(BASE, apps=1, allow_abandon=True, early_response=True)),
            ("AbandonInRxDone", dict(BASE, apps=1, allow_abandon=True, early_response=True)),
            ("ReleaseInSent", dict(BASE, apps=1, allow_timer=True, early_response=True)),
            ("ReleaseInSendable", dict(BASE, apps=1, allow_timer=True, early_response=True)),
            ("ReleaseInRxDone", dict(BASE, apps=1, allow_timer=True, early_response=True))],
    "C06": [("ResponseAtDeadlineLast", dict(BASE, apps=1, allow_timer=True, early_response=True)),
            ("ResponseAtDeadlineRetry", dict(BASE, apps=1, retry_set=[1], allow_timer=True, early_response=True)),
            ("RetryCasFails", dict(BASE, apps=1, retry_set=[1], allow_timer=True, early_response=True)),
            ("ReleaseInRxDone", dict(BASE, apps=1, allow_timer=True, early_response=True)),
            ("ReleaseInSent", dict(BASE, allow_timer=True, early_response=True, timer_apps=[0])),
            ("TxMarkAfterRelease", dict(BASE, allow_timer=True, early_response=True, timer_apps=[0])),
            ("TxUnclaimAfterRelease", dict(BASE, allow_timer=True, early_response=True, timer_apps=[0], send_fail_budget=1)),
            ("RxMarkAfterRelease", dict(BASE, allow_timer=True, early_response=True, timer_apps=[0])),
            ("AbandonInSending", dict(BASE, allow_abandon=True, early_response=True, timer_apps=[0])),
            ("AbandonInRxBusy", dict(BASE, allow_abandon=True, early_response=True, timer_apps=[0])),
            ("ReleaseInSending", dict(BASE, allow_timer=True, early_response=True, timer_apps=[0])),
            ("ReleaseInRxBusy", dict(BASE, allow_timer=True, early_response=True, timer_apps=[0]))],
}

ASSUME = {
    "all": [
        "Interleavings are sequentially consistent (token-passing scheduler); weakening a memory ordering without changing the operation is invisible.",
        "Exhaustive results hold for the constants listed under model_checking_runs; beyond them exploration is simulation / seeded.",
    ],
    "C01": ["The network answers a request frame only after the transmit side marked it sent; no deadline fires; fewer than 256 datagram indices are allocated while a request is outstanding (all three from the property text)."],
    "C02": ["No deadline / abandonment (that is C06); the network answers only after the frame was marked sent."],
    "C03": ["Abandonment exactly while the transmit/receive side is inside the buffer is cut (C06 window, band A constraint NoReleaseInside)."],
    "C06": ["Band A cuts the listed known finding (request given up while TX/RX is inside its buffer); band B includes it and must reproduce only that finding.",
            "The transmission-count clause is checked under the property's own assumption (TxPrompt: no deadline passes while the frame waits for the transmit task)."],
}


def run(pid, tier):
    t0 = time.time()
    eng = Engine(pid, tier)
    eng.binary = lib.build_harness()
    sc = scenarios(pid, tier)
    to = 300 if tier == "quick" else 1500
    for name, s, invs, props, cons in sc["mc"]:
        eng.mc(name, s, invariants=invs, properties=props, constraints=cons, timeout=to)
    for name, s, props in sc.get("live", []):
        eng.liveness(name, s, props, timeout=to)
    for name, s, invs in sc.get("mc_band_b", []):
        eng.band = "B"
        eng.mc("bandB-" + name, s, invariants=invs, timeout=to)
        eng.band = "A"
    for trapname, s in TRAPS.get(pid, []):
        eng.trap(trapname, s)
    for name, s, num in sc["sim"]:
        eng.simulate(name, s, num)
    for name, s, runs in sc["rnd"]:
        eng.random(name, s, runs)
    for name, s, runs in sc.get("rnd_band_b", []):
        eng.band = "B"
        eng.random("bandB-" + name, s, runs)
        eng.band = "A"
    return eng.finish(t0, ASSUME["all"] + ASSUME[pid],
                      "one case = one complete execution of the real PDU loop under a controlled "
                      "schedule (TLC behaviour or seeded); distinct_nontrivial = number of distinct "
                      "(process, point, choice) sequences in which some process was pre-empted in the middle of an "
                      "operation")


def replay(pid, tier, path):
    """Re-execute a recorded violation schedule against the current tree and judge it again."""
    t0 = time.time()
    eng = Engine(pid, tier)
    eng.binary = lib.build_harness()
    rp = json.load(open(path))
    if not rp.get("steps"):
        raise lib.ToolError("replay file has no schedule")
    sched = os.path.join(eng.wd, "replay.ndjson")
    with open(sched, "w") as fh:
        fh.write(json.dumps({"cfg": rp["config"], "steps": rp["steps"], "seed": rp.get("run_seed") or 1,
                             "id": "replay"}) + "\n")
    sc = dict(rp["config"])
    eng.replay_and_validate(sched, sc, tag="replay")
    return eng.finish(t0, ASSUME["all"] + ASSUME[pid], "replay of one recorded schedule")
