"""Engine `framebuild`: C04 (FrameBuild.tla / FrameBuildMC / FrameBuildTrace + harness framebuild-*)."""
import json
import os
import time

from . import lib

KINDS = ["NOP", "APRD", "APWR", "FPRD", "FPWR", "BRD", "BWR", "LRD", "LWR", "LRW", "FRMW"]


def rec(d):
    parts = []
    for k, v in d.items():
        parts.append(f'{k} |-> "{v}"' if isinstance(v, str) else f"{k} |-> {v}")
    return "[" + ", ".join(parts) + "]"


def mc_module(name, caps, push_ops, rest_ops, max_ops):
    return f"""---- MODULE {name} ----
EXTENDS FrameBuildMC
MCCaps == {{{", ".join(str(c) for c in caps)}}}
MCPushOps == {{{", ".join(rec(o) for o in push_ops)}}}
MCRestOps == {{{", ".join(rec(o) for o in rest_ops)}}}
MCMaxOps == {max_ops}
====
"""


def configs(tier):
    q = tier == "quick"
    # A: every command kind, both address forms, capacity sweep around the 28-byte minimum
    a_push = [dict(k=k, addr=a, reg=r, dlen=dl, ovr=-1) for k in KINDS
              for (a, r) in [(1, 0x0130), (0xFFFF, 0x8001)] for dl in (0, 3)]
    a_rest = [dict(k="LRW", addr=0x10, reg=0, n=5)]
    # B: boundary arithmetic: several pushes, overrides below / equal / above, fill-the-rest 0..2*cap
    b_push = [dict(k="FPWR", addr=0x1001, reg=0x0120, dlen=dl, ovr=ov)
              for dl in (0, 1, 4, 9) for ov in (-1, 0, 4, 11)] + \
             [dict(k="LRW", addr=0, reg=1, dlen=dl, ovr=-1) for dl in (2, 16)]
    b_rest = [dict(k="LRW", addr=0x20, reg=0, n=n) for n in (0, 1, 6, 15, 40, 90)]
    return [
        ("kinds", [28, 30, 31, 44] if q else [28, 29, 30, 31, 40, 44, 64], a_push, a_rest, 2),
        ("bounds", [28, 33, 40, 44] if q else [28, 29, 32, 33, 36, 40, 41, 44, 56, 60], b_push, b_rest,
         3 if q else 4),
    ]


def run(pid, tier):
    t0 = time.time()
    wd = lib.scratch(f"{pid}-{tier}")
    binary = lib.build_harness()
    verdict = lib.Verdict(pid)
    states = transitions = 0
    mc_runs = []
    total_cases = 0
    accepted = 0
    samples = []
    distinct = set()
    exhaustive = True

    def validate(trace, tag):
        nonlocal total_cases, accepted, states, transitions, samples
        n = sum(1 for _ in open(trace))
        if n == 0:
            raise lib.ToolError(f"{tag}: harness produced no cases")
        cfg = lib.cfg_text(spec="TraceSpec", constants=dict(Caps="{28}", PushOps="{}", RestOps="{}", MaxOps=0),
                           postcondition="Report")
        d = os.path.join(wd, f"tv-{tag}")
        os.makedirs(d, exist_ok=True)
        r = lib.tlc(d, "FrameBuildTrace", cfg, workers=1, timeout=3000, env_extra={"TRACE": trace}, heap="6g")
        summ = [j for j in r.json if j.get("kind") == "SUMMARY"]
        if not summ or summ[0]["consumed"] != n:
            raise lib.ToolError(f"{tag}: trace validation did not consume the trace: {r.error or r.out[-600:]}")
        viols = [j for j in r.json if j.get("kind") == "VIOL"]
        states += r.distinct
        transitions += r.generated
        total_cases += n
        accepted += n - len(viols)
        lib.log(f"validate {tag}: {n} cases, {len(viols)} rejected ({r.wall:.0f}s)")
        cases = {}
        with open(trace) as fh:
            for line in fh:
                c = json.loads(line)
                key = (c["cap"], tuple((o["op"], o["k"], o.get("res"), len(o["data"]), o.get("ovr", -1)) for o in c["ops"]))
                distinct.add(key)
                if len(samples) < 3 and len(c["ops"]) >= 2:
                    samples.append({k: c[k] for k in ("id", "cap", "ops", "sent")})
                if viols:
                    cases[c["id"]] = c
        for v in viols[:50]:
            c = cases.get(v["case"])
            kind = v["errs"].split('"')[1] if '"' in v["errs"] else "mismatch"
            rp = lib.write_replay(pid, f"{tag}-{v['case']}", dict(
                property=pid, engine="framebuild", tier=tier, seed=lib.seed(), kind="case",
                case=c, violated=dict(errors=v["errs"]), signature=dict(kind=kind)))
            verdict.violation((kind,), rp, f"{tag} case {v['case']}: {v['errs'][:300]}")

    for name, caps, push_ops, rest_ops, max_ops in configs(tier):
        d = os.path.join(wd, f"mc-{name}")
        os.makedirs(d, exist_ok=True)
        mod = f"FBMC_{name}"
        with open(os.path.join(d, f"{mod}.tla"), "w") as fh:
            fh.write(mc_module(mod, caps, push_ops, rest_ops, max_ops))
        cfg = ("INIT FbInit\nNEXT FbNext\nCONSTANTS\n  Caps <- MCCaps\n  PushOps <- MCPushOps\n  RestOps <- MCRestOps\n"
               "  MaxOps <- MCMaxOps\nINVARIANTS NeverExceedsCapacity LengthFieldExact WellFormed Headers RefusedIffNoFit Emit\n"
               "CHECK_DEADLOCK FALSE\n")
        r = lib.tlc(d, mod, cfg, workers=8, timeout=1500)
        if r.error:
            raise lib.ToolError(f"MC {name}: {r.error}")
        states += r.distinct
        transitions += r.generated
        mc_runs.append(dict(name=name, caps=caps, push_ops=len(push_ops), rest_ops=len(rest_ops), max_ops=max_ops,
                            distinct=r.distinct, generated=r.generated, violated=r.violated, wall_s=round(r.wall, 1)))
        lib.log(f"MC {name}: {r.distinct} distinct, violated={r.violated} ({r.wall:.0f}s)")
        if r.violated:
            exhaustive = False
            verdict.divergences.append(dict(kind="model-invariant-violated", mc=name, invariant=r.violated))
            rp = lib.write_replay(pid, f"model-{name}", dict(property=pid, engine="framebuild", kind="model",
                                                              violated=r.violated, out=r.out[-3000:]))
            verdict.violation(("model", tuple(r.violated)), rp,
                              f"FrameBuild model violates {r.violated} (specification error or property unsatisfiable)")
            continue
        progs = [j for j in r.json if "ops" in j and "cap" in j]
        pfile = os.path.join(wd, f"progs-{name}.ndjson")
        with open(pfile, "w") as fh:
            for i, p in enumerate(progs):
                fh.write(json.dumps(dict(id=f"{name}-{i}", cap=p["cap"], ops=p["ops"], dirty=(i % 2 == 1))) + "\n")
        trace = os.path.join(wd, f"trace-{name}.ndjson")
        lib.run_harness(binary, ["framebuild-replay", pfile, trace, lib.seed()])
        validate(trace, f"mc-{name}")

    trace = os.path.join(wd, "trace-random.ndjson")
    lib.run_harness(binary, ["framebuild-random", lib.seed(), 1500 if tier == "quick" else 60000, trace])
    validate(trace, "random")

    cov = dict(states=max(states, 1), transitions=max(transitions, 1), traces_validated_against_impl=accepted,
               evaluations=total_cases, distinct_nontrivial=len(distinct),
               rule="one case = one push program executed on a real CreatedFrame and sent through SendableFrame::send_blocking; "
                    "distinct by (frame size, sequence of (operation, command kind, answer, data length, override))",
               samples=samples or [{"note": "none"}], model_checking_runs=mc_runs, exhaustive=exhaustive,
               conformance_divergences=verdict.divergences, known_findings_matched=verdict.known)
    lib.write_evidence(pid, tier, "model_checking", cov, [
        "The TLA+ operator Encode (FrameBuild.tla) is the independent encoder; payload bytes are seeded random.",
        "Datagram indices are taken from the handles the code returned (the property does not prescribe them).",
        "Frame sizes exercised: 28..64 and a table up to 1514 (const generics); above 2047+16 is outside the property.",
    ], time.time() - t0, len(verdict.violations))
    lib.cleanup(wd)
    return verdict.finish()


def replay(pid, tier, path):
    raise lib.ToolError("replay: re-run `bin/check C04`; cases are deterministic for a given seed")
