"""Shared machinery of the check driver: build, TLC runs, evidence, verdicts."""
import fcntl
import json
import os
import re
import shutil
import subprocess
import sys
import time

VERIF = os.path.dirname(os.path.dirname(os.path.abspath(__file__)))
SPEC = os.path.join(VERIF, "spec")
HARNESS = os.path.join(VERIF, "harness")
WORK = os.path.join(VERIF, "work")
REPLAYS = os.path.join(VERIF, "replays")
EVIDENCE = os.path.join(VERIF, "evidence")
KNOWN = os.path.join(VERIF, "known_findings.json")

TLC_JAR = "/opt/veriftools/tla/tla2tools.jar"
COMMUNITY = "/opt/veriftools/tla/CommunityModules-deps.jar"


class ToolError(Exception):
    pass


def log(*a):
    print("[check]", *a, file=sys.stderr, flush=True)


def seed():
    try:
        return int(os.environ.get("VERIF_SEED", "1"))
    except ValueError:
        return 1


def scratch(name):
    d = os.path.join(WORK, f"{name}-{os.getpid()}")
    shutil.rmtree(d, ignore_errors=True)
    os.makedirs(d)
    return d


def cleanup(d):
    if os.environ.get("VERIF_KEEP"):
        return
    shutil.rmtree(d, ignore_errors=True)


def harness_dir():
    """The harness workspace. Normally /verif/harness (path dependency on /repo). For experiments
    on a scratch worktree of the repository, VERIF_REPO=<dir> makes the checks use a private copy
    of the harness whose path dependencies point at <dir> (own target directory)."""
    repo = os.environ.get("VERIF_REPO")
    if not repo or os.path.abspath(repo) == "/repo":
        return HARNESS
    tag = re.sub(r"[^A-Za-z0-9]", "_", os.path.abspath(repo))
    dst = os.path.join(WORK, "harness" + tag)
    os.makedirs(dst, exist_ok=True)
    for root, dirs, files in os.walk(HARNESS):
        dirs[:] = [d for d in dirs if d != "target"]
        rel = os.path.relpath(root, HARNESS)
        os.makedirs(os.path.join(dst, rel), exist_ok=True)
        for f in files:
            src = os.path.join(root, f)
            out = os.path.join(dst, rel, f)
            data = open(src, "rb").read()
            if f == "Cargo.toml":
                data = data.replace(b'"/repo', b'"' + os.path.abspath(repo).encode())
            if not os.path.exists(out) or open(out, "rb").read() != data:
                open(out, "wb").write(data)
    return dst


def build_harness(profile="dev"):
    """Rebuild the harness against /repo's current working tree (hooks on). Serialised by a lock."""
    global HARNESS
    HARNESS = harness_dir()
    os.makedirs(WORK, exist_ok=True)
    lock = open(os.path.join(HARNESS, ".build.lock"), "w")
    fcntl.flock(lock, fcntl.LOCK_EX)
    try:
        env = dict(os.environ, CARGO_NET_OFFLINE="true", RUSTUP_TOOLCHAIN="1.88.0")
        cmd = ["cargo", "build", "--offline", "-q", "-p", "vharness"]
        if profile != "dev":
            cmd += ["--profile", profile]
        t0 = time.time()
        r = subprocess.run(cmd, cwd=HARNESS, env=env, capture_output=True, text=True)
        if r.returncode != 0:
            sys.stderr.write(r.stderr[-4000:])
            raise ToolError("harness / repository does not build with --cfg ethercrab_verif")
        log(f"harness built ({profile}) in {time.time() - t0:.1f}s")
    finally:
        fcntl.flock(lock, fcntl.LOCK_UN)
        lock.close()
    sub = "debug" if profile == "dev" else profile
    return os.path.join(HARNESS, "target", sub, "vharness")


def run_harness(binary, args, timeout=1800):
    r = subprocess.run([binary] + [str(a) for a in args], capture_output=True, text=True, timeout=timeout)
    if r.returncode != 0:
        sys.stderr.write(r.stderr[-4000:])
        raise ToolError(f"harness command failed: {args[0]} (exit {r.returncode})")
    return r


def cfg_text(spec=None, init=None, next_=None, constants=None, invariants=(), properties=(),
             constraints=(), view=None, postcondition=None, action_constraints=()):
    lines = []
    if spec:
        lines.append(f"SPECIFICATION {spec}")
    if init:
        lines.append(f"INIT {init}")
        lines.append(f"NEXT {next_}")
    if view:
        lines.append(f"VIEW {view}")
    if constants:
        lines.append("CONSTANTS")
        for k, v in constants.items():
            if isinstance(v, str) and v.startswith("<-"):
                lines.append(f"  {k} <- {v[2:].strip()}")
            else:
                lines.append(f"  {k} = {tla_value(v)}")
    if invariants:
        lines.append("INVARIANTS " + " ".join(invariants))
    if properties:
        lines.append("PROPERTIES " + " ".join(properties))
    for c in constraints:
        lines.append(f"CONSTRAINT {c}")
    for c in action_constraints:
        lines.append(f"ACTION_CONSTRAINT {c}")
    if postcondition:
        lines.append(f"POSTCONDITION {postcondition}")
    lines.append("CHECK_DEADLOCK FALSE")
    return "\n".join(lines) + "\n"


def tla_value(v):
    if isinstance(v, bool):
        return "TRUE" if v else "FALSE"
    if isinstance(v, int):
        return str(v)
    if isinstance(v, (set, frozenset)):
        return "{" + ", ".join(tla_value(x) for x in sorted(v)) + "}"
    if isinstance(v, (list, tuple)):
        return "<<" + ", ".join(tla_value(x) for x in v) + ">>"
    if isinstance(v, str):
        return v  # raw TLA+ text (model value / expression / quoted string supplied by caller)
    raise ValueError(v)


class TlcResult:
    def __init__(self, out, rc, wall):
        self.out = out
        self.rc = rc
        self.wall = wall
        m = re.findall(r"(\d[\d,]*) states generated(?: \([\d,]+ s/min\))?, (\d[\d,]*) distinct states found(?: \([\d,]+ ds/min\))?, (\d[\d,]*) states left", out)
        self.generated = int(m[-1][0].replace(",", "")) if m else 0
        self.distinct = int(m[-1][1].replace(",", "")) if m else 0
        self.left = int(m[-1][2].replace(",", "")) if m else 0
        self.violated = re.findall(r"Error: Invariant (\w+) is violated", out)
        self.violated += re.findall(r"Error: Action property (\w+) is violated", out)
        self.violated += ["<temporal>"] if "Temporal properties were violated" in out else []
        self.finished = "Model checking completed" in out or "states left on queue" in out
        self.error = None
        if not self.violated:
            m2 = re.search(r"Error: (.*)", out)
            if m2 and "violated" not in m2.group(1) and "behavior up to this point" not in m2.group(1):
                self.error = m2.group(1)
        self.json = []
        for line in out.splitlines():
            line = line.strip()
            if line.startswith('"{') and line.endswith('}"'):
                try:
                    self.json.append(json.loads(json.loads(line)))
                except Exception:
                    pass

    def hist(self):
        """The schedule stored in the last state of a counterexample (PduLoopMC.hist)."""
        i = self.out.rfind("/\\ hist = ")
        if i < 0:
            return None
        blk = self.out[i:]
        m = re.search(r"\n/\\ ", blk[5:])
        if m:
            blk = blk[: m.start() + 5]
        return [[int(a), int(b)] for a, b in re.findall(r"<<(-?\d+), (\d+)>>", blk)]

    def coverage(self):
        """Per-action counts from -coverage output: {action: (distinct, total)}"""
        cov = {}
        for m in re.finditer(r"<(\w+) line \d+, col \d+ to line \d+, col \d+ of module (\w+)>: (\d+):(\d+)", self.out):
            name = m.group(1)
            d, t = int(m.group(3)), int(m.group(4))
            a, b = cov.get(name, (0, 0))
            cov[name] = (a + d, b + t)
        return cov


def tlc(workdir, module, cfg, workers=8, timeout=900, simulate=None, env_extra=None, depth_first=False,
        coverage=False, continue_=False, heap="8g"):
    """Run TLC on spec/<module>.tla with the given cfg text inside workdir."""
    for f in os.listdir(SPEC):
        if f.endswith(".tla"):
            shutil.copy(os.path.join(SPEC, f), workdir)
    cfgp = os.path.join(workdir, f"{module}.cfg")
    with open(cfgp, "w") as fh:
        fh.write(cfg)
    # VERIF_SAVE_CFG=<dir>: keep a copy of every configuration a check runs (spec/cfg holds those of the quick tier,
    # so that the model-checking runs can be repeated by hand: tlc -config spec/cfg/<file> spec/<module>.tla)
    save = os.environ.get("VERIF_SAVE_CFG")
    if save:
        os.makedirs(save, exist_ok=True)
        tag = os.path.basename(workdir.rstrip("/"))
        with open(os.path.join(save, f"{module}--{tag}.cfg"), "w") as fh:
            fh.write(f"\\* TLC configuration used by bin/check (module {module}, run {tag}, workers {workers})\n" + cfg)
    md = os.path.join(workdir, "md")
    shutil.rmtree(md, ignore_errors=True)
    jopts = ["-Xss1g"]
    if depth_first:
        jopts.append("-Dtlc2.tool.queue.IStateQueue=StateDeque")
    cmd = ["java", f"-Xmx{heap}", "-XX:+UseParallelGC"] + jopts + ["-cp", f"{TLC_JAR}:{COMMUNITY}", "tlc2.TLC",
           "-workers", str(workers), "-metadir", md, "-cleanup", "-noGenerateSpecTE",
           "-config", cfgp]
    if simulate:
        cmd += ["-simulate", simulate[0], "-depth", str(simulate[1])]
        if len(simulate) > 2:
            cmd += ["-seed", str(simulate[2])]
    if coverage:
        cmd += ["-coverage", "1"]
    if continue_:
        cmd += ["-continue"]
    cmd.append(os.path.join(workdir, f"{module}.tla"))
    env = dict(os.environ)
    env.pop("JAVA_TOOL_OPTIONS", None)
    if env_extra:
        env.update(env_extra)
    t0 = time.time()
    try:
        r = subprocess.run(cmd, cwd=workdir, env=env, capture_output=True, text=True, timeout=timeout)
    except subprocess.TimeoutExpired as e:
        out = (e.stdout or b"").decode() if isinstance(e.stdout, bytes) else (e.stdout or "")
        res = TlcResult(out, 124, time.time() - t0)
        res.error = "timeout"
        shutil.rmtree(md, ignore_errors=True)
        return res
    shutil.rmtree(md, ignore_errors=True)
    res = TlcResult(r.stdout + r.stderr, r.returncode, time.time() - t0)
    if "Parsing or semantic analysis failed" in res.out or "***Parse Error***" in res.out:
        sys.stderr.write(res.out[-3000:])
        raise ToolError(f"TLA+ module {module} does not parse")
    return res


def find_community():
    global COMMUNITY
    if not os.path.exists(COMMUNITY):
        d = os.path.dirname(TLC_JAR)
        for f in os.listdir(d):
            if "ommunity" in f and f.endswith(".jar"):
                COMMUNITY = os.path.join(d, f)
                return
        COMMUNITY = ""


find_community()


def load_known():
    if not os.path.exists(KNOWN):
        return []
    return json.load(open(KNOWN))


def _exp_dir(default):
    """Experiments on a scratch worktree (VERIF_REPO) must not overwrite the evidence of /repo."""
    repo = os.environ.get("VERIF_REPO")
    if repo and os.path.abspath(repo) != "/repo":
        d = os.path.join(WORK, "exp" + re.sub(r"[^A-Za-z0-9]", "_", os.path.abspath(repo)), os.path.basename(default))
        os.makedirs(d, exist_ok=True)
        return d
    return default


def write_evidence(pid, tier, level, coverage, assumptions, wall, violations):
    global EVIDENCE
    EVIDENCE = _exp_dir(os.path.join(VERIF, "evidence"))
    os.makedirs(EVIDENCE, exist_ok=True)
    ev = {
        "property_id": pid,
        "tier": tier,
        "seed": seed(),
        "level": level,
        "coverage": coverage,
        "assumptions": assumptions,
        "wall_s": round(wall, 1),
        "violations": violations,
    }
    with open(os.path.join(EVIDENCE, f"{pid}.json"), "w") as fh:
        json.dump(ev, fh, indent=1, default=str)
        fh.write("\n")


def write_replay(pid, name, obj):
    global REPLAYS
    REPLAYS = _exp_dir(os.path.join(VERIF, "replays"))
    os.makedirs(REPLAYS, exist_ok=True)
    p = os.path.join(REPLAYS, f"{pid}-{name}.json")
    with open(p, "w") as fh:
        json.dump(obj, fh, indent=1, default=str)
        fh.write("\n")
    return p


class Verdict:
    """Collects violations / known findings / divergences of one check invocation."""

    def __init__(self, pid):
        self.pid = pid
        self.violations = []   # (signature, replay path, text)
        self.known = []        # texts
        self.notes = []
        self.divergences = []

    def violation(self, sig, replay, text):
        if not any(s == sig for s, _, _ in self.violations):
            self.violations.append((sig, replay, text))

    def known_finding(self, text):
        if text not in self.known:
            self.known.append(text)

    def finish(self):
        for t in self.known:
            print(f"KNOWN-FINDING: property={self.pid} {t}")
        for sig, replay, text in self.violations:
            print(f"VIOLATION property={self.pid} replay={replay}")
            print(f"  {text}")
        return 1 if self.violations else 0
