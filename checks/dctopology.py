"""Engine `dc` for C17 (DcTopology.tla / DcTopologyMC / DcTopologyTrace + vsim2 dc)."""
import json
import os
import random

from . import lib
from .simlib import SimCheck

FIXED = dict(FreeJunction=True, DcAncestor=True)


def limbs(v, n=4):
    return [(v >> (16 * i)) & 0xFFFF for i in range(n)]


def unl(x):
    return sum(v << (16 * i) for i, v in enumerate(x)) if isinstance(x, list) else x


def rand_tree(rnd, n):
    """Parent vector in frame-processing (depth-first) order; children occupy ports 3, 1, 2 in that order."""
    parent = [[-1, -1]]
    kids = {0: 0}
    path = [0]
    for i in range(1, n):
        # attach to a device on the current path that still has a free port
        cands = [d for d in path if kids[d] < 3]
        if not cands:
            break
        shape = rnd.random()
        p = cands[-1] if shape < 0.6 else rnd.choice(cands)
        port = [3, 1, 2][kids[p]]
        # single-child devices use port 1 (the usual "out" port) unless they become junctions later: keep simulator order
        kids[p] += 1
        parent.append([p, port])
        kids[i] = 0
        path = path[:path.index(p) + 1] + [i]
    return parent


def make_case(cid, rnd, q):
    n = rnd.choice([1, 2, 3, 4, 5, 6, 8, rnd.randint(1, 16), rnd.randint(1, 24), 24])
    chain = rnd.random() < 0.35
    if chain:
        parent = [[-1, -1]] + [[i - 1, 1] for i in range(1, n)]
    else:
        parent = rand_tree(rnd, n)
        n = len(parent)
        # a device with one child has it on port 1
        cnt = {}
        for p in parent[1:]:
            cnt[p[0]] = cnt.get(p[0], 0) + 1
        for p in parent[1:]:
            if cnt[p[0]] == 1:
                p[1] = 1
    equal_fwd = rnd.random() < 0.6
    f0 = rnd.choice([0, 40, 300, rnd.randint(0, 1000)])
    devs = []
    for i in range(n):
        dc = rnd.choice(["dc64", "dc64", "dc64", "dc32", "none"]) if rnd.random() < 0.5 else "dc64"
        kind = "coupler" if rnd.random() < 0.2 else "dio"
        devs.append(dict(dc=dc, fwd_delay_ns=f0 if equal_fwd else rnd.randint(0, 1000), tag=i + 1, kind=kind))
    near_wrap = rnd.random() < 0.25
    base = (1 << 32) - rnd.randint(0, 20000) if near_wrap else rnd.randint(0, 1 << 40)
    return dict(id=cid, devices=devs, parent=parent, link_delay_ns=[rnd.randint(10, 2000) for _ in range(n)],
                now_ns=limbs(rnd.choice([0, rnd.randint(0, 1 << 62), (1 << 64) - rnd.randint(1, 1000)])),
                clock_offsets_ns=[limbs(rnd.choice([0, base, base + rnd.randint(0, 5000), rnd.randint(0, (1 << 64) - 1)])) for _ in range(n)],
                epoch_ns=limbs(rnd.choice([0, rnd.randint(0, 1 << 40)])), chain=chain, equal_fwd=equal_fwd)


def raw_case(cid, rnd):
    n = rnd.randint(1, 6)
    devs = []
    for i in range(n):
        ports = rnd.choice([0b0000, 0b0001, 0b0011, 0b0111, 0b1111, 0b1000, 0b0101, rnd.randint(0, 15)])
        dl = 0x0003 | (ports << 4) | (rnd.randint(0, 255) << 8)
        times = [limbs(rnd.choice([0, 1, 100, 5000, (1 << 31) - 5, rnd.randint(0, 1 << 20)]), 2) for _ in range(4)]
        devs.append(dict(dc=rnd.choice(["dc64", "dc64", "dc32", "none"]), fwd_delay_ns=40, tag=i + 1, dl_status=dl, port_times=times))
    return dict(id=cid, op="raw_ports", devices=devs, parent=[[-1, -1]] + [[i - 1, 1] for i in range(1, n)],
                link_delay_ns=[100] * n, now_ns=limbs(rnd.randint(0, 1 << 40)), clock_offsets_ns=[limbs(0)] * n, epoch_ns=limbs(0))


POS = [0, 3, 1, 2]      # EtherCAT processing order: positions 1..4 hold ports 0, 3, 1, 2


def project(c):
    case = c["case"]
    raw = case.get("op") == "raw_ports"
    res = c.get("result", "none")
    out = dict(case=dict(id=case["id"]), result=res, detail=str(c.get("panic", ""))[:200], tree=not raw, modelled=False, devs=[],
               obs=[], now=case.get("now_ns", limbs(0)), dc_ref=c.get("dc_ref", -1), chain=bool(case.get("chain")),
               equal_fwd=bool(case.get("equal_fwd")), ndev=len(case["devices"]))
    if "devices" not in c:
        return out
    devs, obs, big = [], [], False
    seen_non_dc_after_ref = False
    ref_seen = False
    for d in c["devices"]:
        dl = d["dl_status"]
        open_by_port = [bool(dl & (1 << (4 + p))) for p in range(4)]
        t_by_port = [unl(x) for x in d["latched"]]
        dc = d["dc_kind"] in ("dc32", "dc64")
        if not dc:
            t_by_port = [0, 0, 0, 0]
        # the 32-bit counters may wrap between two ports of one device: unwrap relative to the first open port (the
        # times of one frame lie within 2^31 ns of each other), then translate so that the smallest is 0
        first_open = next((p for p in range(4) if open_by_port[p]), 0)
        base = t_by_port[first_open]
        rel = [((t - base + (1 << 31)) % (1 << 32)) - (1 << 31) if open_by_port[p] else 0 for p, t in enumerate(t_by_port)]
        m = min([r for p, r in enumerate(rel) if open_by_port[p]] or [0])
        t_norm = [r - m if open_by_port[p] else 0 for p, r in enumerate(rel)]
        if max(t_norm) >= (1 << 29):          # sums of three differences must stay below 2^31 in TLC
            big = True
        devs.append(dict(open=[open_by_port[p] for p in POS], times=[t_norm[p] for p in POS], dc=dc))
        if dc:
            ref_seen = True
        obs.append(dict(dc=dc, dc64=d["dc_kind"] == "dc64", delay=min(unl(d["reg_0928"]), (1 << 31) - 1), offset=d["reg_0920"],
                        rx_time=d["rx_time_0918"], station=d["station"], true_parent=d["true_parent"] + 1,
                        true_delay=unl(d["true_delay_ns"]), before_ref=bool(d["before_ref"]),
                        dc_path=not seen_non_dc_after_ref))
        if ref_seen and not dc:
            seen_non_dc_after_ref = True
    out.update(devs=devs, obs=obs, modelled=not big)
    return out


class DcCheck(SimCheck):
    def known_applies(self, kf, rec):
        return True


def run(pid, tier):
    q = tier == "quick"
    sc = DcCheck(pid, tier, "dc")
    rnd = random.Random(lib.seed())
    inv = ["Accepted", "ParentRight", "Monotone", "ChainExact", "ChainExactMixed"]
    for name, consts in (("all-dc", dict(MaxN=4 if q else 5, Links={10, 30}, Fwds={0, 4}, AllDc=True)),
                         ("mixed-dc", dict(MaxN=3 if q else 4, Links={10, 30}, Fwds={0, 4}, AllDc=False))):
        consts = dict(consts, **FIXED)
        cfg = lib.cfg_text(spec="McSpec", constants=consts, invariants=inv)
        sc.mc(f"dctopology-{name}", "DcTopologyMC", cfg, workers=8, timeout=3000)
    cases = [make_case(f"t{i}", rnd, q) for i in range(250 if q else 6000)]
    cases += [raw_case(f"x{i}", rnd) for i in range(80 if q else 2500)]
    raw = sc.run_cases("dc", cases, binary="vsim2")
    trace = os.path.join(sc.wd, "dc.proj.ndjson")
    wrap_cases = []
    with open(raw) as fi, open(trace, "w") as fo:
        for line in fi:
            c = json.loads(line)
            fo.write(json.dumps(project(c)) + "\n")
            # second pass for a part of the trees: the simulation is deterministic, so shifting every device's clock by
            # what its port 0 latched puts the next run's port 0 time just before the 32-bit wrap
            if c.get("result") == "ok" and c["case"].get("op") != "raw_ports" and len(wrap_cases) < (60 if q else 1500):
                c2 = dict(c["case"])
                c2["id"] = c2["id"] + "w"
                offs = []
                for k, d in enumerate(c["devices"]):
                    off = unl(c["case"]["clock_offsets_ns"][k])
                    delta = ((1 << 32) - rnd.randint(0, 4000) - unl(d["latched"][0])) % (1 << 32)
                    offs.append(limbs((off + delta) % (1 << 64)))
                c2["clock_offsets_ns"] = offs
                wrap_cases.append(c2)
    if wrap_cases:
        raw2 = sc.run_cases("dc-wrap", wrap_cases, binary="vsim2")
        with open(raw2) as fi, open(trace, "a") as fo:
            for line in fi:
                fo.write(json.dumps(project(json.loads(line))) + "\n")
    sc.validate("dc", trace, "DcTopologyTrace", dict(FIXED), constraints=("Judge",),
                key_fn=lambda c: (c["tree"], c["ndev"], c["result"], c["chain"], tuple(tuple(d["open"]) for d in c["devs"]),
                                  tuple(d["dc"] for d in c["devs"])),
                sample_fn=lambda c: c["tree"] and c["ndev"] == 4)
    return sc.finish(
        "one case = one simulated tree (or set of devices with arbitrary port reports) initialised by the real MainDevice; "
        "distinct by (shape as open-port pattern, DC mix, size, result)",
        ["A second pass re-runs part of the trees with every device's clock shifted so that its port 0 latches within 4 us "
         "before the 32-bit wrap (the simulation is deterministic).",
         "Port times are unwrapped relative to the first open port and translated per device by their minimum before they reach TLC (the algorithm only compares and "
         "subtracts times of one device); cases whose translated times exceed 2^31 are judged by the monitor only.",
         "Chain exactness is judged where the simulated forwarding delays are equal (with unequal ones the round trip is not "
         "symmetric and no master can measure the one-way delay).",
         "Delays on forks and crosses are compared with the model's formulas (the property does not demand the physical value)."])


def replay(pid, tier, path):
    """Re-run the check that produced the replay file with its recorded seed and tier (the generators are seeded, so the
    same cases are produced) and judge again."""
    import json as _json
    rp = _json.load(open(path))
    os.environ["VERIF_SEED"] = str(rp.get("seed", 1))
    return run(pid, rp.get("tier", tier))
