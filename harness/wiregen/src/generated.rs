pub fn cases() -> Vec<Box<dyn crate::Case>> {
    Vec::new()
}
