//! Driver for wire types generated from TLC layouts (C19). `generated.rs` is rewritten by
//! checks/wirelayout.py on every run; each generated type implements `Case`.
#![allow(non_camel_case_types, dead_code, unused_variables, unused_mut, clippy::all)]

mod generated;
mod incrate;

use serde_json::{Value, json};
use std::io::Write;
use std::panic::{AssertUnwindSafe, catch_unwind};

pub struct Rng(pub u64);

impl Rng {
    pub fn next_u64(&mut self) -> u64 {
        let mut x = self.0;
        x ^= x >> 12;
        x ^= x << 25;
        x ^= x >> 27;
        self.0 = x;
        x.wrapping_mul(0x2545F4914F6CDD1D)
    }
    pub fn below(&mut self, n: u64) -> u64 {
        if n == 0 { 0 } else { (self.next_u64() >> 16) % n }
    }
    pub fn bytes(&mut self, n: usize) -> Vec<u8> {
        (0..n).map(|_| (self.next_u64() >> 24) as u8).collect()
    }
}

pub fn guarded<T>(f: impl FnOnce() -> T) -> Result<T, String> {
    catch_unwind(AssertUnwindSafe(f)).map_err(|e| {
        e.downcast_ref::<&str>().map(|s| s.to_string())
            .or_else(|| e.downcast_ref::<String>().cloned()).unwrap_or_else(|| "panic".into())
    })
}

pub fn bv(b: Vec<u8>) -> Value {
    Value::Array(b.into_iter().map(|x| Value::from(x)).collect())
}

pub fn tagv(kind: &str, n: u64) -> Value {
    Value::Array(vec![Value::from(kind), Value::from(n)])
}

pub struct Sample {
    pub vals: Value,
    pub packed: Result<Vec<u8>, String>,
    pub short: Result<Result<usize, ()>, String>,
    pub long: Result<(Result<usize, ()>, Vec<u8>), String>,
    pub rt: bool,
}

pub trait Case {
    fn name(&self) -> &'static str;
    fn meta(&self) -> &'static str;
    fn plen(&self) -> usize;
    fn blen(&self) -> usize;
    fn sample(&self, rng: &mut Rng, canon: bool) -> Sample;
    fn unpack(&self, buf: &[u8]) -> Result<Result<Value, ()>, String>;
}

fn run_case(c: &dyn Case, rng: &mut Rng, samples: usize, out: &mut Vec<String>) {
    let meta: Value = serde_json::from_str(c.meta()).unwrap();
    let plen = c.plen();
    out.push(json!({"id": c.name(), "op": "buffer", "plen": plen, "item": 0, "n": 0, "buflen": c.blen()}).to_string());
    for s in 0..samples {
        let canon = s % 3 != 2;
        let id = format!("{}-{s}", c.name());
        let smp = c.sample(rng, canon);
        let mut ev = json!({"id": id, "op": "pack", "L": meta["L"], "E": meta["E"], "vals": smp.vals, "plen": plen});
        match &smp.packed {
            Ok(p) => {
                ev["res"] = json!("ok");
                ev["packed"] = bv(p.clone());
                ev["short"] = json!(match &smp.short {
                    Ok(Err(_)) => "err".to_string(),
                    Ok(Ok(n)) => format!("ok:{n}"),
                    Err(m) => format!("panic:{m}"),
                });
                ev["long"] = json!(match &smp.long {
                    Ok((Ok(n), b)) => {
                        if *n != plen { format!("len:{n}") }
                        else if b[..plen] != p[..] { "prefix-differs".to_string() }
                        else if b[plen..].iter().any(|x| *x != 0xA5) { "tail-touched".to_string() }
                        else { "ok".to_string() }
                    }
                    Ok((Err(_), _)) => "err".to_string(),
                    Err(m) => format!("panic:{m}"),
                });
            }
            Err(m) => {
                ev["res"] = json!(format!("panic:{m}"));
                ev["packed"] = json!([]);
                ev["short"] = json!("err");
                ev["long"] = json!("ok");
            }
        }
        out.push(ev.to_string());
        if canon && smp.packed.is_ok() {
            out.push(json!({"id": id, "op": "roundtrip", "rt": smp.rt}).to_string());
        }
        for variant in 0..3 {
            let len = match variant { 0 => plen + rng.below(4) as usize, 1 => plen, _ => rng.below(plen as u64) as usize };
            let buf = match rng.below(4) { 0 => vec![0u8; len], 1 => vec![0xffu8; len], _ => rng.bytes(len) };
            let mut ev = json!({"id": format!("{}-{s}-u{variant}", c.name()), "op": "unpack", "L": meta["L"], "E": meta["E"], "buf": bv(buf.clone())});
            match c.unpack(&buf) {
                Ok(Ok(fields)) => { ev["res"] = json!("ok"); ev["fields"] = fields; }
                Ok(Err(_)) => { ev["res"] = json!("err"); ev["fields"] = json!([]); }
                Err(_) => { ev["res"] = json!("panic"); ev["fields"] = json!([]); }
            }
            out.push(ev.to_string());
        }
    }
}

/// Arrays of primitive items: the scratch buffer the crate hands out for the type holds its packed form, and
/// decoding takes the items from consecutive little-endian positions.
macro_rules! array_case {
    ($out:expr, $rng:expr, $ty:ty, $n:literal) => {{
        type A = [$ty; $n];
        let name = format!("[{}; {}]", stringify!($ty), $n);
        let plen = <A as ethercrab_wire::EtherCrabWireSized>::PACKED_LEN;
        let buflen = guarded(|| <A as ethercrab_wire::EtherCrabWireSized>::buffer().as_ref().len());
        $out.push(
            json!({"id": name, "op": "buffer", "plen": plen, "item": core::mem::size_of::<$ty>(), "n": $n,
                   "buflen": match buflen { Ok(n) => n as i64, Err(_) => -1 }})
            .to_string(),
        );
        for variant in 0..3 {
            let len = match variant { 0 => plen + $rng.below(4) as usize, 1 => plen, _ => $rng.below(plen as u64) as usize };
            let buf = $rng.bytes(len);
            let r = guarded(|| <A as ethercrab_wire::EtherCrabWireRead>::unpack_from_slice(&buf));
            let (res, flat) = match r {
                Ok(Ok(a)) => ("ok", a.iter().flat_map(|x| x.to_le_bytes()).collect::<Vec<u8>>()),
                Ok(Err(_)) => ("err", vec![]),
                Err(_) => ("panic", vec![]),
            };
            $out.push(
                json!({"id": format!("{name}-u{variant}"), "op": "array_unpack", "plen": plen, "buf": bv(buf), "res": res, "flat": bv(flat)})
                    .to_string(),
            );
        }
    }};
}

fn array_cases(rng: &mut Rng, out: &mut Vec<String>) {
    array_case!(out, rng, u8, 1);
    array_case!(out, rng, u8, 6);
    array_case!(out, rng, i8, 3);
    array_case!(out, rng, u16, 1);
    array_case!(out, rng, u16, 4);
    array_case!(out, rng, i16, 5);
    array_case!(out, rng, u32, 3);
    array_case!(out, rng, i32, 2);
    array_case!(out, rng, u64, 2);
    array_case!(out, rng, i64, 3);
    array_case!(out, rng, f32, 2);
    array_case!(out, rng, f64, 2);
}

fn main() {
    let args: Vec<String> = std::env::args().collect();
    let seed: u64 = args[1].parse().unwrap();
    let samples: usize = args[2].parse().unwrap();
    std::panic::set_hook(Box::new(|_| {}));
    let mut out = std::io::BufWriter::new(std::fs::File::create(&args[3]).unwrap());
    let mut rng = Rng(seed ^ 0x9E3779B97F4A7C15);
    let mut lines: Vec<String> = Vec::new();
    for c in generated::cases() {
        run_case(c.as_ref(), &mut rng, samples, &mut lines);
    }
    array_cases(&mut rng, &mut lines);
    incrate::run(&mut rng, &mut lines);
    for l in lines {
        writeln!(out, "{l}").unwrap();
    }
    out.flush().unwrap();
}
