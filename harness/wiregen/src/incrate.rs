pub fn run(_rng: &mut crate::Rng, _out: &mut Vec<String>) {}
