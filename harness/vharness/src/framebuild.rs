//! Engine `framebuild` (C04): executes push programs on a real `CreatedFrame` and records the
//! answer of every push and the exact bytes handed to the send closure.

use crate::rng::Rng;
use ethercrab::{Command, PduStorage, Reads, Writes};
use serde_json::{Value, json};
use std::io::Write;
use std::panic::{AssertUnwindSafe, catch_unwind};
use std::time::Duration;

#[derive(serde::Deserialize, Clone)]
pub struct Op {
    pub op: String,
    pub k: String,
    pub addr: u32,
    pub reg: u32,
    #[serde(default)]
    pub dlen: usize,
    #[serde(default = "minus1")]
    pub ovr: i64,
    #[serde(default)]
    pub n: usize,
}

fn minus1() -> i64 {
    -1
}

#[derive(serde::Deserialize, Clone)]
pub struct Program {
    #[serde(default)]
    pub id: String,
    pub cap: usize,
    pub ops: Vec<Op>,
    /// Run the program in a slot that has been used before: a frame filling the whole buffer was
    /// sent, answered with all ones (data and working counter) and released.
    #[serde(default)]
    pub dirty: bool,
}

pub fn command(k: &str, addr: u32, reg: u32) -> Command {
    let a = addr as u16;
    let r = reg as u16;
    let a32 = (reg << 16) | (addr & 0xffff);
    match k {
        "NOP" => Command::Nop,
        "APRD" => Command::aprd(a, r).into(),
        "APWR" => Command::apwr(a, r).into(),
        "FPRD" => Command::fprd(a, r).into(),
        "FPWR" => Command::fpwr(a, r).into(),
        "BRD" => Command::brd(r).into(),
        "BWR" => Command::bwr(r).into(),
        "LRD" => Command::Read(Reads::Lrd { address: a32 }),
        "LWR" => Command::Write(Writes::Lwr { address: a32 }),
        "LRW" => Command::Write(Writes::Lrw { address: a32 }),
        "FRMW" => Command::frmw(a, r).into(),
        _ => panic!("unknown command kind {k}"),
    }
}

fn run_case<const CAP: usize>(p: &Program, rng: &mut Rng) -> Value {
    let storage: &'static PduStorage<1, CAP> = Box::leak(Box::new(PduStorage::new()));
    let (mut tx, mut rx, pl) = storage.try_split().unwrap();
    let pl: &'static _ = Box::leak(Box::new(pl));
    let mut ops_out = Vec::new();
    if p.dirty {
        // first use of the (only) slot: leave non-zero bytes everywhere a frame can reach
        let mut first = pl.verif_alloc_frame().expect("alloc");
        let fill = vec![0xEEu8; CAP];
        let _ = first.verif_push_pdu_slice_rest(command("LRW", 0, 0), &fill);
        let fut = first.verif_mark_sendable(pl, Duration::from_secs(1000), 0);
        let mut reply: Vec<u8> = Vec::new();
        if let Some(f) = tx.next_sendable_frame() {
            let _ = f.send_blocking(|b| {
                reply = b.to_vec();
                Ok(b.len())
            });
        }
        // the answer: another source address, data and working counter all ones
        if reply.len() > 26 {
            reply[6..12].copy_from_slice(&[0x12, 0x10, 0x10, 0x10, 0x10, 0x10]);
            for b in reply[26..].iter_mut() {
                *b = 0xFF;
            }
            let _ = rx.receive_frame(&reply);
        }
        let mut fut = std::pin::pin!(fut);
        let mut cx = std::task::Context::from_waker(std::task::Waker::noop());
        let _ = std::future::Future::poll(fut.as_mut(), &mut cx);
    }
    let mut frame = pl.verif_alloc_frame().expect("alloc");
    let mut any = false;
    for o in &p.ops {
        if o.op == "push" {
            let data = rng.bytes(o.dlen);
            let ovr = if o.ovr < 0 { None } else { Some(o.ovr as u16) };
            let r = frame.push_pdu(command(&o.k, o.addr, o.reg), data.as_slice(), ovr);
            let mut j = json!({"op": "push", "k": o.k, "addr": o.addr, "reg": o.reg, "ovr": o.ovr, "data": data});
            match r {
                Ok(h) => {
                    any = true;
                    j["res"] = json!("ok");
                    j["idx"] = json!(h.pdu_idx);
                    j["alloc"] = json!(h.alloc_size);
                }
                Err(e) => {
                    j["res"] = json!(if matches!(e, ethercrab::error::PduError::TooLong) { "toolong" } else { "error" });
                    j["idx"] = json!(0);
                }
            }
            ops_out.push(j);
        } else {
            let data = rng.bytes(o.n);
            let r = frame.verif_push_pdu_slice_rest(command(&o.k, o.addr, o.reg), &data);
            let mut j = json!({"op": "rest", "k": o.k, "addr": o.addr, "reg": o.reg, "data": data});
            match r {
                Ok(Some((took, h))) => {
                    any = true;
                    j["res"] = json!("some");
                    j["took"] = json!(took);
                    j["idx"] = json!(h.pdu_idx);
                }
                Ok(None) => {
                    j["res"] = json!("none");
                    j["took"] = json!(0);
                    j["idx"] = json!(0);
                }
                Err(_) => {
                    j["res"] = json!("error");
                    j["took"] = json!(0);
                    j["idx"] = json!(0);
                }
            }
            ops_out.push(j);
        }
    }
    let mut sent: Vec<u8> = Vec::new();
    let mut send_len = 0usize;
    if any {
        let fut = frame.verif_mark_sendable(pl, Duration::from_millis(1), 0);
        if let Some(f) = tx.next_sendable_frame() {
            send_len = f.len();
            let _ = f.send_blocking(|b| {
                sent = b.to_vec();
                Ok(b.len())
            });
        }
        drop(fut);
    } else {
        drop(frame);
    }
    json!({"id": p.id, "cap": p.cap, "ops": ops_out, "sent": sent, "send_len": send_len, "marked": any, "dirty": p.dirty})
}

macro_rules! dispatch {
    ($p:expr, $rng:expr, $($n:literal)*) => {
        match $p.cap {
            $($n => run_case::<$n>($p, $rng),)*
            c => panic!("unsupported frame size {c}"),
        }
    };
}

pub const CAPS: &[usize] = &[
    28, 29, 30, 31, 32, 33, 34, 35, 36, 37, 38, 39, 40, 41, 42, 43, 44, 45, 46, 47, 48, 49, 50, 51, 52, 53, 54,
    55, 56, 57, 58, 59, 60, 61, 62, 63, 64, 72, 80, 96, 127, 128, 129, 256, 511, 512, 1024, 1100, 1499, 1500,
    1513, 1514,
];

fn run(p: &Program, rng: &mut Rng) -> Value {
    dispatch!(p, rng, 28 29 30 31 32 33 34 35 36 37 38 39 40 41 42 43 44 45 46 47 48 49 50 51 52 53 54
        55 56 57 58 59 60 61 62 63 64 72 80 96 127 128 129 256 511 512 1024 1100 1499 1500 1513 1514)
}

fn run_guarded(p: &Program, rng: &mut Rng) -> Value {
    match catch_unwind(AssertUnwindSafe(|| run(p, rng))) {
        Ok(v) => v,
        Err(e) => {
            let msg = e.downcast_ref::<&str>().map(|s| s.to_string())
                .or_else(|| e.downcast_ref::<String>().cloned()).unwrap_or_else(|| "panic".into());
            json!({"id": p.id, "cap": p.cap, "ops": [], "sent": [], "send_len": 0, "marked": false, "panic": msg})
        }
    }
}

/// Execute programs given as NDJSON.
pub fn replay(input: &str, output: &str, seed: u64) -> std::io::Result<()> {
    let text = std::fs::read_to_string(input)?;
    let mut out = std::io::BufWriter::new(std::fs::File::create(output)?);
    let mut rng = Rng::new(seed);
    for (i, line) in text.lines().enumerate() {
        if line.trim().is_empty() {
            continue;
        }
        let mut p: Program = serde_json::from_str(line).expect("bad program");
        if p.id.is_empty() {
            p.id = format!("p{i}");
        }
        let v = run_guarded(&p, &mut rng);
        if v["marked"] == json!(true) || v.get("panic").is_some() {
            writeln!(out, "{v}")?;
        }
    }
    out.flush()
}

const KINDS: &[&str] = &["NOP", "APRD", "APWR", "FPRD", "FPWR", "BRD", "BWR", "LRD", "LWR", "LRW", "FRMW"];

/// Seeded programs over every supported frame size, lengths centred on the space that is left.
pub fn random(seed: u64, cases: usize, output: &str) -> std::io::Result<()> {
    let mut out = std::io::BufWriter::new(std::fs::File::create(output)?);
    let mut rng = Rng::new(seed);
    let mut n = 0;
    while n < cases {
        let cap = *rng.pick(CAPS);
        let mut room = cap as i64 - 16;
        let nops = 1 + rng.below(5) as usize;
        let mut ops = Vec::new();
        for _ in 0..nops {
            let k = rng.pick(KINDS).to_string();
            let addr = if rng.chance(1, 4) { *rng.pick(&[0u32, 1, 0xffff, 0x8000]) } else { rng.below(65536) as u32 };
            let reg = if rng.chance(1, 4) { *rng.pick(&[0u32, 0xffff, 0x0130]) } else { rng.below(65536) as u32 };
            let space = (room - 12).max(0) as usize;
            if rng.chance(1, 3) {
                let nbytes = match rng.below(5) {
                    0 => 0,
                    1 => space,
                    2 => space + 1 + rng.below(2 * cap as u64) as usize,
                    3 => space.saturating_sub(1),
                    _ => rng.below(2 * cap as u64 + 1) as usize,
                };
                let took = if nbytes == 0 || space == 0 { 0 } else { nbytes.min(space) };
                if took > 0 {
                    room -= 12 + took as i64;
                }
                ops.push(Op { op: "rest".into(), k, addr, reg, dlen: 0, ovr: -1, n: nbytes });
            } else {
                let dlen = match rng.below(6) {
                    0 => 0,
                    1 => space,
                    2 => space + 1,
                    3 => space.saturating_sub(1),
                    4 => rng.below(9) as usize,
                    _ => rng.below(space as u64 + 3) as usize,
                };
                let ovr: i64 = match rng.below(5) {
                    0 => dlen as i64,
                    1 => dlen as i64 + 1 + rng.below(4) as i64,
                    2 => (dlen as i64 - 1).max(0),
                    _ => -1,
                };
                let decl = if ovr > dlen as i64 { ovr as usize } else { dlen };
                if 12 + decl as i64 <= room {
                    room -= 12 + decl as i64;
                }
                ops.push(Op { op: "push".into(), k, addr, reg, dlen, ovr, n: 0 });
            }
        }
        let p = Program { id: format!("r{n}"), cap, ops, dirty: rng.chance(1, 3) };
        let v = run_guarded(&p, &mut rng);
        if v["marked"] == json!(true) || v.get("panic").is_some() {
            writeln!(out, "{v}")?;
            n += 1;
        }
    }
    out.flush()
}
