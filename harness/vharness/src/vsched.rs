//! Token-passing scheduler over OS threads plus the virtual `embassy-time` driver.
//!
//! Every specification process is one OS thread. Exactly one thread holds the run token; at every
//! `ethercrab::verif::point(..)` (and at every harness-level decision point) the running thread
//! publishes where it is, returns the token to the driver and blocks. The hand-off is a
//! mutex/condvar pair, so all cross-thread accesses are ordered by happens-before edges: the real
//! code sees exactly the sequentially consistent interleaving the driver chooses.

use ethercrab::verif::Site;
use std::cell::Cell;
use std::panic::{AssertUnwindSafe, catch_unwind};
use std::sync::atomic::{AtomicBool, AtomicU64, Ordering};
use std::sync::{Arc, Condvar, Mutex, RwLock};
use std::task::{Wake, Waker};

pub const MAX_PROCS: usize = 8;

/// Where a process is parked: the access (or harness decision) it is about to perform.
#[derive(Clone, Debug, PartialEq)]
pub enum Point {
    Hook { site: Site, slot: u8, a: u32, b: u32 },
    Harness { name: &'static str },
}

impl Point {
    pub fn name(&self) -> &'static str {
        match self {
            Point::Hook { site, .. } => site_name(*site),
            Point::Harness { name } => name,
        }
    }
}

pub fn site_name(s: Site) -> &'static str {
    match s {
        Site::AllocFetch => "AllocFetch",
        Site::SwapState => "SwapState",
        Site::SetState => "SetState",
        Site::InitMeta => "InitMeta",
        Site::BufBegin => "BufBegin",
        Site::BufEnd => "BufEnd",
        Site::PduIdxFetch => "PduIdxFetch",
        Site::FpSet => "FpSet",
        Site::FpClear => "FpClear",
        Site::FpLoad => "FpLoad",
        Site::RegWaker => "RegWaker",
        Site::Wake => "Wake",
        Site::WakeTx => "WakeTx",
        Site::TimerPoll => "TimerPoll",
        Site::Reset => "Reset",
        Site::RegTxWaker => "RegTxWaker",
        Site::StLoad => "StLoad",
    }
}

#[derive(Clone, Copy, PartialEq, Debug)]
enum Turn {
    Driver,
    Proc(usize),
}

struct State {
    turn: Turn,
    parked: Vec<Option<Point>>,
    finished: Vec<bool>,
    panicked: Vec<Option<String>>,
    choice: u64,
    /// Extra records produced by the running process during its step.
    extra: Vec<serde_json::Value>,
    /// Process currently being unwound by `shutdown`.
    shutdown: Option<usize>,
}

pub struct Sched {
    m: Mutex<State>,
    cv: Condvar,
    handles: Mutex<Vec<(usize, std::thread::JoinHandle<()>)>>,
}

thread_local! {
    static PID: Cell<usize> = const { Cell::new(usize::MAX) };
    static LASTC: Cell<u64> = const { Cell::new(0) };
}

/// The driver's choice for the step the calling process thread is currently executing.
pub fn last_choice() -> u64 {
    LASTC.with(|c| c.get())
}

static CUR: RwLock<Option<Arc<Sched>>> = RwLock::new(None);

/// Per-process virtual clocks (microsecond ticks) and the global clock used when no process id is
/// set (sequential engines).
static CLOCKS: [AtomicU64; MAX_PROCS] = [const { AtomicU64::new(0) }; MAX_PROCS];
pub static GCLOCK: AtomicU64 = AtomicU64::new(0);
static TIMERS: Mutex<Vec<(usize, u64, Waker)>> = Mutex::new(Vec::new());

pub static WOKEN: [AtomicBool; MAX_PROCS] = [const { AtomicBool::new(false) }; MAX_PROCS];

pub fn current_pid() -> Option<usize> {
    let p = PID.with(|p| p.get());
    if p == usize::MAX { None } else { Some(p) }
}

struct Unwind;

fn hook(site: Site, slot: u8, a: u32, b: u32) {
    if let Some(pid) = current_pid() {
        let s = CUR.read().unwrap().clone();
        if let Some(s) = s {
            s.park(pid, Point::Hook { site, slot, a, b });
        }
    }
}

impl Sched {
    pub fn install(nprocs: usize) -> Arc<Sched> {
        let s = Arc::new(Sched {
            m: Mutex::new(State {
                turn: Turn::Driver,
                parked: vec![None; nprocs],
                finished: vec![false; nprocs],
                panicked: vec![None; nprocs],
                choice: 0,
                extra: Vec::new(),
                shutdown: None,
            }),
            cv: Condvar::new(),
            handles: Mutex::new(Vec::new()),
        });
        for c in CLOCKS.iter() {
            c.store(0, Ordering::SeqCst);
        }
        GCLOCK.store(0, Ordering::SeqCst);
        TIMERS.lock().unwrap().clear();
        for w in WOKEN.iter() {
            w.store(false, Ordering::SeqCst);
        }
        *CUR.write().unwrap() = Some(s.clone());
        ethercrab::verif::set_hook(Some(hook));
        s
    }

    pub fn uninstall() {
        ethercrab::verif::set_hook(None);
        *CUR.write().unwrap() = None;
    }

    /// Called on a process thread: publish the point, hand the token back, block until resumed.
    /// Returns the driver's choice.
    pub fn park(&self, pid: usize, point: Point) -> u64 {
        let mut g = self.m.lock().unwrap();
        if g.shutdown == Some(pid) {
            // Being torn down: let destructors run through their yield points without blocking.
            drop(g);
            if std::thread::panicking() {
                return 0;
            }
            std::panic::resume_unwind(Box::new(Unwind));
        }
        if std::thread::panicking() {
            // A genuine panic is unwinding through code with yield points: do not block.
            return 0;
        }
        g.parked[pid] = Some(point);
        g.turn = Turn::Driver;
        self.cv.notify_all();
        while g.turn != Turn::Proc(pid) && g.shutdown != Some(pid) {
            g = self.cv.wait(g).unwrap();
        }
        if g.shutdown == Some(pid) {
            drop(g);
            std::panic::resume_unwind(Box::new(Unwind));
        }
        g.parked[pid] = None;
        LASTC.with(|c| c.set(g.choice));
        g.choice
    }

    /// Harness-level decision point on a process thread.
    pub fn hpoint(&self, name: &'static str) -> u64 {
        let pid = current_pid().expect("hpoint off a process thread");
        self.park(pid, Point::Harness { name })
    }

    /// Push an extra record from the running process (it holds the token, so this is ordered).
    pub fn emit(&self, v: serde_json::Value) {
        self.m.lock().unwrap().extra.push(v);
    }

    pub fn spawn<F: FnOnce() + Send + 'static>(self: &Arc<Self>, pid: usize, f: F) {
        let me = self.clone();
        let h = std::thread::Builder::new()
            .stack_size(1 << 20)
            .spawn(move || {
                PID.with(|p| p.set(pid));
                let r = catch_unwind(AssertUnwindSafe(|| {
                    me.park(pid, Point::Harness { name: "start" });
                    f();
                }));
                let mut g = me.m.lock().unwrap();
                if let Err(e) = r {
                    if e.downcast_ref::<Unwind>().is_none() {
                        let msg = if let Some(s) = e.downcast_ref::<&str>() {
                            s.to_string()
                        } else if let Some(s) = e.downcast_ref::<String>() {
                            s.clone()
                        } else {
                            "panic".to_string()
                        };
                        g.panicked[pid] = Some(msg);
                    }
                }
                g.finished[pid] = true;
                g.parked[pid] = None;
                g.turn = Turn::Driver;
                me.cv.notify_all();
            })
            .unwrap();
        self.handles.lock().unwrap().push((pid, h));
        // wait until it parked at "start"
        let mut g = self.m.lock().unwrap();
        while g.parked[pid].is_none() && !g.finished[pid] {
            g = self.cv.wait(g).unwrap();
        }
    }

    pub fn peek(&self, pid: usize) -> Option<Point> {
        self.m.lock().unwrap().parked[pid].clone()
    }

    pub fn finished(&self, pid: usize) -> bool {
        self.m.lock().unwrap().finished[pid]
    }

    pub fn panic_of(&self, pid: usize) -> Option<String> {
        self.m.lock().unwrap().panicked[pid].clone()
    }

    /// Let process `pid` run one step (from the point it is parked at to its next point).
    /// Returns the extra records it produced.
    pub fn step(&self, pid: usize, choice: u64) -> Vec<serde_json::Value> {
        let mut g = self.m.lock().unwrap();
        assert!(g.parked[pid].is_some(), "process {pid} is not parked");
        g.choice = choice;
        g.extra.clear();
        g.turn = Turn::Proc(pid);
        self.cv.notify_all();
        while g.turn != Turn::Driver {
            g = self.cv.wait(g).unwrap();
        }
        std::mem::take(&mut g.extra)
    }

    /// Unwind all parked threads and join them.
    pub fn shutdown(&self) {
        let hs: Vec<_> = std::mem::take(&mut *self.handles.lock().unwrap());
        for (pid, h) in hs {
            {
                let mut g = self.m.lock().unwrap();
                g.shutdown = Some(pid);
                self.cv.notify_all();
            }
            let _ = h.join();
        }
    }
}

// ---------------------------------------------------------------------------------------------
// Wakers

pub struct FlagWaker(pub usize);

impl Wake for FlagWaker {
    fn wake(self: Arc<Self>) {
        WOKEN[self.0].store(true, Ordering::SeqCst);
    }
    fn wake_by_ref(self: &Arc<Self>) {
        WOKEN[self.0].store(true, Ordering::SeqCst);
    }
}

pub fn flag_waker(pid: usize) -> Waker {
    Waker::from(Arc::new(FlagWaker(pid)))
}

// ---------------------------------------------------------------------------------------------
// Virtual time

pub fn clock(pid: usize) -> u64 {
    CLOCKS[pid].load(Ordering::SeqCst)
}

/// Advance process `pid`'s clock by `by` ticks and invoke every waker it registered for a time
/// that has now passed.
pub fn advance_clock(pid: usize, by: u64) {
    let now = CLOCKS[pid].fetch_add(by, Ordering::SeqCst) + by;
    fire_due(Some(pid), now);
}

/// Forget every wake-up process `pid` registered (its request is over).
pub fn clear_timers(pid: usize) {
    TIMERS.lock().unwrap().retain(|(p, _, _)| *p != pid);
}

/// Advance the global clock (sequential engines) to `to`.
pub fn set_global_clock(to: u64) {
    GCLOCK.store(to, Ordering::SeqCst);
    fire_due(None, to);
}

/// Earliest registered wake-up of the global clock, if any.
pub fn next_global_deadline() -> Option<u64> {
    TIMERS
        .lock()
        .unwrap()
        .iter()
        .filter(|(p, _, _)| *p == usize::MAX)
        .map(|(_, at, _)| *at)
        .min()
}

fn fire_due(pid: Option<usize>, now: u64) {
    let key = pid.unwrap_or(usize::MAX);
    let mut due = Vec::new();
    {
        let mut t = TIMERS.lock().unwrap();
        let mut i = 0;
        while i < t.len() {
            if t[i].0 == key && t[i].1 <= now {
                due.push(t.swap_remove(i).2);
            } else {
                i += 1;
            }
        }
    }
    for w in due {
        w.wake();
    }
}

struct VDriver;

impl embassy_time_driver::Driver for VDriver {
    fn now(&self) -> u64 {
        match current_pid() {
            Some(p) => CLOCKS[p].load(Ordering::SeqCst),
            None => GCLOCK.load(Ordering::SeqCst),
        }
    }

    fn schedule_wake(&self, at: u64, waker: &Waker) {
        let (key, now) = match current_pid() {
            Some(p) => (p, CLOCKS[p].load(Ordering::SeqCst)),
            None => (usize::MAX, GCLOCK.load(Ordering::SeqCst)),
        };
        if at <= now {
            waker.wake_by_ref();
        } else {
            TIMERS.lock().unwrap().push((key, at, waker.clone()));
        }
    }
}

embassy_time_driver::time_driver_impl!(static DRIVER: VDriver = VDriver);
