//! Engine `rxtriage` (C05): prepares slot states on a real PDU loop, delivers arbitrary bytes to
//! `PduRx::receive_frame` and snapshots every slot before and after.

use crate::rng::Rng;
use ethercrab::error::{Error, PduError};
use ethercrab::{Command, PduLoop, PduRx, PduStorage, PduTx, ReceiveAction};
use serde_json::{Value, json};
use std::any::Any;
use std::future::Future;
use std::io::Write;
use std::panic::{AssertUnwindSafe, catch_unwind};
use std::task::{Context, Poll};
use std::time::Duration;

#[derive(serde::Deserialize, Clone)]
pub struct Case {
    #[serde(default)]
    pub id: String,
    #[serde(default = "cap40")]
    pub cap: usize,
    pub targets: Vec<String>,
    pub frame: Vec<u8>,
}

fn cap40() -> usize {
    40
}

fn res_name(r: &Result<ReceiveAction, Error>) -> String {
    match r {
        Ok(ReceiveAction::Ignored) => "Ignored".into(),
        Ok(ReceiveAction::Processed) => "Processed".into(),
        Err(Error::Pdu(PduError::Ethernet)) => "ErrEthernet".into(),
        Err(Error::Wire(_)) => "ErrHeader".into(),
        Err(Error::ReceiveFrame) => "ErrShort".into(),
        Err(Error::Internal) => "ErrInternal".into(),
        Err(Error::Pdu(PduError::Decode)) => "ErrDecode".into(),
        Err(Error::Pdu(PduError::InvalidIndex(_))) => "ErrInvalidIndex".into(),
        Err(Error::Pdu(PduError::InvalidFrameState)) => "ErrInvalidFrameState".into(),
        Err(e) => format!("Err:{e:?}"),
    }
}

fn snapshot(pl: &PduLoop<'static>, n: usize, cap: usize) -> Vec<Value> {
    let mut v = Vec::new();
    let mut buf = vec![0u8; cap];
    for i in 0..n {
        let (st, fp, plen) = pl.verif_slot(i);
        pl.verif_slot_bytes(i, &mut buf);
        v.push(json!({"st": st, "fp": fp, "plen": plen, "buf": buf.clone()}));
    }
    v
}

/// A response frame that `receive_frame` accepts for a request with first index `idx`.
fn reply(idx: u8, payload_len: usize, extra: usize) -> Vec<u8> {
    let mut f = vec![0xffu8; 6];
    f.extend_from_slice(&[0x12, 0x10, 0x10, 0x10, 0x10, 0x10, 0x88, 0xa4]);
    let l = (payload_len as u16) | 0x1000;
    f.extend_from_slice(&l.to_le_bytes());
    f.extend_from_slice(&[5, idx, 1, 16, 32, 1, 4, 0, 0, 0, 9, 9, 9, 9, 1, 0]);
    f.extend(std::iter::repeat(0x77).take(extra));
    f
}

fn run_case<const N: usize, const CAP: usize>(c: &Case) -> Value {
    let storage: &'static PduStorage<N, CAP> = Box::leak(Box::new(PduStorage::new()));
    let (tx, rx, pl) = storage.try_split().unwrap();
    let (mut tx, mut rx): (PduTx<'static>, PduRx<'static>) = (tx, rx);
    let pl: &'static PduLoop<'static> = Box::leak(Box::new(pl));
    let mut keep: Vec<Box<dyn Any>> = Vec::new();
    let waker = crate::vsched::flag_waker(0);
    let mut cx = Context::from_waker(&waker);

    // allocate every non-fresh slot first so that slot i belongs to target i
    let mut frames = Vec::new();
    for t in &c.targets {
        if t != "Fresh" {
            frames.push(Some(pl.verif_alloc_frame().expect("alloc")));
        } else {
            frames.push(None);
        }
    }
    let mut futs: Vec<Option<std::pin::Pin<Box<ethercrab::verif::ReceiveFrameFut<'static>>>>> =
        (0..c.targets.len()).map(|_| None).collect();
    let mut handles = Vec::new();
    let mut idxs = vec![0u8; c.targets.len()];
    // pushes, in slot order
    for (i, t) in c.targets.iter().enumerate() {
        let pushes = !matches!(t.as_str(), "Fresh" | "NoneEmpty" | "Created");
        if pushes {
            let h = frames[i].as_mut().unwrap()
                .push_pdu(Command::fpwr(0x1001, 0x0120).into(), [1u8, 2, 3, 4], None).expect("push");
            idxs[i] = h.pdu_idx;
            handles.push(Some(h));
        } else {
            handles.push(None);
        }
    }
    // states that need the frame to have been sent
    for (i, t) in c.targets.iter().enumerate() {
        match t.as_str() {
            "NoneEmpty" | "NoneStale" => drop(frames[i].take()),
            "Created" | "CreatedPushed" => keep.push(Box::new(frames[i].take())),
            "Sending" | "Sent" | "RxBusy" | "RxDone" | "RxProcessing" => {
                let fut = frames[i].take().unwrap().verif_mark_sendable(pl, Duration::from_secs(1000), 0);
                let sf = tx.next_sendable_frame().expect("sendable");
                if t == "Sending" {
                    keep.push(Box::new(sf));
                } else {
                    sf.send_blocking(|b| Ok(b.len())).expect("send");
                }
                futs[i] = Some(Box::pin(fut));
            }
            _ => {}
        }
    }
    for (i, t) in c.targets.iter().enumerate() {
        match t.as_str() {
            "RxBusy" => {
                // an oversize reply claims the slot and fails in the copy
                let r = prep_receive(&mut rx, &reply(idxs[i], CAP - 15, CAP));
                assert!(r.is_err(), "oversize reply was accepted");
            }
            "RxDone" | "RxProcessing" => {
                prep_receive(&mut rx, &reply(idxs[i], 16, 0)).expect("reply");
                if t == "RxProcessing" {
                    match futs[i].as_mut().unwrap().as_mut().poll(&mut cx) {
                        Poll::Ready(Ok(rf)) => {
                            futs[i] = None;
                            keep.push(Box::new(rf));
                        }
                        _ => panic!("response not ready"),
                    }
                }
            }
            _ => {}
        }
    }
    // "Sendable" last, so that the transmit claims above never took these slots
    for (i, t) in c.targets.iter().enumerate() {
        if t == "Sendable" {
            let fut = frames[i].take().unwrap().verif_mark_sendable(pl, Duration::from_secs(1000), 0);
            futs[i] = Some(Box::pin(fut));
        }
    }
    let pre = snapshot(pl, N, CAP);
    let res = catch_unwind(AssertUnwindSafe(|| rx.receive_frame(&c.frame)));
    let post = snapshot(pl, N, CAP);
    let mut v = json!({"id": c.id, "cap": CAP, "targets": c.targets, "frame": c.frame, "pre": pre, "post": post});
    match res {
        Ok(r) => v["res"] = json!(res_name(&r)),
        Err(e) => {
            v["res"] = json!("Panic");
            v["panic"] = json!(e.downcast_ref::<&str>().map(|s| s.to_string())
                .or_else(|| e.downcast_ref::<String>().cloned()).unwrap_or_else(|| "panic".into()));
        }
    }
    // leak everything that is still held: the storage is never reused
    std::mem::forget(keep);
    std::mem::forget(futs);
    std::mem::forget(handles);
    v
}

/// `receive_frame` while the slot states are being prepared: a panic in there is the code under
/// test misbehaving on the bytes it was given (an observation), not a failure of the harness.
fn prep_receive(rx: &mut ethercrab::PduRx<'_>, bytes: &[u8]) -> Result<ethercrab::ReceiveAction, ethercrab::error::Error> {
    match catch_unwind(AssertUnwindSafe(|| rx.receive_frame(bytes))) {
        Ok(r) => r,
        Err(e) => {
            let msg = e.downcast_ref::<&str>().map(|s| s.to_string())
                .or_else(|| e.downcast_ref::<String>().cloned()).unwrap_or_else(|| "panic".into());
            panic!("receive_frame panicked while preparing: {msg}");
        }
    }
}

fn run(c: &Case) -> Value {
    match (c.targets.len(), c.cap) {
        (1, 40) => run_case::<1, 40>(c),
        (2, 40) => run_case::<2, 40>(c),
        (4, 40) => run_case::<4, 40>(c),
        (1, 64) => run_case::<1, 64>(c),
        (2, 64) => run_case::<2, 64>(c),
        (4, 64) => run_case::<4, 64>(c),
        (4, 128) => run_case::<4, 128>(c),
        (n, cap) => panic!("unsupported shape {n} slots / {cap} bytes"),
    }
}

/// `Ok(record)`, `Err(Some(what))` if the code under test misbehaved while the slot states were
/// being prepared (that is an observation, not a tool failure), `Err(None)` if the case could not be
/// prepared for another reason.
fn run_guarded(c: &Case) -> Result<Value, Option<String>> {
    match catch_unwind(AssertUnwindSafe(|| run(c))) {
        Ok(v) => Ok(v),
        Err(e) => {
            let msg = e.downcast_ref::<&str>().map(|s| s.to_string())
                .or_else(|| e.downcast_ref::<String>().cloned()).unwrap_or_else(|| "panic".into());
            if msg.contains("oversize reply was accepted") {
                return Err(Some("OversizeReplyAccepted".into()));
            }
            if let Some(m) = msg.strip_prefix("receive_frame panicked while preparing: ") {
                return Err(Some(format!("PanicOnOversizeOrPlainReply: {m}")));
            }
            eprintln!("rxtriage: preparation failed for {}: {msg}", c.id);
            Err(None)
        }
    }
}

pub fn replay(input: &str, output: &str) -> std::io::Result<()> {
    let text = std::fs::read_to_string(input)?;
    let mut out = std::io::BufWriter::new(std::fs::File::create(output)?);
    let mut failed = 0;
    for (i, line) in text.lines().enumerate() {
        if line.trim().is_empty() {
            continue;
        }
        let mut c: Case = serde_json::from_str(line).expect("bad case");
        if c.id.is_empty() {
            c.id = format!("c{i}");
        }
        match run_guarded(&c) {
            Ok(v) => writeln!(out, "{v}")?,
            Err(Some(what)) => {
                // observations made while preparing: <output>.prep, one JSON line each
                use std::io::Write as _;
                let mut f = std::fs::OpenOptions::new().create(true).append(true).open(format!("{output}.prep"))?;
                writeln!(f, "{}", serde_json::json!({"id": c.id, "what": what, "targets": c.targets, "cap": c.cap}))?;
            }
            Err(None) => failed += 1,
        }
    }
    out.flush()?;
    if failed > 0 {
        return Err(std::io::Error::other(format!("{failed} cases could not be prepared")));
    }
    Ok(())
}

const TARGETS: &[&str] = &["Fresh", "NoneEmpty", "NoneStale", "Created", "CreatedPushed", "Sendable", "Sending",
    "Sent", "RxBusy", "RxDone", "RxProcessing"];

/// Seeded cases: random slot vectors (1, 2, 4 slots), arbitrary byte strings and mutated replies.
pub fn random(seed: u64, cases: usize, output: &str) -> std::io::Result<()> {
    let mut out = std::io::BufWriter::new(std::fs::File::create(output)?);
    let mut rng = Rng::new(seed);
    let mut n = 0;
    while n < cases {
        let nslots = *rng.pick(&[1usize, 2, 4, 4]);
        let cap = if nslots == 4 { *rng.pick(&[40usize, 64, 128]) } else { *rng.pick(&[40usize, 64]) };
        let mut targets: Vec<String> = Vec::new();
        let mut fresh_from = nslots;
        if rng.chance(1, 4) {
            fresh_from = rng.below(nslots as u64 + 1) as usize;
        }
        for i in 0..nslots {
            if i >= fresh_from {
                targets.push("Fresh".into());
            } else {
                // bias towards Sent so that acceptance paths are exercised
                let t = if rng.chance(1, 3) { "Sent" } else { TARGETS[1 + rng.below(10) as usize] };
                targets.push(t.to_string());
            }
        }
        let pushes: Vec<bool> = targets.iter().map(|t| !matches!(t.as_str(), "Fresh" | "NoneEmpty" | "Created")).collect();
        let frame = match rng.below(4) {
            0 => {
                let len = rng.below(100) as usize;
                rng.bytes(len)
            }
            1 => {
                // arbitrary bytes behind a plausible Ethernet + EtherCAT header
                let mut f = reply(rng.below(6) as u8, rng.below(2048) as usize, rng.below(80) as usize);
                let m = rng.below(4);
                for _ in 0..m {
                    let i = rng.below(f.len() as u64) as usize;
                    f[i] = rng.next_u32() as u8;
                }
                f
            }
            _ => {
                // a reply for one of the slots (or nearby), mutated lightly
                let k = rng.below(nslots as u64) as usize;
                let idx = pushes[..k].iter().filter(|p| **p).count() as u8;
                let mut f = reply(idx, 16, if rng.chance(1, 4) { rng.below(200) as usize } else { 0 });
                if rng.chance(1, 3) && f.len() >= 16 {
                    let l: u16 = (*rng.pick(&[0u16, 1, 2, 11, 12, 15, 16, 17, 24, 25, 48, 49, 112, 113, 2047])) | 0x1000;
                    f[14..16].copy_from_slice(&l.to_le_bytes());
                }
                if rng.chance(1, 4) {
                    let cut = rng.below(f.len() as u64 + 1) as usize;
                    f.truncate(cut);
                }
                if rng.chance(1, 6) && f.len() > 6 {
                    f[6] = 0x10;
                }
                if rng.chance(1, 8) {
                    let i = rng.below(f.len().max(1) as u64) as usize;
                    if i < f.len() {
                        f[i] ^= 1 << rng.below(8);
                    }
                }
                f
            }
        };
        let c = Case { id: format!("r{n}"), cap, targets, frame };
        match run_guarded(&c) {
            Ok(v) => {
                writeln!(out, "{v}")?;
                n += 1;
            }
            Err(Some(what)) => {
                use std::io::Write as _;
                let mut f = std::fs::OpenOptions::new().create(true).append(true).open(format!("{output}.prep"))?;
                writeln!(f, "{}", serde_json::json!({"id": c.id, "what": what, "targets": c.targets, "cap": c.cap}))?;
                n += 1;
            }
            Err(None) => {}
        }
    }
    out.flush()
}
