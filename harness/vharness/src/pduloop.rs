//! Engine `pduloop`: drives the real PDU loop (application tasks, TX task, RX task as OS threads
//! under the token scheduler) along schedules that come from TLC behaviours or from a seeded
//! strategy, and records one NDJSON event per step with the projected abstract state.

use crate::rng::Rng;
use crate::vsched::{self, Point, Sched, WOKEN};
use ethercrab::verif::{ReceivedPdu, Site};
use ethercrab::{Command, PduLoop, PduRx, PduStorage, PduTx};
use serde_json::{Value, json};
use std::future::Future;
use std::io::Write;
use std::sync::atomic::{AtomicU32, AtomicU64, Ordering};
use std::sync::{Arc, Mutex};
use std::task::{Context, Poll};
use std::time::Duration;

const DATA: usize = 64;
const PAYLOAD: usize = 4;
const TIMEOUT_US: u64 = 1000;
pub const ENV_TIMER: i64 = -1;
pub const ENV_LOSE: i64 = -2;

#[derive(Clone, Debug, serde::Deserialize, serde::Serialize)]
pub struct Cfg {
    pub n: usize,
    pub apps: usize,
    pub max_req: u32,
    pub max_pdus: u32,
    pub retry_set: Vec<u32>,
    #[serde(default)]
    pub allow_timer: bool,
    #[serde(default)]
    pub allow_abandon: bool,
    #[serde(default)]
    pub allow_drop_created: bool,
    #[serde(default)]
    pub allow_lose: bool,
    #[serde(default)]
    pub dup_budget: u32,
    #[serde(default)]
    pub send_fail_budget: u32,
    /// Datagram indices consumed before the run starts (to reach the 8-bit wrap).
    #[serde(default)]
    pub burn_idx: u32,
    /// The network may answer before the transmit side has marked the frame as sent.
    #[serde(default)]
    pub early_response: bool,
    /// Deadlines only pass while the request's frame is in state Sent (the transmit task
    /// serviced it): the assumption of C06's transmission-count clause.
    #[serde(default)]
    pub tx_prompt: bool,
    /// Band A of the known finding "request given up while TX/RX is inside its buffer": an
    /// application task is not scheduled into its release / re-queue store while the slot is in
    /// state Sending or RxBusy.
    #[serde(default)]
    pub no_release_inside: bool,
}

struct WireFrame {
    id: u64,
    bytes: Vec<u8>,
}

struct Shared {
    sched: Arc<Sched>,
    pdu_loop: &'static PduLoop<'static>,
    wire: Mutex<Vec<WireFrame>>,
    next_frame_id: AtomicU64,
    /// per app: (np << 8) | pushed, and finished request count
    app_np: [AtomicU32; 4],
    app_pushed: [AtomicU32; 4],
    app_reqs: [AtomicU32; 4],
    app_trims: [AtomicU32; 4],
    rng: Mutex<Rng>,
}

macro_rules! storage {
    ($n:expr) => {{
        let s: &'static PduStorage<$n, DATA> = Box::leak(Box::new(PduStorage::new()));
        let (tx, rx, pl) = s.try_split().unwrap();
        (tx, rx, pl)
    }};
}

fn make_storage(n: usize) -> (PduTx<'static>, PduRx<'static>, PduLoop<'static>) {
    match n {
        1 => storage!(1),
        2 => storage!(2),
        4 => storage!(4),
        8 => storage!(8),
        _ => panic!("unsupported slot count {n}"),
    }
}

// ---------------------------------------------------------------------------------------------
// Process bodies

fn view_json(v: &ReceivedPdu<'_>) -> Value {
    let bytes: &[u8] = v;
    // Read only what the view claims to be; the canary check is done by the monitor.
    json!({"len": v.len(), "bytes": bytes.to_vec()})
}

fn app_body(sh: Arc<Shared>, pid: usize) {
    let s = &sh.sched;
    let waker = vsched::flag_waker(pid);
    let mut k: u32 = 0;
    'outer: loop {
        let c = s.hpoint("idle");
        if c == 0 {
            break;
        }
        let np = ((c - 1) % 8) as u32;
        let rt = ((c - 1) / 8) as usize;
        k += 1;
        sh.app_np[pid].store(np, Ordering::SeqCst);
        sh.app_pushed[pid].store(0, Ordering::SeqCst);
        WOKEN[pid].store(false, Ordering::SeqCst);
        let finish = |res: &str, extra: Value| {
            sh.app_reqs[pid].fetch_add(1, Ordering::SeqCst);
            vsched::clear_timers(pid);
            s.emit(json!({"e": "Result", "a": pid, "k": k, "res": res, "d": extra}));
        };
        let mut frame = match sh.pdu_loop.verif_alloc_frame() {
            Ok(f) => f,
            Err(e) => {
                finish("allocfail", json!(format!("{e:?}")));
                continue;
            }
        };
        let mut handle = None;
        let mut sent_payloads: Vec<Vec<u8>> = Vec::new();
        loop {
            match s.hpoint("created") {
                1 => {
                    let j = sent_payloads.len() as u8;
                    let rnd = sh.rng.lock().unwrap().next_u32() as u8;
                    let payload = [pid as u8, k as u8, j, rnd];
                    let h = frame.push_pdu(
                        Command::fpwr(0x1000 + pid as u16, 0x0100 + j as u16).into(),
                        payload,
                        None,
                    );
                    match h {
                        Ok(h) => {
                            if handle.is_none() {
                                handle = Some(h);
                            }
                            sent_payloads.push(payload.to_vec());
                            sh.app_pushed[pid].fetch_add(1, Ordering::SeqCst);
                            s.emit(json!({"e": "Pushed", "a": pid, "k": k, "j": j, "data": payload.to_vec()}));
                        }
                        Err(e) => {
                            s.emit(json!({"e": "PushErr", "a": pid, "k": k, "err": format!("{e:?}")}));
                        }
                    }
                }
                2 => break,
                _ => {
                    drop(frame);
                    finish("dropped", json!(""));
                    continue 'outer;
                }
            }
        }
        let fut = frame.verif_mark_sendable(sh.pdu_loop, Duration::from_micros(TIMEOUT_US), rt);
        sh.pdu_loop.verif_wake_sender();
        let mut fut = Some(Box::pin(fut));
        let mut cx = Context::from_waker(&waker);
        let received = loop {
            match fut.as_mut().unwrap().as_mut().poll(&mut cx) {
                Poll::Ready(Ok(rf)) => break Some(rf),
                Poll::Ready(Err(e)) => {
                    let res = match e {
                        ethercrab::error::Error::Timeout(_) => "timeout",
                        ethercrab::error::Error::Pdu(ethercrab::error::PduError::InvalidFrameState) => "invalid",
                        _ => "error",
                    };
                    finish(res, json!(format!("{e:?}")));
                    break None;
                }
                Poll::Pending => match s.hpoint("parked") {
                    1 => {
                        WOKEN[pid].store(false, Ordering::SeqCst);
                        continue;
                    }
                    _ => {
                        fut = None; // drops the future
                        finish("abandoned", json!(""));
                        break None;
                    }
                },
            }
        };
        drop(fut);
        let Some(rf) = received else { continue };
        let mut view = match rf.first_pdu(handle.take().expect("no datagram pushed")) {
            Ok(v) => v,
            Err(e) => {
                finish("parse_err", json!(format!("{e:?}")));
                continue;
            }
        };
        sh.app_trims[pid].store(0, Ordering::SeqCst);
        s.emit(json!({"e": "Complete", "a": pid, "k": k, "wkc": view_wkc(&view), "view": view_json(&view)}));
        loop {
            match s.hpoint("view") {
                1 => {
                    s.emit(json!({"e": "ViewRead", "a": pid, "k": k, "view": view_json(&view)}));
                }
                2 => break,
                c => {
                    let ct = (c - 10) as usize;
                    sh.app_trims[pid].fetch_add(1, Ordering::SeqCst);
                    view.trim_front(ct);
                    s.emit(json!({"e": "ViewTrim", "a": pid, "k": k, "ct": ct, "view": view_json(&view)}));
                }
            }
        }
        s.emit(json!({"e": "ViewDrop", "a": pid, "k": k}));
        drop(view);
        finish("ok", json!(""));
    }
}

fn view_wkc(v: &ReceivedPdu<'_>) -> u16 {
    // `working_counter` is crate-private; `wkc(expected)` reports the received value on mismatch.
    // Probe it without consuming the view by formatting Debug output.
    let dbg = format!("{v:?}");
    dbg.split("working_counter: ")
        .nth(1)
        .and_then(|r| r.split(|c: char| !c.is_ascii_digit()).next())
        .and_then(|d| d.parse().ok())
        .unwrap_or(0xffff)
}

fn tx_body(sh: Arc<Shared>, pid: usize, mut tx: PduTx<'static>) {
    let s = &sh.sched;
    let waker = vsched::flag_waker(pid);
    loop {
        if s.hpoint("tx_idle") == 0 {
            break;
        }
        WOKEN[pid].store(false, Ordering::SeqCst);
        tx.replace_waker(&waker);
        while let Some(frame) = tx.next_sendable_frame() {
            let res = frame.send_blocking(|bytes| {
                let c = vsched::last_choice();
                match c {
                    0 => {
                        let id = sh.next_frame_id.fetch_add(1, Ordering::SeqCst);
                        sh.wire.lock().unwrap().push(WireFrame { id, bytes: bytes.to_vec() });
                        s.emit(json!({"e": "TxSend", "fid": id, "bytes": bytes.to_vec()}));
                        Ok(bytes.len())
                    }
                    1 => {
                        s.emit(json!({"e": "TxFail", "kind": "error"}));
                        Err(ethercrab::error::Error::SendFrame)
                    }
                    _ => {
                        s.emit(json!({"e": "TxFail", "kind": "partial"}));
                        Ok(bytes.len() - 1)
                    }
                }
            });
            if let Err(e) = res {
                s.emit(json!({"e": "TxErr", "err": format!("{e:?}")}));
            }
        }
    }
}

/// What the segment does to a request frame: keeps headers, flips the tag bit of every datagram's
/// first payload byte, replaces the last payload byte with fresh data and fills in a working
/// counter. Returns the response frame and, per datagram, (data, wkc).
fn answer(req: &[u8], rng: &mut Rng) -> (Vec<u8>, Vec<(Vec<u8>, u16)>) {
    let mut out = req.to_vec();
    let mut pdus = Vec::new();
    if out.len() < 16 {
        return (out, pdus);
    }
    // source address: first SubDevice sets the U/L bit
    out[6] |= 0x02;
    let ecat_len = (u16::from_le_bytes([out[14], out[15]]) & 0x07ff) as usize;
    let mut pos = 16;
    let end = (16 + ecat_len).min(out.len());
    while pos + 12 <= end {
        let len = (u16::from_le_bytes([out[pos + 6], out[pos + 7]]) & 0x07ff) as usize;
        let more = out[pos + 7] & 0x80 != 0;
        let d0 = pos + 10;
        if d0 + len + 2 > end {
            break;
        }
        if len > 0 {
            out[d0] |= 0x80;
            out[d0 + len - 1] = rng.next_u32() as u8;
        }
        let wkc = 1 + (rng.next_u32() % 3) as u16;
        out[d0 + len..d0 + len + 2].copy_from_slice(&wkc.to_le_bytes());
        pdus.push((out[d0..d0 + len].to_vec(), wkc));
        pos = d0 + len + 2;
        if !more {
            break;
        }
    }
    (out, pdus)
}

fn rx_body(sh: Arc<Shared>, _pid: usize, mut rx: PduRx<'static>) {
    let s = &sh.sched;
    loop {
        let c = s.hpoint("rx_idle");
        if c == 0 {
            break;
        }
        let fid = (c - 1) / 2;
        let dup = (c - 1) % 2 == 1;
        let req = {
            let mut w = sh.wire.lock().unwrap();
            let Some(i) = w.iter().position(|f| f.id == fid) else {
                s.emit(json!({"e": "RxNoFrame", "fid": fid}));
                continue;
            };
            if dup { w[i].bytes.clone() } else { w.swap_remove(i).bytes }
        };
        let (resp, pdus) = answer(&req, &mut sh.rng.lock().unwrap());
        let pd: Vec<Value> = pdus.iter().map(|(d, w)| json!({"data": d, "wkc": w})).collect();
        s.emit(json!({"e": "Respond", "fid": fid, "dup": dup, "pdus": pd}));
        let r = rx.receive_frame(&resp);
        s.emit(json!({"e": "RxResult", "fid": fid, "res": format!("{r:?}")}));
    }
}

// ---------------------------------------------------------------------------------------------
// Driver

pub struct Run {
    pub cfg: Cfg,
    sh: Arc<Shared>,
    tx_pid: usize,
    rx_pid: usize,
    out: Vec<String>,
    /// driver-side mirror of what the specification calls timer[a]
    armed: Vec<bool>,
    fired: Vec<bool>,
    in_retry: Vec<bool>,
    /// last point each app was parked at before its most recent step (to recognise Mark / re-arm)
    alloc_slot: Vec<u8>,
    tx_scan: u8,
    rx_scan: u8,
    dups: u32,
    send_fails: u32,
    tx_inflight: Option<u64>,
    pub steps: Vec<(i64, u64)>,
    pub stuck: bool,
    pub panics: Vec<String>,
}

fn state_name(x: u8) -> u8 {
    x
}

impl Run {
    pub fn new(cfg: Cfg, seed: u64) -> Run {
        let nprocs = cfg.apps + 2;
        let (tx, rx, pl) = make_storage(cfg.n);
        let pl: &'static PduLoop<'static> = Box::leak(Box::new(pl));
        // burn datagram indices before any process exists (no hook is installed yet for this thread)
        if cfg.burn_idx > 0 {
            let mut left = cfg.burn_idx;
            while left > 0 {
                let mut f = pl.verif_alloc_frame().unwrap();
                let take = left.min(3);
                for _ in 0..take {
                    let _ = f.push_pdu(Command::fpwr(0, 0).into(), [0u8; PAYLOAD], None);
                }
                left -= take;
                drop(f);
            }
        }
        let sched = Sched::install(nprocs);
        let sh = Arc::new(Shared {
            sched: sched.clone(),
            pdu_loop: pl,
            wire: Mutex::new(Vec::new()),
            next_frame_id: AtomicU64::new(1),
            app_np: Default::default(),
            app_pushed: Default::default(),
            app_reqs: Default::default(),
            app_trims: Default::default(),
            rng: Mutex::new(Rng::new(seed ^ 0x9e3779b97f4a7c15)),
        });
        for a in 0..cfg.apps {
            let s2 = sh.clone();
            sched.spawn(a, move || app_body(s2, a));
        }
        let tx_pid = cfg.apps;
        let rx_pid = cfg.apps + 1;
        {
            let s2 = sh.clone();
            sched.spawn(tx_pid, move || tx_body(s2, tx_pid, tx));
            let s3 = sh.clone();
            sched.spawn(rx_pid, move || rx_body(s3, rx_pid, rx));
        }
        // every thread is parked at "start"; move each to its first real point
        let mut run = Run {
            armed: vec![false; cfg.apps],
            fired: vec![false; cfg.apps],
            in_retry: vec![false; cfg.apps],
            alloc_slot: vec![0; cfg.apps],
            cfg,
            sh,
            tx_pid,
            rx_pid,
            out: Vec::new(),
            tx_scan: 0,
            rx_scan: 0,
            dups: 0,
            send_fails: 0,
            tx_inflight: None,
            steps: Vec::new(),
            stuck: false,
            panics: Vec::new(),
        };
        WOKEN[tx_pid].store(true, Ordering::SeqCst); // the TX task runs once at start-up
        for p in 0..nprocs {
            run.sh.sched.step(p, 0);
        }
        let (fi, pi) = run.sh.pdu_loop.verif_cursors();
        let mut init = run.snapshot();
        init["e"] = json!("Init");
        init["cfg"] = serde_json::to_value(&run.cfg).unwrap();
        init["seed"] = json!(seed);
        init["fi0"] = json!(fi);
        init["pi0"] = json!(pi);
        run.out.push(init.to_string());
        run
    }

    fn snapshot(&self) -> Value {
        let pl = self.sh.pdu_loop;
        let n = self.cfg.n;
        let mut st = Vec::new();
        let mut fp = Vec::new();
        let mut plen = Vec::new();
        let mut buf = Vec::new();
        let mut bidx = Vec::new();
        let mut bytes = [0u8; DATA];
        for i in 0..n {
            let (s, f, l) = pl.verif_slot(i);
            st.push(state_name(s));
            fp.push(f);
            plen.push(l / (12 + PAYLOAD));
            pl.verif_slot_bytes(i, &mut bytes);
            let tag = if bytes[16] == 0 {
                json!(["zero", 99, 0])
            } else if bytes[26] & 0x80 != 0 {
                json!(["resp", bytes[26] & 0x7f, bytes[27]])
            } else {
                json!(["req", bytes[26], bytes[27]])
            };
            buf.push(tag);
            bidx.push(bytes[17]);
        }
        let (fi, pi) = pl.verif_cursors();
        let woken: Vec<bool> = (0..self.cfg.apps).map(|a| WOKEN[a].load(Ordering::SeqCst)).collect();
        json!({"st": st, "fp": fp, "plen": plen, "buf": buf, "bidx": bidx,
               "fi": (fi as usize) % n, "pi": pi, "woken": woken,
               "txw": WOKEN[self.tx_pid].load(Ordering::SeqCst)})
    }

    pub fn wire_ids(&self) -> Vec<u64> {
        self.sh.wire.lock().unwrap().iter().map(|f| f.id).collect()
    }

    /// Enabled (process, choice) pairs in the current state. Environment actions use negative
    /// process numbers.
    pub fn enabled(&self, draining: bool) -> Vec<(i64, u64)> {
        let mut v = Vec::new();
        let s = &self.sh.sched;
        for a in 0..self.cfg.apps {
            let Some(p) = s.peek(a) else { continue };
            match &p {
                Point::Harness { name } => match *name {
                    "idle" => {
                        if !draining && self.sh.app_reqs[a].load(Ordering::SeqCst) < self.cfg.max_req {
                            for np in 1..=self.cfg.max_pdus {
                                for rt in &self.cfg.retry_set {
                                    v.push((a as i64, 1 + np as u64 + 8 * *rt as u64));
                                }
                            }
                        }
                    }
                    "created" => {
                        let np = self.sh.app_np[a].load(Ordering::SeqCst);
                        let pushed = self.sh.app_pushed[a].load(Ordering::SeqCst);
                        if pushed < np {
                            v.push((a as i64, 1));
                        } else {
                            v.push((a as i64, 2));
                        }
                        if self.cfg.allow_drop_created && !draining {
                            v.push((a as i64, 3));
                        }
                    }
                    "parked" => {
                        if WOKEN[a].load(Ordering::SeqCst) {
                            v.push((a as i64, 1));
                        }
                        if self.cfg.allow_abandon && !draining {
                            v.push((a as i64, 2));
                        }
                    }
                    "view" => {
                        v.push((a as i64, 2));
                        if !draining {
                            v.push((a as i64, 1));
                            if self.sh.app_trims[a].load(Ordering::SeqCst) < 2 {
                                for ct in 0..=(PAYLOAD as u64 + 1) {
                                    v.push((a as i64, 10 + ct));
                                }
                            }
                        }
                    }
                    _ => {}
                },
                Point::Hook { site: Site::SetState, slot, .. }
                    if self.cfg.no_release_inside
                        && (*slot as usize) < self.cfg.n
                        && matches!(self.sh.pdu_loop.verif_slot(*slot as usize).0, 3 | 5) => {}
                Point::Hook { .. } => v.push((a as i64, 0)),
            }
            if self.cfg.allow_timer && self.armed[a] && !self.fired[a] && !draining {
                let prompt_ok = !self.cfg.tx_prompt || {
                    let sl = self.alloc_slot[a] as usize;
                    self.sh.pdu_loop.verif_slot(sl).0 == 4
                        && matches!(p, Point::Harness { name: "parked" })
                };
                if prompt_ok {
                    v.push((ENV_TIMER, a as u64));
                }
            }
        }
        if let Some(p) = s.peek(self.tx_pid) {
            match &p {
                Point::Harness { name: "tx_idle" } => {
                    if WOKEN[self.tx_pid].load(Ordering::SeqCst) {
                        v.push((self.tx_pid as i64, 1));
                    }
                }
                Point::Hook { site: Site::BufBegin, .. } => {
                    v.push((self.tx_pid as i64, 0));
                    if self.send_fails < self.cfg.send_fail_budget && !draining {
                        v.push((self.tx_pid as i64, 1));
                        v.push((self.tx_pid as i64, 2));
                    }
                }
                _ => v.push((self.tx_pid as i64, 0)),
            }
        }
        if let Some(p) = s.peek(self.rx_pid) {
            match &p {
                Point::Harness { name: "rx_idle" } => {
                    for id in self.wire_ids() {
                        if !self.cfg.early_response && self.tx_inflight == Some(id) {
                            continue;
                        }
                        v.push((self.rx_pid as i64, 1 + 2 * id));
                        if self.dups < self.cfg.dup_budget && !draining {
                            v.push((self.rx_pid as i64, 2 + 2 * id));
                        }
                    }
                }
                _ => v.push((self.rx_pid as i64, 0)),
            }
        }
        if self.cfg.allow_lose && !draining {
            for id in self.wire_ids() {
                v.push((ENV_LOSE, id));
            }
        }
        v
    }

    /// Perform one step. Returns false if the step is not possible in the current state (a
    /// replayed behaviour that the implementation cannot follow).
    pub fn step(&mut self, p: i64, c: u64) -> bool {
        self.steps.push((p, c));
        if p == ENV_TIMER {
            let a = c as usize;
            if a >= self.cfg.apps {
                return false;
            }
            self.fired[a] = true;
            vsched::advance_clock(a, TIMEOUT_US + 1);
            let mut ev = self.snapshot();
            ev["p"] = json!(p);
            ev["at"] = json!("TimerFire");
            ev["c"] = json!(c);
            self.out.push(ev.to_string());
            return true;
        }
        if p == ENV_LOSE {
            let mut w = self.sh.wire.lock().unwrap();
            let Some(i) = w.iter().position(|f| f.id == c) else { return false };
            w.swap_remove(i);
            drop(w);
            let mut ev = self.snapshot();
            ev["p"] = json!(p);
            ev["at"] = json!("NetLose");
            ev["c"] = json!(c);
            self.out.push(ev.to_string());
            return true;
        }
        let pid = p as usize;
        let s = self.sh.sched.clone();
        let Some(point) = s.peek(pid) else { return false };
        // bookkeeping that mirrors the harness-visible part of the specification
        let mut slot_override: Option<u8> = None;
        if pid < self.cfg.apps {
            if let Point::Hook { site, a, b, .. } = &point {
                match site {
                    Site::AllocFetch => {
                        let (fi, _) = self.sh.pdu_loop.verif_cursors();
                        self.alloc_slot[pid] = fi % self.cfg.n as u8;
                    }
                    Site::SwapState if *a == 0 && *b == 1 => slot_override = Some(self.alloc_slot[pid]),
                    _ => {}
                }
            }
        } else if pid == self.tx_pid {
            if let Point::Hook { site: Site::SwapState, a: 2, b: 3, .. } = &point {
                slot_override = Some(self.tx_scan);
            }
            if let Point::Hook { site: Site::BufBegin, .. } = &point {
                if c != 0 {
                    self.send_fails += 1;
                }
            }
        } else if pid == self.rx_pid {
            if let Point::Hook { site: Site::FpLoad | Site::StLoad, .. } = &point {
                slot_override = Some(self.rx_scan);
            }
            if let Point::Harness { name: "rx_idle" } = &point {
                if c != 0 && (c - 1) % 2 == 1 {
                    self.dups += 1;
                }
            }
        }
        let pre_state: Option<u8> = match (&point, slot_override) {
            (Point::Hook { slot, .. }, so) => {
                let sl = so.unwrap_or(*slot) as usize;
                if sl < self.cfg.n { Some(self.sh.pdu_loop.verif_slot(sl).0) } else { None }
            }
            _ => None,
        };
        let extra = s.step(pid, c);
        let next = s.peek(pid);
        // timer mirror for application tasks
        if pid < self.cfg.apps {
            if let Point::Hook { site, a, .. } = &point {
                match site {
                    // Mark or RetryMark: SetState(Sendable) by the application task.
                    Site::SetState if *a == 2 => {
                        // Mark arms a fresh timer; in the retry path the re-arm happened at
                        // TimerPoll already and the timer may have fired again since.
                        if self.in_retry[pid] {
                            self.in_retry[pid] = false;
                        } else {
                            self.armed[pid] = true;
                            self.fired[pid] = false;
                        }
                    }
                    // deadline branch after the fix: recheck, then re-arm before the re-queue
                    Site::SwapState if *a == 6 => {
                        if let Some(Point::Hook { site: Site::SwapState, a: 4, b: 2, .. }) = &next {
                            self.fired[pid] = false;
                        }
                    }
                    Site::TimerPoll => {
                        // re-armed iff the task is now about to SetState(Sendable)
                        if let Some(Point::Hook { site: Site::SetState, a: 2, .. }) = &next {
                            self.fired[pid] = false;
                            self.in_retry[pid] = true;
                        }
                    }
                    _ => {}
                }
            }
            if let Some(Point::Harness { name: "idle" }) = &next {
                self.armed[pid] = false;
                self.fired[pid] = false;
                self.in_retry[pid] = false;
            }
        } else if pid == self.tx_pid {
            match &point {
                // leaving Sending (mark_sent / release_sending_claim after the fix)
                Point::Hook { site: Site::SwapState, a: 3, .. } => {
                    self.tx_scan = 0;
                    self.tx_inflight = None;
                }
                Point::Hook { site: Site::SwapState, .. } => {
                    if pre_state == Some(2) {
                        // claimed
                    } else {
                        self.tx_scan += 1;
                    }
                    if let Some(Point::Harness { .. }) = &next {
                        self.tx_scan = 0;
                    }
                }
                Point::Hook { site: Site::SetState, .. } | Point::Hook { site: Site::RegTxWaker, .. } => {
                    self.tx_scan = 0;
                    self.tx_inflight = None;
                }
                Point::Hook { site: Site::BufBegin, .. } => {
                    if c == 0 {
                        self.tx_inflight = Some(self.sh.next_frame_id.load(Ordering::SeqCst) - 1);
                    }
                }
                _ => {}
            }
        } else if pid == self.rx_pid {
            match &point {
                Point::Harness { .. } => self.rx_scan = 0,
                Point::Hook { site: Site::FpLoad | Site::StLoad, .. } => {
                    // the scan position moves on when the next point is the next slot's load
                    if matches!(&next, Some(Point::Hook { site: Site::FpLoad, .. })) {
                        self.rx_scan += 1;
                    }
                }
                _ => {}
            }
        }
        let mut ev = self.snapshot();
        ev["p"] = json!(p);
        ev["at"] = json!(point.name());
        ev["c"] = json!(c);
        if let Point::Hook { slot, a, b, .. } = &point {
            ev["slot"] = json!(slot_override.unwrap_or(*slot));
            ev["a"] = json!(a);
            ev["b"] = json!(b);
        }
        ev["next"] = json!(next.as_ref().map(|n| n.name()).unwrap_or("end"));
        if !extra.is_empty() {
            ev["x"] = Value::Array(extra);
        }
        if let Some(msg) = s.panic_of(pid) {
            if !self.panics.iter().any(|m| m.starts_with(&format!("{pid}:"))) {
                self.panics.push(format!("{pid}:{msg}"));
                ev["panic"] = json!(msg);
            }
        }
        self.out.push(ev.to_string());
        true
    }

    /// Finish all work in flight with a fixed deterministic policy, then probe how many frames
    /// can be allocated.
    pub fn drain_and_probe(&mut self) {
        let mut guard = 0;
        loop {
            guard += 1;
            if guard > 5000 {
                self.stuck = true;
                break;
            }
            let en = self.enabled(true);
            // fixed priority: receive, transmit, applications in order
            let pick = en
                .iter()
                .find(|(p, _)| *p == self.rx_pid as i64)
                .or_else(|| en.iter().find(|(p, _)| *p == self.tx_pid as i64))
                .or_else(|| en.iter().find(|(p, _)| *p >= 0))
                .cloned();
            match pick {
                Some((p, c)) => {
                    self.step(p, c);
                }
                None => {
                    // nothing can move: a parked task that nobody will wake. Let its deadline
                    // pass if deadlines are part of this configuration, otherwise it is stuck.
                    let parked: Vec<usize> = (0..self.cfg.apps)
                        .filter(|a| matches!(self.sh.sched.peek(*a), Some(Point::Harness { name: "parked" })))
                        .collect();
                    if parked.is_empty() {
                        break;
                    }
                    let a = parked[0];
                    if self.cfg.allow_timer && self.armed[a] && !self.fired[a] {
                        self.step(ENV_TIMER, a as u64);
                    } else if self.cfg.allow_timer && self.armed[a] {
                        // fired but the task was not woken: lost wake-up
                        self.stuck = true;
                        break;
                    } else {
                        self.stuck = true;
                        break;
                    }
                }
            }
        }
        let mut ev = self.snapshot();
        ev["p"] = json!(-9);
        ev["at"] = json!("Probe");
        ev["stuck"] = json!(self.stuck);
        if !self.stuck {
            // allocate until failure on the driver thread (no process id: yield points fall through)
            let mut held = Vec::new();
            loop {
                match self.sh.pdu_loop.verif_alloc_frame() {
                    Ok(f) => held.push(f),
                    Err(_) => break,
                }
                if held.len() > self.cfg.n + 1 {
                    break;
                }
            }
            ev["count"] = json!(held.len());
            drop(held);
        }
        let post = self.snapshot();
        ev["post_st"] = post["st"].clone();
        self.out.push(ev.to_string());
    }

    pub fn finish(self) -> (Vec<String>, Vec<(i64, u64)>) {
        self.sh.sched.shutdown();
        Sched::uninstall();
        (self.out, self.steps)
    }
}

// ---------------------------------------------------------------------------------------------
// Entry points

#[derive(serde::Deserialize)]
struct ScheduleLine {
    cfg: Cfg,
    steps: Vec<(i64, u64)>,
    #[serde(default)]
    seed: u64,
    #[serde(default)]
    id: String,
}

/// Replay schedules (one JSON object per line) and write the concatenated trace.
pub fn replay(input: &str, output: &str) -> std::io::Result<()> {
    let text = std::fs::read_to_string(input)?;
    let mut out = std::io::BufWriter::new(std::fs::File::create(output)?);
    let mut nruns = 0;
    let mut infeasible = 0;
    for line in text.lines() {
        if line.trim().is_empty() {
            continue;
        }
        let sl: ScheduleLine = serde_json::from_str(line).expect("bad schedule line");
        let mut run = Run::new(sl.cfg.clone(), sl.seed);
        let mut ok = true;
        for (p, c) in &sl.steps {
            if !run.step(*p, *c) {
                ok = false;
                break;
            }
        }
        if !ok {
            infeasible += 1;
        }
        run.drain_and_probe();
        let (lines, _) = run.finish();
        for (i, l) in lines.iter().enumerate() {
            if i == 0 {
                let mut v: Value = serde_json::from_str(l).unwrap();
                v["run"] = json!(sl.id);
                v["followed"] = json!(ok);
                writeln!(out, "{v}")?;
            } else {
                writeln!(out, "{l}")?;
            }
        }
        nruns += 1;
    }
    out.flush()?;
    eprintln!("pduloop replay: {nruns} runs, {infeasible} could not be followed to the end");
    Ok(())
}

/// Seeded random exploration. Writes the trace and, next to it, the schedules that were taken
/// (so that any run can be replayed exactly).
pub fn random(cfg: Cfg, seed: u64, runs: u32, max_steps: u32, output: &str, sched_out: &str) -> std::io::Result<()> {
    let mut out = std::io::BufWriter::new(std::fs::File::create(output)?);
    let mut sout = std::io::BufWriter::new(std::fs::File::create(sched_out)?);
    for r in 0..runs {
        let rseed = seed.wrapping_mul(0x100000001b3).wrapping_add(r as u64);
        let mut rng = Rng::new(rseed);
        let mut run = Run::new(cfg.clone(), rseed);
        // bias: a "focus" process gets fewer turns (PCT-like priority change) so that windows
        // stay open while others run
        let slow = (rng.next_u32() as usize) % (cfg.apps + 2);
        for _ in 0..max_steps {
            let en = run.enabled(false);
            if en.is_empty() {
                break;
            }
            let mut pick = en[(rng.next_u32() as usize) % en.len()];
            if pick.0 == slow as i64 && rng.next_u32() % 4 != 0 {
                pick = en[(rng.next_u32() as usize) % en.len()];
            }
            // rare choices stay rare
            if (pick.0 >= 0 && (pick.0 as usize) < cfg.apps && (pick.1 == 3 || (pick.1 == 2 && matches!(run.sh.sched.peek(pick.0 as usize), Some(Point::Harness { name: "parked" })))))
                && rng.next_u32() % 4 != 0
            {
                continue;
            }
            run.step(pick.0, pick.1);
        }
        run.drain_and_probe();
        let (lines, steps) = run.finish();
        for (i, l) in lines.iter().enumerate() {
            if i == 0 {
                let mut v: Value = serde_json::from_str(l).unwrap();
                v["run"] = json!(format!("r{r}"));
                v["followed"] = json!(true);
                writeln!(out, "{v}")?;
            } else {
                writeln!(out, "{l}")?;
            }
        }
        writeln!(sout, "{}", json!({"cfg": cfg, "steps": steps, "seed": rseed, "id": format!("r{r}")}))?;
    }
    out.flush()?;
    sout.flush()?;
    Ok(())
}
