mod framebuild;
mod pduloop;
mod rng;
mod rxtriage;
mod vsched;

fn usage() -> ! {
    eprintln!("usage: vharness <engine-command> args...");
    std::process::exit(2);
}

fn main() {
    // Panics in the code under test are data, not noise.
    if std::env::var("VHARNESS_PANIC_VERBOSE").is_err() { std::panic::set_hook(Box::new(|_| {})); }
    let args: Vec<String> = std::env::args().collect();
    if args.len() < 2 {
        usage();
    }
    let r = match args[1].as_str() {
        "pduloop-replay" => pduloop::replay(&args[2], &args[3]),
        "pduloop-random" => {
            let cfg: pduloop::Cfg = serde_json::from_str(&args[2]).expect("cfg json");
            pduloop::random(
                cfg,
                args[3].parse().unwrap(),
                args[4].parse().unwrap(),
                args[5].parse().unwrap(),
                &args[6],
                &args[7],
            )
        }
        "framebuild-replay" => framebuild::replay(&args[2], &args[3], args[4].parse().unwrap()),
        "framebuild-random" => framebuild::random(args[2].parse().unwrap(), args[3].parse().unwrap(), &args[4]),
        "rxtriage-replay" => rxtriage::replay(&args[2], &args[3]),
        "rxtriage-random" => rxtriage::random(args[2].parse().unwrap(), args[3].parse().unwrap(), &args[4]),
        _ => usage(),
    };
    if let Err(e) = r {
        eprintln!("vharness: {e}");
        std::process::exit(2);
    }
}
