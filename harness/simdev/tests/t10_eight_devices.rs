//! Eight devices in a tree, small PDU frames (process image split over several LRW frames),
//! random process data both ways, and a determinism check (two identical runs give identical logs).
mod common;

use common::*;
use simdev::devices::{self, BuildOptions};
use simdev::rng::Rng;
use simdev::simnet::{DcKind, Segment, SimEvent, al};
use simdev::simrun;

/// ```text
/// MainDevice - EK1100 -(E-bus, port 3)- EL1008 - EL2008 - EL1859
///                 |
///              (port 1) - EK1101 -(port 3)- DRIVE1 - DRIVE2 - EL2016
/// ```
fn segment() -> Segment {
    let dc = |k| BuildOptions {
        dc_kind: k,
        sii_busy_polls: 1,
        ..Default::default()
    };
    let (mut drive1, _) = devices::build_coe_device("DRIVE1", &dc(DcKind::Bits64));
    let (mut drive2, _) = devices::build_coe_device("DRIVE2", &dc(DcKind::Bits32));
    // Large process images: 30 x 32 bit inputs, 20 x 32 bit outputs for DRIVE1
    {
        let coe = drive1.mailbox_mut().coe_mut();
        let ins: Vec<(u16, u8, u8)> = (0..30).map(|i| (0x6100, i as u8 + 1, 32)).collect();
        let outs: Vec<(u16, u8, u8)> = (0..20).map(|i| (0x7100, i as u8 + 1, 32)).collect();
        coe.set_pdo_mapping(0x1A00, &ins);
        coe.set_pdo_mapping(0x1600, &outs);
        coe.set_array_u16(0x1C13, &[0x1A00]);
    }
    drive2.al_script.accept_after_polls = 2;
    let mut seg = Segment::with_topology(
        vec![
            devices::build_device("EK1100", &devices::coupler("EK1100"), &dc(DcKind::Bits64)),
            devices::build_device("EL1008", &devices::digital_in("EL1008", 8), &dc(DcKind::ReceiveTimesOnly)),
            devices::build_device("EL2008", &devices::digital_out("EL2008", 8), &dc(DcKind::ReceiveTimesOnly)),
            devices::build_device("EL1859", &devices::digital_io("EL1859", 8, 8), &dc(DcKind::Bits64)),
            devices::build_device("EK1101", &devices::coupler("EK1101"), &dc(DcKind::Bits64)),
            drive1,
            drive2,
            devices::build_device("EL2016", &devices::digital_out("EL2016", 16), &dc(DcKind::Bits64)),
        ],
        vec![
            None,
            Some((0, 3)),
            Some((1, 1)),
            Some((2, 1)),
            Some((0, 1)),
            Some((4, 3)),
            Some((5, 1)),
            Some((6, 1)),
        ],
    );
    seg.link_delay_ns = vec![1000, 20, 20, 20, 600, 20, 20, 20];
    for d in &mut seg.devices {
        d.fwd_delay_ns = 30;
    }
    seg
}

struct Outcome {
    log: Vec<SimEvent>,
    frames: u64,
    virtual_us: u64,
    lrw_per_cycle: usize,
}

fn scenario(seed: u64) -> Outcome {
    let mut seg = segment();
    let mut net = simrun::net_small();
    let md = maindevice(&mut net);
    let mut rng = Rng::new(seed);

    let group = run(md.init_single_group::<8, 256>(simrun::now_ns), &mut net, &mut seg).expect("init");
    assert_eq!(group.len(), 8);
    let names: Vec<String> = group.iter(md).map(|s| s.name().to_string()).collect();
    assert_eq!(names, ["EK1100", "EL1008", "EL2008", "EL1859", "EK1101", "DRIVE1", "DRIVE2", "EL2016"]);
    let group = run(group.into_op(md), &mut net, &mut seg).expect("op");
    assert!(seg.devices.iter().all(|d| d.al_state == al::OP));

    // (device, input address, input len, output address, output len)
    let layout: [(usize, u16, usize, u16, usize); 8] = [
        (0, 0, 0, 0, 0),
        (1, 0x1000, 1, 0, 0),
        (2, 0, 0, 0x0F00, 1),
        (3, 0x1000, 1, 0x0F00, 1),
        (4, 0, 0, 0, 0),
        (5, devices::COE_PD_IN, 120, devices::COE_PD_OUT, 80),
        (6, devices::COE_PD_IN, 8, devices::COE_PD_OUT, 6),
        (7, 0, 0, 0x0F00, 2),
    ];
    for (d, _, il, _, ol) in layout {
        let sd = group.subdevice(md, d).unwrap();
        assert_eq!(sd.inputs_raw().len(), il, "inputs of {d}");
        assert_eq!(sd.outputs_raw().len(), ol, "outputs of {d}");
    }

    let mut lrw_per_cycle = 0;
    for cycle in 0..10 {
        let mut ins = Vec::new();
        let mut outs = Vec::new();
        for (d, ia, il, _, ol) in layout {
            let i = rng.bytes(il);
            seg.device_mut(d).mem_write(ia, &i);
            ins.push(i);
            let o = rng.bytes(ol);
            group.subdevice(md, d).unwrap().outputs_raw_mut().copy_from_slice(&o);
            outs.push(o);
        }
        let before = seg.log.len();
        let r = run(group.tx_rx(md), &mut net, &mut seg).expect("tx_rx");
        assert!(r.all_op(), "cycle {cycle}");
        lrw_per_cycle = seg.log[before..]
            .iter()
            .filter(|e| matches!(e, SimEvent::Datagram { cmd: 12, .. }))
            .count();
        for (k, (d, _, _, oa, ol)) in layout.iter().enumerate() {
            assert_eq!(&*group.subdevice(md, *d).unwrap().inputs_raw(), &ins[k][..], "inputs of {d}");
            assert_eq!(seg.device(*d).mem_read(*oa, *ol), &outs[k][..], "outputs of {d}");
        }
    }

    // SDO access still works in OP
    let v = run(group.subdevice(md, 6).unwrap().sdo_read::<u32>(0x2000, 0), &mut net, &mut seg);
    assert_eq!(v, Ok(0xDEAD_BEEF));

    Outcome {
        frames: seg.frames_processed(),
        virtual_us: simrun::now_us(),
        log: seg.drain_log(),
        lrw_per_cycle,
    }
}

#[test]
fn eight_devices_small_frames_deterministic() {
    let a = scenario(7);
    let b = scenario(7);
    println!(
        "8 devices: {} frames, {} events, {} us virtual time, {} LRW frames per cycle",
        a.frames,
        a.log.len(),
        a.virtual_us,
        a.lrw_per_cycle
    );
    // 217 bytes of process image do not fit into one 128 byte PDU
    assert!(a.lrw_per_cycle >= 2);
    assert_eq!(a.frames, b.frames);
    assert_eq!(a.virtual_us, b.virtual_us);
    assert!(a.log == b.log, "two runs with the same seed must produce the same event log");
    // A different seed changes only the process data, which the event log does not record.
    let c = scenario(8);
    assert_eq!(a.frames, c.frames);
}
