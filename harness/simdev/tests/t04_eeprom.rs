mod common;

use common::*;
use ethercrab::error::Error;
use simdev::devices::{self, BuildOptions};
use simdev::sii_image;
use simdev::simnet::{Segment, SimEvent};
use simdev::simrun;

fn segment(opts: &BuildOptions) -> Segment {
    Segment::line(vec![
        devices::build_device("EK1100", &devices::coupler("EK1100"), opts),
        devices::build_device("EL2008", &devices::digital_out("EL2008", 8), opts),
    ])
}

#[test]
fn raw_reads_size_description() {
    for (read8, busy) in [(false, 0), (true, 0), (false, 3), (true, 2)] {
        let opts = BuildOptions {
            sii_read_8: read8,
            sii_busy_polls: busy,
            ..Default::default()
        };
        let mut seg = segment(&opts);
        let mut net = simrun::net_general();
        let md = maindevice(&mut net);
        let group = run(md.init_single_group::<4, 16>(simrun::now_ns), &mut net, &mut seg).expect("init");
        let sd = group.subdevice(md, 1).unwrap();

        let image = seg.device(1).eeprom.clone();
        let mut buf = [0u8; 40];
        let n = run(sd.eeprom_read_raw(md, 0x0040, &mut buf), &mut net, &mut seg).expect("read raw");
        assert_eq!(n, 40);
        assert_eq!(&buf[..], &image[0x80..0x80 + 40]);

        // Typed read: vendor id at word 8
        let vendor: u32 = run(sd.eeprom_read(md, 0x0008), &mut net, &mut seg).expect("typed");
        assert_eq!(vendor, devices::VENDOR_BECKHOFF);

        assert_eq!(run(sd.eeprom_size(md), &mut net, &mut seg), Ok(2048));
        let desc = run(sd.description(), &mut net, &mut seg).expect("description");
        assert_eq!(desc.unwrap().as_str(), "EL2008 8Ch. Dig. Output 24V, 0.5A");
        assert_eq!(sd.name(), "EL2008");
    }
}

#[test]
fn alias_address_is_written_to_eeprom() {
    let mut seg = segment(&BuildOptions::default());
    let mut net = simrun::net_general();
    let md = maindevice(&mut net);
    let mut group = run(md.init_single_group::<4, 16>(simrun::now_ns), &mut net, &mut seg).expect("init");

    assert_eq!(seg.device(1).eeprom_word(4), 0);
    // Like a real EK1100: the checksum write directly behind the alias write is refused 3 times.
    seg.device_mut(1).sii_errors_after_write = 3;
    {
        let mut sd = group.iter_mut(md).nth(1).unwrap();
        run(sd.set_alias_address(0xABCD), &mut net, &mut seg).expect("set alias");
        assert_eq!(sd.alias_address(), 0xABCD);
    }
    let img = &seg.device(1).eeprom;
    assert_eq!(seg.device(1).eeprom_word(4), 0xABCD);
    // Checksum follows
    assert_eq!(u16::from(sii_image::crc8(&img[0..14])), seg.device(1).eeprom_word(7));
    let writes: Vec<_> = seg
        .log
        .iter()
        .filter_map(|e| match e {
            SimEvent::EepromWrite { device: 1, word, data, stored } => Some((*word, *data, *stored)),
            _ => None,
        })
        .collect();
    assert_eq!(writes.len(), 5);
    assert_eq!(writes[0], (4, [0xCD, 0xAB], true));
    assert!(writes[1..4].iter().all(|w| w.0 == 7 && !w.2));
    assert_eq!((writes[4].0, writes[4].2), (7, true));
    seg.device_mut(1).sii_errors_after_write = 0;
    seg.device_mut(1).sii_write_errors = 0;
    // Other device untouched
    assert_eq!(seg.device(0).eeprom_word(4), 0);

    let sd = group.subdevice(md, 1).unwrap();
    assert_eq!(run(sd.read_alias_address_from_eeprom(md), &mut net, &mut seg), Ok(0xABCD));

    // A fresh init picks the alias up (register 0x0012 is loaded from EEPROM at power on only, so
    // power cycle the device first).
    drop(sd);
    seg.device_mut(1).power_on();
    simrun::reset_clock();
    let mut net2 = simrun::net_general();
    let md2 = maindevice(&mut net2);
    let group2 = run(md2.init_single_group::<4, 16>(simrun::now_ns), &mut net2, &mut seg).expect("init 2");
    assert_eq!(group2.subdevice(md2, 1).unwrap().alias_address(), 0xABCD);
}

#[test]
fn write_errors_are_retried() {
    let mut seg = segment(&BuildOptions::default());
    let mut net = simrun::net_general();
    let md = maindevice(&mut net);
    let group = run(md.init_single_group::<4, 16>(simrun::now_ns), &mut net, &mut seg).expect("init");
    let sd = group.subdevice(md, 1).unwrap();

    seg.device_mut(1).sii_write_errors = 3;
    run(sd.eeprom_write_dangerously(md, 0x0004, 0x1357u16), &mut net, &mut seg).expect("write");
    assert_eq!(seg.device(1).eeprom_word(4), 0x1357);
    let attempts = seg
        .log
        .iter()
        .filter(|e| matches!(e, SimEvent::EepromWrite { device: 1, word: 4, .. }))
        .count();
    assert_eq!(attempts, 4);

    // More errors than ethercrab retries (20): the write is silently lost, no error is reported.
    seg.device_mut(1).sii_write_errors = 100;
    let r = run(sd.eeprom_write_dangerously(md, 0x0004, 0x2468u16), &mut net, &mut seg);
    println!("write with persistent command errors: {r:?}");
    assert_eq!(seg.device(1).eeprom_word(4), 0x1357);
    assert_eq!(seg.device(1).sii_write_errors, 100 - 21);
}

#[test]
fn eeprom_busy_forever_times_out() {
    let mut seg = segment(&BuildOptions::default());
    let mut net = simrun::net_general();
    let md = maindevice(&mut net);
    let group = run(md.init_single_group::<4, 16>(simrun::now_ns), &mut net, &mut seg).expect("init");
    let sd = group.subdevice(md, 1).unwrap();
    seg.device_mut(1).sii_busy_polls = u32::MAX;
    let t0 = simrun::now_us();
    let r: Result<u32, Error> = run(sd.eeprom_read(md, 0x0008), &mut net, &mut seg);
    assert!(matches!(r, Err(Error::Timeout(_))), "{r:?}");
    let dt = simrun::now_us() - t0;
    assert!((10_000..11_000).contains(&dt), "eeprom timeout is 10 ms, took {dt} us");
}
