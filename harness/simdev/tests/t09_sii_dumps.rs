//! Cross checks of the SII encoder/decoder against real EEPROM dumps, and the real MainDevice
//! running against devices that carry those real images.
mod common;

use common::*;
use simdev::coe::{CoeServer, Mailbox};
use simdev::sii_image::{self, cat};
use simdev::simnet::{DcKind, Device, EscInfo, Segment, al};
use simdev::simrun;

const DUMPS: &[&str] = &[
    "akd.hex",
    "ek1100.hex",
    "el2262.bin",
    "el2828.hex",
    "el2889.hex",
    "hbm_clipx_eeprom_dump.bin",
];

fn dump(name: &str) -> Vec<u8> {
    std::fs::read(format!("/repo/dumps/eeprom/{name}")).expect(name)
}

#[test]
fn decode_and_reencode_real_dumps() {
    for name in DUMPS {
        let img = dump(name);
        // Header checksum
        assert_eq!(
            u16::from(sii_image::crc8(&img[0..14])),
            u16::from_le_bytes([img[14], img[15]]),
            "{name}: checksum"
        );
        let cats = sii_image::walk_categories(&img);
        assert!(cats.iter().any(|(t, _, _)| *t == cat::GENERAL), "{name}: general category");
        assert!(cats.iter().any(|(t, _, _)| *t == cat::STRINGS), "{name}: strings category");
        // The walk must end exactly on the end marker
        let (_, last_word, last_data) = cats.last().unwrap();
        let end = last_word * 2 + last_data.len();
        assert_eq!(&img[end..end + 2], &[0xFF, 0xFF], "{name}: end marker");

        let desc = sii_image::decode(&img);
        let order = desc.strings.get(usize::from(desc.order_idx).wrapping_sub(1)).cloned().unwrap_or_default();
        println!(
            "{name}: vendor {:#x} product {:#x} order {:?} {} strings, {} SMs, {} FMMUs, {} TxPDOs, {} RxPDOs, mailbox {:?}, categories {:?}",
            desc.vendor_id,
            desc.product_id,
            String::from_utf8_lossy(&order),
            desc.strings.len(),
            desc.sync_managers.len(),
            desc.fmmu_usage.len(),
            desc.tx_pdos.len(),
            desc.rx_pdos.len(),
            desc.mailbox.as_ref().map(|m| (m.recv_offset, m.recv_size, m.send_offset, m.send_size, m.protocols)),
            cats.iter().map(|(t, _, d)| (*t, d.len())).collect::<Vec<_>>()
        );

        // Re-encode: the category area must be byte identical (the decoder keeps the order and the
        // raw unknown categories), the header identical where the description carries the field.
        let mut d2 = desc.clone();
        d2.size_kbit = (img.len() / 128) as u32;
        let re = sii_image::encode(&d2);
        let cat_end = end + 2;
        let same_cats = re[0x80..cat_end] == img[0x80..cat_end];
        let same_head = re[0..0x80] == img[0..0x80];
        println!("  re-encode: header byte identical: {same_head}, categories byte identical: {same_cats}");
        assert!(same_head, "{name}");
        assert!(same_cats, "{name}");
        let back = sii_image::decode(&re);
        assert_eq!(back.strings, desc.strings, "{name}");
        assert_eq!(back.sync_managers, desc.sync_managers, "{name}");
        assert_eq!(back.tx_pdos, desc.tx_pdos, "{name}");
        assert_eq!(back.rx_pdos, desc.rx_pdos, "{name}");
        assert_eq!(back.fmmu_usage, desc.fmmu_usage, "{name}");
        assert_eq!(back.extra_categories, desc.extra_categories, "{name}");
    }
}

fn real_device(label: &str, image: &str, dc: DcKind) -> Device {
    let img = dump(image);
    let desc = sii_image::decode(&img);
    let mut d = Device::new(
        label,
        img,
        EscInfo {
            fmmu_count: 8,
            sm_count: 8,
            ..EscInfo::default()
        },
        dc,
    );
    d.sii_read_8 = true;
    d.sii_busy_polls = 1;
    if desc.mailbox.as_ref().is_some_and(|m| m.recv_size > 0) {
        d.mailbox = Some(Mailbox::new(Some(CoeServer::new())));
    }
    d
}

/// EK1100 + EL2828 + EL2889 with their real EEPROM contents (the network of
/// /repo/tests/replay-ek1100-el2828-el2889.pcapng).
#[test]
fn maindevice_on_real_images() {
    let mut seg = Segment::line(vec![
        real_device("EK1100", "ek1100.hex", DcKind::Bits64),
        real_device("EL2828", "el2828.hex", DcKind::Bits64),
        real_device("EL2889", "el2889.hex", DcKind::Bits64),
    ]);
    seg.link_delay_ns = vec![200, 80, 80];
    let mut net = simrun::net_general();
    let md = maindevice(&mut net);
    let group = run(md.init_single_group::<8, 32>(simrun::now_ns), &mut net, &mut seg).expect("init");
    let names: Vec<String> = group.iter(md).map(|s| s.name().to_string()).collect();
    assert_eq!(names, ["EK1100", "EL2828", "EL2889"]);
    let ids: Vec<u32> = group.iter(md).map(|s| s.identity().product_id).collect();
    assert_eq!(ids, [0x044c2c52, 0x0b0c3052, 0x0b493052]);
    let desc = run(group.subdevice(md, 1).unwrap().description(), &mut net, &mut seg).unwrap().unwrap();
    assert_eq!(desc.as_str(), "EL2828 8K. Dig. Ausgang 24V, 2A");

    let group = run(group.into_op(md), &mut net, &mut seg).expect("op");
    assert!(seg.devices.iter().all(|d| d.al_state == al::OP));
    // EL2828: 8 outputs (1 byte), EL2889: 16 outputs (2 bytes)
    group.subdevice(md, 1).unwrap().outputs_raw_mut()[0] = 0xA5;
    group.subdevice(md, 2).unwrap().outputs_raw_mut().copy_from_slice(&[0x12, 0x34]);
    let r = run(group.tx_rx(md), &mut net, &mut seg).expect("tx_rx");
    assert_eq!(r.working_counter, 4);
    // Sync manager start addresses come from the real images (0x0F00)
    assert_eq!(seg.device(1).mem_read(0x0F00, 1), [0xA5]);
    let sm = seg.device(2).sm_raw(0);
    let start = u16::from_le_bytes([sm[0], sm[1]]);
    assert_eq!(seg.device(2).mem_read(start, 2), [0x12, 0x34]);
}

/// The Kollmorgen AKD image: a CoE drive with 1 KiB mailboxes. PDO configuration comes from the
/// object dictionary (we provide a minimal one).
#[test]
fn maindevice_on_akd_image() {
    let mut akd = real_device("AKD", "akd.hex", DcKind::Bits64);
    {
        let coe = akd.mailbox_mut().coe_mut();
        coe.set_array_u16(0x1C12, &[0x1725]);
        coe.set_array_u16(0x1C13, &[0x1B20]);
        coe.set_pdo_mapping(0x1725, &[(0x6040, 0, 16), (0x60C1, 1, 32), (0x60FE, 1, 32)]);
        coe.set_pdo_mapping(0x1B20, &[(0x6063, 0, 32), (0x6041, 0, 16), (0x60FD, 0, 32), (0x3470, 4, 16)]);
    }
    let mut seg = Segment::line(vec![akd]);
    let mut net = simrun::net_general();
    let md = maindevice(&mut net);
    let group = run(md.init_single_group::<2, 64>(simrun::now_ns), &mut net, &mut seg).expect("init");
    let sd = group.subdevice(md, 0).unwrap();
    assert_eq!(sd.name(), "AKD");
    drop(sd);
    // Mailbox SMs as programmed by the MainDevice from the image: 0x1800/0x1C00, 1024 bytes
    let sm0 = seg.device(0).sm_raw(0);
    let sm1 = seg.device(0).sm_raw(1);
    assert_eq!(&sm0[0..4], &[0x00, 0x18, 0x00, 0x04]);
    assert_eq!(&sm1[0..4], &[0x00, 0x1C, 0x00, 0x04]);
    let group = run(group.into_op(md), &mut net, &mut seg).expect("op");
    let sd = group.subdevice(md, 0).unwrap();
    assert_eq!(sd.outputs_raw().len(), 10);
    assert_eq!(sd.inputs_raw().len(), 12);
}
