//! Library features added for the `vsim2` engines: frame capture, DL status / port time overrides,
//! system time preset, outbound arrival times, SDO reply injection, scripted reply options and the
//! multi task executor.

mod common;

use common::*;
use ethercrab::error::{Error, MailboxError};
use ethercrab::{Command, RegisterAddress};
use simdev::coe::SdoInject;
use simdev::devices::{self, BuildOptions};
use simdev::simnet::{DcKind, Segment, cmd, parse_datagrams};
use simdev::simrun::{self, Limits, MultiConfig, MultiOutcome, Task};
use std::cell::RefCell;
use std::rc::Rc;

fn dc_opts(kind: DcKind) -> BuildOptions {
    BuildOptions {
        dc_kind: kind,
        ..Default::default()
    }
}

fn small_segment() -> Segment {
    let opts = dc_opts(DcKind::Bits64);
    Segment::line(vec![
        devices::build_device("EK1100", &devices::coupler("EK1100"), &opts),
        devices::build_device("EL1859", &devices::digital_io("EL1859", 8, 8), &opts),
        devices::build_coe_device("SIMDRIVE", &opts).0,
    ])
}

#[test]
fn capture_records_requests_and_responses() {
    let mut seg = small_segment();
    let mut net = simrun::net_general();
    let md = maindevice(&mut net);
    seg.capture = Some(Vec::new());
    let v = run(Command::brd(RegisterAddress::Type.into()).with_wkc(3).receive::<u8>(md), &mut net, &mut seg).unwrap();
    assert_eq!(v, 0x11);
    let frames = seg.capture.take().unwrap();
    assert_eq!(frames.len(), 1);
    let req = parse_datagrams(&frames[0].request);
    let resp = parse_datagrams(frames[0].response.as_ref().unwrap());
    assert_eq!(req.len(), 1);
    assert_eq!((req[0].cmd, req[0].ado(), req[0].len, req[0].wkc), (cmd::BRD, 0, 1, 0));
    assert_eq!((resp[0].wkc, resp[0].adp()), (3, 3), "wkc and auto incremented address field");
    assert_eq!(resp[0].data, [0x11]);
    assert!(seg.capture.is_none());
    // Garbage is not a datagram list
    assert!(parse_datagrams(&[0u8; 20]).is_empty());
}

#[test]
fn dl_status_and_port_time_overrides() {
    let mut seg = small_segment();
    seg.device_mut(1).dl_status_override = Some(0xBEEF);
    seg.device_mut(1).port_times_override = Some([1, 2, 3, 4]);
    let mut net = simrun::net_general();
    let md = maindevice(&mut net);
    let dl = run(Command::aprd(1, 0x0110).receive::<u16>(md), &mut net, &mut seg).unwrap();
    assert_eq!(dl, 0xBEEF);
    let dl0 = run(Command::aprd(0, 0x0110).receive::<u16>(md), &mut net, &mut seg).unwrap();
    assert_ne!(dl0, 0xBEEF);
    run(Command::bwr(0x0900).ignore_wkc().send(md, 0u32), &mut net, &mut seg).unwrap();
    assert_eq!(
        [0x900u16, 0x904, 0x908, 0x90C].map(|r| seg.device(1).reg_u32(r)),
        [1, 2, 3, 4],
        "closed ports are forced too"
    );
    assert_ne!(seg.device(0).reg_u32(0x900), 1);
}

#[test]
fn preset_system_time_and_arrival_times() {
    let mut seg = small_segment();
    seg.link_delay_ns = vec![300, 100, 150];
    for d in seg.devices.iter_mut() {
        d.fwd_delay_ns = 40;
    }
    assert_eq!(seg.outbound_arrival_ns(), [Some(300), Some(440), Some(630)]);
    seg.device_mut(2).present = false;
    assert_eq!(seg.outbound_arrival_ns(), [Some(300), Some(440), None]);
    seg.device_mut(2).present = true;

    let mut net = simrun::net_general();
    let md = maindevice(&mut net);
    seg.device_mut(0).mem_write(0x0920, &77u64.to_le_bytes());
    let now = simrun::now_us() * 1000;
    seg.device_mut(0).preset_system_time(now, 0xFFFF_FFFF_FFFF_0000);
    assert_eq!(seg.device(0).system_time(now), 0xFFFF_FFFF_FFFF_0000);
    let t = run(Command::aprd(0, 0x0910).receive::<u64>(md), &mut net, &mut seg).unwrap();
    // the frame needs the link delay to reach the device
    assert_eq!(t, 0xFFFF_FFFF_FFFF_0000 + 300);
}

#[test]
fn sdo_reply_injection_and_scripted_options() {
    let mut seg = small_segment();
    let mut net = simrun::net_general();
    let md = maindevice(&mut net);
    let group = run(md.init_single_group::<4, 32>(simrun::now_ns), &mut net, &mut seg).expect("init");
    let sd = group.subdevice(md, 2).unwrap();

    seg.device_mut(2).mailbox_mut().coe_mut().inject = Some(SdoInject::Abort(0x0601_0002));
    let e = run(sd.sdo_read::<u32>(0x2000, 0), &mut net, &mut seg);
    assert!(
        matches!(e, Err(Error::Mailbox(MailboxError::Aborted { address: 0x2000, sub_index: 0, .. }))),
        "{e:?}"
    );
    // one shot
    assert_eq!(run(sd.sdo_read::<u32>(0x2000, 0), &mut net, &mut seg), Ok(0xDEAD_BEEF));

    seg.device_mut(2).mailbox_mut().coe_mut().inject = Some(SdoInject::WrongIndex);
    let e = run(sd.sdo_read::<u32>(0x2000, 0), &mut net, &mut seg);
    assert!(
        matches!(e, Err(Error::Mailbox(MailboxError::SdoResponseInvalid { address: 0x2001, sub_index: 0 }))),
        "{e:?}"
    );
    seg.device_mut(2).mailbox_mut().coe_mut().inject = Some(SdoInject::WrongSub);
    let e = run(sd.sdo_read::<u32>(0x2000, 0), &mut net, &mut seg);
    assert!(
        matches!(e, Err(Error::Mailbox(MailboxError::SdoResponseInvalid { address: 0x2000, sub_index: 1 }))),
        "{e:?}"
    );

    // Scripted reply that keeps being repeated: an expedited response for 0x2000:0 with another value
    let reply = vec![0x0A, 0, 0, 0, 0, 0x13, 0x00, 0x30, 0x43, 0x00, 0x20, 0x00, 1, 2, 3, 4];
    {
        let mb = seg.device_mut(2).mailbox_mut();
        mb.scripted_replies.push_back(reply.clone());
        mb.scripted_repeat_last = true;
    }
    for _ in 0..3 {
        assert_eq!(run(sd.sdo_read::<u32>(0x2000, 0), &mut net, &mut seg), Ok(0x0403_0201));
    }
    {
        let mb = seg.device_mut(2).mailbox_mut();
        mb.scripted_repeat_last = false;
    }
    // `scripted_repeat_last = false` still remembers nothing new: the server answers again
    seg.device_mut(2).mailbox_mut().scripted_replies.clear();
    // (the remembered reply is only used while the flag is set)
    assert_eq!(run(sd.sdo_read::<u32>(0x2000, 0), &mut net, &mut seg), Ok(0xDEAD_BEEF));

    // Burst: two scripted messages answer one request; the second one stays in the queue and is
    // delivered next (ethercrab clears a full read mailbox before its next request).
    {
        let mb = seg.device_mut(2).mailbox_mut();
        mb.scripted_replies.push_back(reply.clone());
        mb.scripted_replies.push_back(reply.clone());
        mb.scripted_burst = true;
    }
    assert_eq!(run(sd.sdo_read::<u32>(0x2000, 0), &mut net, &mut seg), Ok(0x0403_0201));
    assert!(seg.device(2).mailbox.as_ref().unwrap().scripted_replies.is_empty());
    assert_eq!(run(sd.sdo_read::<u32>(0x2000, 0), &mut net, &mut seg), Ok(0xDEAD_BEEF));
}

fn run_two_readers(seed: u64) -> (Vec<Vec<u16>>, simrun::MultiStats) {
    let mut seg = small_segment();
    let mut net = simrun::net_general();
    let md = maindevice(&mut net);
    let _group = run(md.init_single_group::<4, 32>(simrun::now_ns), &mut net, &mut seg).expect("init");
    let results: Rc<RefCell<Vec<Vec<u16>>>> = Rc::new(RefCell::new(vec![Vec::new(); 3]));
    let mut tasks: Vec<Task<'_>> = Vec::new();
    for t in 0..3u16 {
        let results = results.clone();
        tasks.push(Box::pin(async move {
            for _ in 0..5 {
                let v = Command::fprd(0x1000 + t, 0x0010).receive::<u16>(md).await.unwrap_or(0xFFFF);
                results.borrow_mut()[usize::from(t)].push(v);
            }
        }));
    }
    let outcome = simrun::run_tasks(
        tasks,
        &mut net.tx,
        &mut net.rx,
        &mut seg,
        Limits::default(),
        MultiConfig {
            seed,
            latency_us: (1, 400),
            ..Default::default()
        },
    );
    assert!(matches!(outcome, MultiOutcome::Done(_)), "{outcome:?}");
    let r = results.borrow().clone();
    (r, outcome.stats().clone())
}

#[test]
fn multi_task_executor_overlaps_frames_and_is_deterministic() {
    let (r1, s1) = run_two_readers(5);
    for (t, r) in r1.iter().enumerate() {
        assert_eq!(r, &vec![0x1000 + t as u16; 5], "every task gets its own answers");
    }
    assert_eq!(s1.frames_sent, 15);
    assert!(s1.max_in_flight >= 2, "{s1:?}");
    assert!(s1.overtakes > 0, "responses are delivered out of order: {s1:?}");
    assert_eq!(s1.completed, [true, true, true]);
    let (r2, s2) = run_two_readers(5);
    assert_eq!((r1, &s1), (r2, &s2));
    let (_, s3) = run_two_readers(6);
    assert_ne!(s1, s3, "another seed gives another schedule");
}

#[test]
fn multi_task_executor_reports_hang_and_timeouts() {
    let mut seg = small_segment();
    let mut net = simrun::net_general();
    let md = maindevice(&mut net);
    // A task that waits for something that never happens
    let tasks: Vec<Task<'_>> = vec![Box::pin(std::future::pending::<()>())];
    let o = simrun::run_tasks(tasks, &mut net.tx, &mut net.rx, &mut seg, Limits::default(), MultiConfig::default());
    assert!(matches!(o, MultiOutcome::Hang(_)), "{o:?}");
    assert_eq!(o.stats().completed, [false]);

    // Latency beyond the PDU timeout (2 ms): the request times out, the late response is refused
    let got = Rc::new(RefCell::new(None));
    let g = got.clone();
    let tasks: Vec<Task<'_>> = vec![Box::pin(async move {
        *g.borrow_mut() = Some(Command::fprd(0x1000, 0x0010).receive::<u16>(md).await);
    })];
    let o = simrun::run_tasks(
        tasks,
        &mut net.tx,
        &mut net.rx,
        &mut seg,
        Limits::default(),
        MultiConfig {
            latency_us: (5000, 5000),
            ..Default::default()
        },
    );
    assert!(matches!(o, MultiOutcome::Done(_)), "{o:?}");
    assert!(matches!(*got.borrow(), Some(Err(Error::Timeout(_)))), "{:?}", got.borrow());
}
