mod common;

use common::*;
use simdev::devices::{self, BuildOptions};
use simdev::simnet::{Segment, al};
use simdev::simrun;

#[test]
fn init_two_devices() {
    let opts = BuildOptions::default();
    let seg_devices = vec![
        devices::build_device("EK1100", &devices::coupler("EK1100"), &opts),
        devices::build_device("EL1859", &devices::digital_io("EL1859", 8, 8), &opts),
    ];
    let mut seg = Segment::line(seg_devices);
    let mut net = simrun::net_general();
    let md = maindevice(&mut net);

    let group = run(md.init_single_group::<8, 32>(simrun::now_ns), &mut net, &mut seg).expect("init");

    assert_eq!(group.len(), 2);
    let names: Vec<String> = group.iter(md).map(|s| s.name().to_string()).collect();
    assert_eq!(names, ["EK1100", "EL1859"]);
    for (i, sd) in group.iter(md).enumerate() {
        assert_eq!(sd.configured_address(), 0x1000 + i as u16);
    }
    assert_eq!(seg.device(0).al_state, al::PREOP);
    assert_eq!(seg.device(1).al_state, al::PREOP);
    assert_eq!(seg.device(1).station_address(), 0x1001);
}
