//! Shared helpers for the integration tests.
#![allow(dead_code)]

use ethercrab::{MainDevice, MainDeviceConfig, RetryBehaviour, Timeouts};
use simdev::simrun::{self, Limits, Net, RunOutcome};
use simdev::simnet::Segment;
use std::future::Future;
use std::time::Duration;

pub fn timeouts() -> Timeouts {
    Timeouts {
        state_transition: Duration::from_millis(500),
        pdu: Duration::from_millis(2),
        eeprom: Duration::from_millis(10),
        wait_loop_delay: Duration::from_micros(100),
        mailbox_echo: Duration::from_millis(20),
        mailbox_response: Duration::from_millis(50),
    }
}

pub fn config() -> MainDeviceConfig {
    MainDeviceConfig {
        dc_static_sync_iterations: 50,
        retry_behaviour: RetryBehaviour::None,
    }
}

/// Leaks a MainDevice so that it is `'static` like in real applications.
pub fn maindevice(net: &mut Net) -> &'static MainDevice<'static> {
    simrun::reset_clock();
    Box::leak(Box::new(MainDevice::new(net.take_loop(), timeouts(), config())))
}

pub fn maindevice_with(net: &mut Net, t: Timeouts, c: MainDeviceConfig) -> &'static MainDevice<'static> {
    simrun::reset_clock();
    Box::leak(Box::new(MainDevice::new(net.take_loop(), t, c)))
}

pub fn run<F: Future>(fut: F, net: &mut Net, seg: &mut Segment) -> F::Output {
    simrun::block_on(fut, &mut net.tx, &mut net.rx, seg, Limits::default()).unwrap()
}

pub fn run_outcome<F: Future>(fut: F, net: &mut Net, seg: &mut Segment, limits: Limits) -> RunOutcome<F::Output> {
    simrun::block_on(fut, &mut net.tx, &mut net.rx, seg, limits)
}
