mod common;

use common::*;
use ethercrab::{DcSync, RegisterAddress, subdevice_group::DcConfiguration};
use simdev::devices::{self, BuildOptions};
use simdev::simnet::{DcKind, Segment, SimEvent};
use simdev::simrun;
use std::time::Duration;

fn dc_opts(kind: DcKind) -> BuildOptions {
    BuildOptions {
        dc_kind: kind,
        ..Default::default()
    }
}

fn dc_writes(seg: &Segment, device: usize, ado: u16) -> Vec<Vec<u8>> {
    seg.log
        .iter()
        .filter_map(|e| match e {
            SimEvent::DcWrite { device: d, ado: a, data } if *d == device && *a == ado => Some(data.clone()),
            _ => None,
        })
        .collect()
}

/// Line of 4 devices: DC64, receive times only, DC32, DC64. Zero forwarding delay,
/// 100/150/250 ns links.
#[test]
fn line_topology_offsets_and_delays() {
    let mut seg = Segment::line(vec![
        devices::build_device("EK1100", &devices::coupler("EK1100"), &dc_opts(DcKind::Bits64)),
        devices::build_device("EL1008", &devices::digital_in("EL1008", 8), &dc_opts(DcKind::ReceiveTimesOnly)),
        devices::build_device("EL2008", &devices::digital_out("EL2008", 8), &dc_opts(DcKind::Bits32)),
        devices::build_coe_device("SIMDRIVE", &dc_opts(DcKind::Bits64)).0,
    ]);
    seg.link_delay_ns = vec![500, 100, 150, 250];
    for (i, d) in seg.devices.iter_mut().enumerate() {
        d.clock_offset_ns = 1_000_000_000 * (i as u64 + 1) + 12_345 * i as u64;
    }
    let mut net = simrun::net_general();
    let md = maindevice(&mut net);
    // Start at a non-zero virtual time so that `now` is not trivially zero.
    simrun::advance_us(1_000_000);

    let group = run(md.init_single_group::<8, 64>(simrun::now_ns), &mut net, &mut seg).expect("init");

    // Latch happened in all four devices (the EL1008 has receive times only)
    let latches: Vec<usize> = seg
        .log
        .iter()
        .filter_map(|e| match e {
            SimEvent::DcLatch { device, .. } => Some(*device),
            _ => None,
        })
        .collect();
    assert_eq!(latches, [0, 1, 2, 3]);
    assert!(seg.log.iter().any(|e| matches!(
        e,
        SimEvent::Datagram { cmd: 8, ado: 0x0900, wkc: 4, .. }
    )));

    // Offsets and delays were written to every DC device
    for d in [0usize, 2, 3] {
        assert_eq!(dc_writes(&seg, d, 0x0920).len(), 2, "reset + offset for device {d}");
        assert_eq!(dc_writes(&seg, d, 0x0928).len(), 2, "reset + delay for device {d}");
    }
    assert!(dc_writes(&seg, 1, 0x0920).is_empty());

    // Propagation delays with zero forwarding delay are the accumulated link delays.
    assert_eq!(seg.device(0).reg_u32(0x0928), 0);
    assert_eq!(seg.device(2).reg_u32(0x0928), 100 + 150);
    assert_eq!(seg.device(3).reg_u32(0x0928), 100 + 150 + 250);
    let delays: Vec<u32> = group.iter(md).map(|s| s.propagation_delay()).collect();
    assert_eq!(delays, [0, 100, 250, 500]);

    // After static drift compensation all system times agree (32 bit device: low 32 bits)
    let t = seg.now_ns + 1_000_000;
    let reference = seg.device(0).system_time(t);
    let s3 = seg.device(3).system_time(t);
    let s2 = seg.device(2).system_time(t);
    assert!(reference.abs_diff(s3) <= 2, "{reference} vs {s3}");
    assert!((reference & 0xFFFF_FFFF).abs_diff(s2) <= 2, "{reference} vs {s2}");
    // ... and the reference clock's system time is about "now" (virtual time in ns)
    let now = simrun::now_ns() + 1_000_000;
    assert!(reference.abs_diff(now) < 5_000_000, "reference {reference}, now {now}");
    // System time difference registers are (nearly) zero
    assert!(seg.device(3).reg_u32(0x092C) & 0x7FFF_FFFF <= 2);
    assert!(seg.device(2).reg_u32(0x092C) & 0x7FFF_FFFF <= 2);
}

/// Tree: coupler A (ports 0, 3, 1) with two terminals on its E-bus (port 3) and a second coupler B
/// on port 1 which carries the drive on its E-bus.
#[test]
fn tree_topology_sync0() {
    let mut seg = Segment::with_topology(
        vec![
            devices::build_device("EK1100", &devices::coupler("EK1100"), &dc_opts(DcKind::Bits64)),
            devices::build_device("EL1008", &devices::digital_in("EL1008", 8), &dc_opts(DcKind::Bits64)),
            devices::build_device("EL2008", &devices::digital_out("EL2008", 8), &dc_opts(DcKind::None)),
            devices::build_device("EK1101", &devices::coupler("EK1101"), &dc_opts(DcKind::Bits32)),
            devices::build_coe_device("SIMDRIVE", &dc_opts(DcKind::Bits64)).0,
        ],
        vec![None, Some((0, 3)), Some((1, 1)), Some((0, 1)), Some((3, 3))],
    );
    seg.link_delay_ns = vec![300, 100, 100, 100, 100];
    for (i, d) in seg.devices.iter_mut().enumerate() {
        d.clock_offset_ns = 77_000_000 * i as u64;
        d.fwd_delay_ns = 40;
    }
    let mut net = simrun::net_general();
    let md = maindevice(&mut net);
    simrun::advance_us(5_000);

    let mut group = run(md.init_single_group::<8, 64>(simrun::now_ns), &mut net, &mut seg).expect("init");

    // DL status derived from the topology: A has ports 0, 1, 3 open, EL2008 only port 0
    assert_eq!(seg.device(0).ports_open, [true, true, false, true]);
    assert_eq!(seg.device(2).ports_open, [true, false, false, false]);
    assert_eq!(seg.device(3).ports_open, [true, false, false, true]);

    let delays: Vec<u32> = group.iter(md).map(|s| s.propagation_delay()).collect();
    println!("tree propagation delays computed by ethercrab: {delays:?}");
    // True one way delays from the reference clock's port 0 (link 100 ns, forwarding 40 ns):
    // EL1008: 40+100, EK1101: leaves A through port 1 after the E-bus branch came back.
    println!(
        "registers 0x0928: {:?}",
        (0..5).map(|i| seg.device(i).reg_u32(0x0928)).collect::<Vec<_>>()
    );
    assert_eq!(seg.device(1).reg_u32(0x0928), delays[1]);
    assert_eq!(seg.device(3).reg_u32(0x0928), delays[3]);
    assert_eq!(seg.device(4).reg_u32(0x0928), delays[4]);

    // SYNC0 for the drive and the input terminal
    for mut sd in group.iter_mut(md) {
        if sd.name() == "SIMDRIVE" || sd.name() == "EL1008" {
            sd.set_dc_sync(DcSync::Sync0);
        }
    }
    let group = run(group.into_pre_op_pdi(md), &mut net, &mut seg).expect("pre-op pdi");
    let cycle = Duration::from_millis(2);
    let group = run(
        group.configure_dc_sync(
            md,
            DcConfiguration {
                start_delay: Duration::from_millis(10),
                sync0_period: cycle,
                sync0_shift: Duration::from_micros(500),
            },
        ),
        &mut net,
        &mut seg,
    )
    .expect("configure dc sync");

    for d in [1usize, 4] {
        let dev = seg.device(d);
        assert_eq!(dev.reg_u8(0x0981), 0x03, "sync0 + cyclic operation");
        assert_eq!(dev.reg_u32(0x09A0), 2_000_000);
        let start = dev.reg_u64(0x0990);
        assert_eq!(start % 2_000_000, 0);
        let sys = seg.device(0).system_time(seg.now_ns);
        assert!(start > sys && start - sys <= 12_000_000, "start {start} sys {sys}");
    }
    assert_eq!(seg.device(0).reg_u8(0x0981), 0);
    assert_eq!(seg.device(3).reg_u8(0x0981), 0);
    // ethercrab writes the 32 bit SYNC0 cycle time register with 8 bytes, i.e. it also overwrites
    // the SYNC1 cycle time register 0x09A4 (with zero).
    let w = dc_writes(&seg, 4, 0x09A0);
    println!("writes to 0x09A0 of the drive: {w:02x?}");
    assert_eq!(w.last().unwrap().len(), 8);

    let group = run(group.into_op(md), &mut net, &mut seg).expect("op");

    seg.device_mut(1).mem_write(0x1000, &[0x99]);
    let mut last_time = 0;
    for i in 0..10 {
        let r = run(group.tx_rx_dc(md), &mut net, &mut seg).expect("tx_rx_dc");
        assert!(r.all_op());
        // EL1008 in (+1), EL2008 out (+2), drive in+out (+3)
        assert_eq!(r.working_counter, 6);
        let info = r.extra;
        assert!(info.dc_system_time > last_time, "system time must advance");
        last_time = info.dc_system_time;
        assert!(info.cycle_start_offset < cycle);
        assert!(info.next_cycle_wait <= cycle + Duration::from_micros(500));
        let reference = seg.device(0).system_time(seg.now_ns);
        assert!(reference.abs_diff(info.dc_system_time) < 100_000, "cycle {i}");
        // Wait like an application would
        simrun::advance_us(info.next_cycle_wait.as_micros() as u64);
    }
    assert_eq!(&*group.subdevice(md, 1).unwrap().inputs_raw(), &[0x99]);

    // The reference clock can also be read through the public register API
    let sd = group.subdevice(md, 0).unwrap();
    let t: u64 = run(sd.register_read(RegisterAddress::DcSystemTime), &mut net, &mut seg).unwrap();
    assert!(t >= last_time);
}

/// Devices that only have receive time registers (like the EK1914): no DC reference is chosen
/// when nobody has a system time... ethercrab treats them as DC capable though.
#[test]
fn receive_times_only_devices() {
    let mut seg = Segment::line(vec![
        devices::build_device(
            "EK1100",
            &devices::coupler("EK1100"),
            &BuildOptions {
                dc_kind: DcKind::ReceiveTimesOnly,
                features: 0x00FC,
                ..Default::default()
            },
        ),
        devices::build_device("EL1008", &devices::digital_in("EL1008", 8), &dc_opts(DcKind::None)),
    ]);
    seg.link_delay_ns = vec![100, 100];
    let mut net = simrun::net_general();
    let md = maindevice(&mut net);
    let group = run(md.init_single_group::<4, 16>(simrun::now_ns), &mut net, &mut seg).expect("init");
    // Like in replay-ek1914-el3004-configure.pcapng the FRMW frames come back with wkc 0.
    assert!(seg.log.iter().any(|e| matches!(e, SimEvent::Datagram { cmd: 14, wkc: 0, .. })));
    assert_eq!(group.len(), 2);
}

/// A device without any DC support between two DC devices: ethercrab never reads its port times,
/// so the delay of everything behind it is computed relative to a parent with "zero" times.
#[test]
fn non_dc_device_in_the_middle_breaks_delay_accumulation() {
    let mut seg = Segment::line(vec![
        devices::build_device("EK1100", &devices::coupler("EK1100"), &dc_opts(DcKind::Bits64)),
        devices::build_device("EL1008", &devices::digital_in("EL1008", 8), &dc_opts(DcKind::None)),
        devices::build_device("EL2008", &devices::digital_out("EL2008", 8), &dc_opts(DcKind::Bits64)),
        devices::build_device("EL2009", &devices::digital_out("EL2009", 8), &dc_opts(DcKind::Bits64)),
    ]);
    seg.link_delay_ns = vec![500, 100, 150, 250];
    let mut net = simrun::net_general();
    let md = maindevice(&mut net);
    let group = run(md.init_single_group::<8, 64>(simrun::now_ns), &mut net, &mut seg).expect("init");
    let delays: Vec<u32> = group.iter(md).map(|s| s.propagation_delay()).collect();
    println!("true delays [0, -, 250, 500], ethercrab computed {delays:?}");
    assert!(seg.log.iter().any(|e| matches!(
        e,
        SimEvent::Datagram { cmd: 8, ado: 0x0900, wkc: 3, .. }
    )));
    assert_eq!(delays[3] - delays[2], 250);
}
