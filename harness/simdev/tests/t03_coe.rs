mod common;

use common::*;
use ethercrab::{
    MainDevice, ObjectDescriptionListQuery, SubDeviceGroup, SubIndex,
    error::{Error, MailboxError},
};
use simdev::coe::{MbxDir, SegmentQuirks, UploadMode};
use simdev::devices::{self, BuildOptions};
use simdev::simnet::{Segment, SimEvent};
use simdev::simrun::{self, Net};
use std::panic::{AssertUnwindSafe, catch_unwind};

type Group = SubDeviceGroup<4, 32>;

/// Coupler + CoE device, initialised to PRE-OP.
fn setup() -> (Segment, Net, &'static MainDevice<'static>, Group) {
    let opts = BuildOptions::default();
    let (coe, _) = devices::build_coe_device("SIMDRIVE", &opts);
    let mut seg = Segment::line(vec![
        devices::build_device("EK1100", &devices::coupler("EK1100"), &opts),
        coe,
    ]);
    let mut net = simrun::net_general();
    let md = maindevice(&mut net);
    let group = run(md.init_single_group::<4, 32>(simrun::now_ns), &mut net, &mut seg).expect("init");
    (seg, net, md, group)
}

#[test]
fn expedited_reads_and_writes() {
    let (mut seg, mut net, md, group) = setup();
    let sd = group.subdevice(md, 1).unwrap();

    assert_eq!(run(sd.sdo_read::<u32>(0x2000, 0), &mut net, &mut seg), Ok(0xDEAD_BEEF));
    assert_eq!(run(sd.sdo_read::<u16>(0x2001, 0), &mut net, &mut seg), Ok(0x1234));
    assert_eq!(run(sd.sdo_read::<u8>(0x2002, 0), &mut net, &mut seg), Ok(0x5A));
    assert_eq!(run(sd.sdo_read::<u32>(0x1018, 1), &mut net, &mut seg), Ok(0x0000_ACDC));

    run(sd.sdo_write(0x2000, 0, 0x0102_0304u32), &mut net, &mut seg).expect("write u32");
    run(sd.sdo_write(0x2001, 0, 0xBEEFu16), &mut net, &mut seg).expect("write u16");
    run(sd.sdo_write(0x2002, 0, 0x77u8), &mut net, &mut seg).expect("write u8");
    let coe = seg.device(1).mailbox.as_ref().unwrap().coe.as_ref().unwrap();
    assert_eq!(coe.get(0x2000, 0), Some(&[4u8, 3, 2, 1][..]));
    assert_eq!(coe.get(0x2001, 0), Some(&[0xEFu8, 0xBE][..]));
    assert_eq!(coe.get(0x2002, 0), Some(&[0x77u8][..]));
    assert_eq!(run(sd.sdo_read::<u32>(0x2000, 0), &mut net, &mut seg), Ok(0x0102_0304));

    // Mailbox traffic is logged in both directions, counters run 1..7 and wrap to 1.
    let log = &seg.device(1).mailbox.as_ref().unwrap().log;
    let ins: Vec<u8> = log.iter().filter(|(d, _)| *d == MbxDir::In).map(|(_, m)| m[5] >> 4).collect();
    let outs: Vec<u8> = log.iter().filter(|(d, _)| *d == MbxDir::Out).map(|(_, m)| m[5] >> 4).collect();
    assert_eq!(ins.len(), outs.len());
    assert!(ins.iter().all(|c| (1..=7).contains(c)));
    assert!(outs.iter().all(|c| (1..=7).contains(c)));
    assert!(seg.log.iter().any(|e| matches!(e, SimEvent::MailboxIn { device: 1, .. })));
    assert!(seg.log.iter().any(|e| matches!(e, SimEvent::MailboxOut { device: 1, .. })));
}

#[test]
fn arrays() {
    let (mut seg, mut net, md, group) = setup();
    let sd = group.subdevice(md, 1).unwrap();

    let v = run(sd.sdo_read_array::<u16, 4>(0x1C13), &mut net, &mut seg).expect("read array");
    assert_eq!(v.as_slice(), &[0x1A00, 0x1A01]);

    run(sd.sdo_write_array(0x1C13, [0x1A01u16, 0x1A00, 0x1A01]), &mut net, &mut seg).expect("write array");
    let v = run(sd.sdo_read_array::<u16, 4>(0x1C13), &mut net, &mut seg).expect("read array");
    assert_eq!(v.as_slice(), &[0x1A01, 0x1A00, 0x1A01]);

    // Too many entries for the caller's buffer
    let e = run(sd.sdo_read_array::<u16, 2>(0x1C13), &mut net, &mut seg);
    assert!(matches!(e, Err(Error::Capacity(_))), "{e:?}");
}

#[test]
fn normal_upload_string() {
    let (mut seg, mut net, md, group) = setup();
    let sd = group.subdevice(md, 1).unwrap();
    let name = run(sd.sdo_read::<heapless::String<32>>(0x1008, 0), &mut net, &mut seg).expect("name");
    assert_eq!(name.as_str(), "SIMDRIVE");

    // Forced normal transfer of a 4 byte object
    seg.device_mut(1).mailbox_mut().coe_mut().upload_mode = UploadMode::ForceNormal;
    assert_eq!(run(sd.sdo_read::<u32>(0x2000, 0), &mut net, &mut seg), Ok(0xDEAD_BEEF));
}

#[test]
fn complete_access_upload() {
    let (mut seg, mut net, md, group) = setup();
    let sd = group.subdevice(md, 1).unwrap();
    // ethercrab's complete access starts at sub-index 1: 4 x u32 identity
    let v = run(sd.sdo_read::<[u8; 16]>(0x1018, SubIndex::Complete), &mut net, &mut seg).expect("CA");
    let words: Vec<u32> = v.chunks(4).map(|c| u32::from_le_bytes(c.try_into().unwrap())).collect();
    assert_eq!(words, [0x0000_ACDC, 0x0000_C0E1, 0x0001_0002, 0x1234_5678]);

    // `[u32; 4]` has PACKED_LEN 16 but its `EtherCrabWireSized::Buffer` is `[u8; 4]`, so the same
    // read into a typed array is refused as "too long".
    let r = run(sd.sdo_read::<[u32; 4]>(0x1018, SubIndex::Complete), &mut net, &mut seg);
    println!("complete access into [u32; 4]: {r:?}");
    if r.is_ok() {
        assert_eq!(r.unwrap(), [0x0000_ACDC, 0x0000_C0E1, 0x0001_0002, 0x1234_5678]);
    }
}

#[test]
fn aborts() {
    let (mut seg, mut net, md, group) = setup();
    let sd = group.subdevice(md, 1).unwrap();

    let e = run(sd.sdo_read::<u32>(0x5555, 0), &mut net, &mut seg);
    match e {
        Err(Error::Mailbox(MailboxError::Aborted { code, address, sub_index })) => {
            assert_eq!(u32::from(code), 0x0602_0000);
            assert_eq!(address, 0x5555);
            assert_eq!(sub_index, 0);
        }
        other => panic!("{other:?}"),
    }
    let e = run(sd.sdo_read::<u32>(0x2000, 9), &mut net, &mut seg);
    assert!(
        matches!(e, Err(Error::Mailbox(MailboxError::Aborted { code, .. })) if u32::from(code) == 0x0609_0011),
        "{e:?}"
    );
    let e = run(sd.sdo_write(0x1018, 1, 5u32), &mut net, &mut seg);
    assert!(
        matches!(e, Err(Error::Mailbox(MailboxError::Aborted { code, .. })) if u32::from(code) == 0x0601_0002),
        "{e:?}"
    );
    // Length mismatch: u8 into a u32 object
    let e = run(sd.sdo_write(0x2000, 0, 5u8), &mut net, &mut seg);
    assert!(
        matches!(e, Err(Error::Mailbox(MailboxError::Aborted { code, .. })) if u32::from(code) == 0x0607_0013),
        "{e:?}"
    );
    // Still works afterwards
    assert_eq!(run(sd.sdo_read::<u16>(0x2001, 0), &mut net, &mut seg), Ok(0x1234));
}

const LONG: &str = "This device name is deliberately much longer than the 128 byte mailbox of the simulated \
drive so that the upload has to be split into several segments, as ETG.1000.6 5.6.2 describes. 0123456789";

#[test]
fn segmented_upload_ethercrab_compatible_layout() {
    let (mut seg, mut net, md, group) = setup();
    assert!(LONG.len() > 128 && LONG.len() < 250);
    {
        let coe = seg.device_mut(1).mailbox_mut().coe_mut();
        coe.set(0x2100, 0, LONG.as_bytes().to_vec());
        coe.segment_quirks = SegmentQuirks::ethercrab_compat();
    }
    let sd = group.subdevice(md, 1).unwrap();
    let s = run(sd.sdo_read::<heapless::String<250>>(0x2100, 0), &mut net, &mut seg).expect("segmented");
    assert_eq!(s.as_str(), LONG);

    // Odd segment sizes including one below 7 bytes
    {
        let coe = seg.device_mut(1).mailbox_mut().coe_mut();
        coe.upload_mode = UploadMode::ForceSegmented { seg_sizes: vec![0, 50, 7, 3, 100] };
        coe.set(0x2101, 0, LONG.as_bytes()[..163].to_vec());
    }
    let s = run(sd.sdo_read::<heapless::String<250>>(0x2101, 0), &mut net, &mut seg).expect("segmented 2");
    assert_eq!(s.as_str(), &LONG[..163]);
}

/// With a device that follows ETG.1000.6 (command specifier 0 in the upload segment response, data
/// directly behind the 1 byte SDO header, first part of the data in the initiate response) ethercrab
/// cannot complete a segmented upload. This test documents the current behaviour.
#[test]
fn segmented_upload_spec_layout_is_not_decoded() {
    let (mut seg, mut net, md, group) = setup();
    seg.device_mut(1).mailbox_mut().coe_mut().set(0x2100, 0, LONG.as_bytes().to_vec());
    let sd = group.subdevice(md, 1).unwrap();
    let r = run(sd.sdo_read::<heapless::String<250>>(0x2100, 0), &mut net, &mut seg);
    println!("segmented upload, spec layout: {r:?}");
    assert!(r.is_err() || r.as_ref().unwrap().as_str() != LONG);
}

/// ethercrab's SDO information futures keep ~400 KiB of `heapless::Vec`s on the stack.
fn big_stack(f: impl FnOnce() + Send + 'static) {
    std::thread::Builder::new()
        .stack_size(64 << 20)
        .spawn(f)
        .unwrap()
        .join()
        .unwrap()
}

#[test]
fn od_list() {
    big_stack(od_list_inner)
}

fn od_list_inner() {
    let (mut seg, mut net, md, group) = setup();
    let sd = group.subdevice(md, 1).unwrap();

    let expect: Vec<u16> = {
        let coe = seg.device(1).mailbox.as_ref().unwrap().coe.as_ref().unwrap();
        let mut v: Vec<u16> = coe.od.keys().map(|k| k.0).collect();
        v.dedup();
        v
    };
    // 21 objects -> 2 + 42 bytes, fits into one 128 byte mailbox
    let list = run(
        sd.sdo_info_object_description_list(ObjectDescriptionListQuery::All),
        &mut net,
        &mut seg,
    )
    .expect("od list")
    .expect("has mailbox");
    assert_eq!(list.as_slice(), expect.as_slice());

    let q = run(sd.sdo_info_object_quantities(), &mut net, &mut seg).expect("quantities").unwrap();
    assert_eq!(usize::from(q.all), expect.len());
    assert_eq!(q.rx_pdo_mappable, 1);
    assert_eq!(q.tx_pdo_mappable, 2);

    let rx = run(
        sd.sdo_info_object_description_list(ObjectDescriptionListQuery::RxPdoMappable),
        &mut net,
        &mut seg,
    )
    .unwrap()
    .unwrap();
    assert_eq!(rx.as_slice(), &[0x7000]);
}

/// Fragmented OD list (more objects than fit into one mailbox).
#[test]
fn od_list_fragmented() {
    big_stack(od_list_fragmented_inner)
}

fn od_list_fragmented_inner() {
    let (mut seg, mut net, md, group) = setup();
    {
        let coe = seg.device_mut(1).mailbox_mut().coe_mut();
        for i in 0..150u16 {
            coe.set_u8(0x3000 + i, 0, i as u8);
        }
    }
    let expect: Vec<u16> = {
        let coe = seg.device(1).mailbox.as_ref().unwrap().coe.as_ref().unwrap();
        let mut v: Vec<u16> = coe.od.keys().map(|k| k.0).collect();
        v.dedup();
        v
    };
    let sd = group.subdevice(md, 1).unwrap();
    let list = run(
        sd.sdo_info_object_description_list(ObjectDescriptionListQuery::All),
        &mut net,
        &mut seg,
    );
    let frags = seg
        .device(1)
        .mailbox
        .as_ref()
        .unwrap()
        .log
        .iter()
        .filter(|(d, m)| *d == MbxDir::Out && m[7] >> 4 == 8)
        .count();
    assert!(frags >= 3, "{frags}");
    println!(
        "fragmented OD list: expected {} entries, got {:?}",
        expect.len(),
        list.as_ref().map(|l| l.as_ref().map(|l| l.len()))
    );
    let list = list.expect("od list").expect("has mailbox");
    // ethercrab subtracts the 2 byte list type from every fragment although only the first one
    // carries it, so one index is lost per additional fragment.
    if list.as_slice() != expect.as_slice() {
        assert_eq!(list.len(), expect.len() - (frags - 1));
        println!("NOTE: ethercrab dropped {} entries of a fragmented OD list", frags - 1);
    }
}

#[test]
fn emergency_panics_in_ethercrab() {
    let (mut seg, mut net, md, group) = setup();
    seg.device_mut(1).mailbox_mut().pending_emergency = Some((0x8130, 0x11, [1, 2, 3, 4, 5]));
    let sd = group.subdevice(md, 1).unwrap();
    let r = catch_unwind(AssertUnwindSafe(|| run(sd.sdo_read::<u32>(0x2000, 0), &mut net, &mut seg)));
    simrun::reset_clock();
    let out = seg.device(1).mailbox.as_ref().unwrap().log.last().cloned().unwrap();
    assert_eq!(out.0, MbxDir::Out);
    // length 10, CoE service 1 (emergency), error code, register, data
    assert_eq!(&out.1[0..2], &[10, 0]);
    assert_eq!(out.1[7] >> 4, 1);
    assert_eq!(&out.1[8..16], &[0x30, 0x81, 0x11, 1, 2, 3, 4, 5]);
    match r {
        Err(_) => println!("NOTE: ethercrab panics on a CoE emergency (assert_ne! in mailbox_write_read)"),
        Ok(r) => {
            assert!(
                matches!(r, Err(Error::Mailbox(MailboxError::Emergency { error_code: 0x8130, error_register: 0x11 }))),
                "{r:?}"
            );
        }
    }
}

#[test]
fn scripted_raw_replies() {
    let (mut seg, mut net, md, group) = setup();
    let sd = group.subdevice(md, 1).unwrap();

    // 1. A reply for a different object
    let mut other = vec![10, 0, 0, 0, 0, 0x13, 0, 0x30, 0x43, 0x99, 0x99, 0, 1, 2, 3, 4];
    seg.device_mut(1).mailbox_mut().scripted_replies.push_back(other.clone());
    let e = run(sd.sdo_read::<u32>(0x2000, 0), &mut net, &mut seg);
    assert!(
        matches!(e, Err(Error::Mailbox(MailboxError::SdoResponseInvalid { address: 0x9999, sub_index: 0 }))),
        "{e:?}"
    );

    // 2. Wrong mailbox type (EoE)
    other[5] = 0x12;
    other[9] = 0x00;
    other[10] = 0x20;
    seg.device_mut(1).mailbox_mut().scripted_replies.push_back(other);
    let e = run(sd.sdo_read::<u32>(0x2000, 0), &mut net, &mut seg);
    assert!(matches!(e, Err(Error::Mailbox(MailboxError::SdoResponseInvalid { .. }))), "{e:?}");

    // 3. Garbage: all 0xFF (fill byte too)
    seg.device_mut(1).mailbox_mut().fill_byte = 0xFF;
    seg.device_mut(1).mailbox_mut().scripted_replies.push_back(vec![0xFF; 16]);
    let e = run(sd.sdo_read::<u32>(0x2000, 0), &mut net, &mut seg);
    assert!(e.is_err(), "{e:?}");
    seg.device_mut(1).mailbox_mut().fill_byte = 0;

    // 4. No reply at all: mailbox response timeout (50 ms in the test configuration)
    seg.device_mut(1).mailbox_mut().drop_requests = 1;
    let t0 = simrun::now_us();
    let e = run(sd.sdo_read::<u32>(0x2000, 0), &mut net, &mut seg);
    assert!(matches!(e, Err(Error::Timeout(_))), "{e:?}");
    let dt = simrun::now_us() - t0;
    assert!((50_000..60_000).contains(&dt), "{dt}");

    // Normal operation afterwards
    assert_eq!(run(sd.sdo_read::<u32>(0x2000, 0), &mut net, &mut seg), Ok(0xDEAD_BEEF));
}

#[test]
fn delayed_mailbox() {
    let (mut seg, mut net, md, group) = setup();
    {
        let mb = seg.device_mut(1).mailbox_mut();
        mb.response_delay_polls = 5;
        mb.consume_delay_polls = 3;
    }
    let sd = group.subdevice(md, 1).unwrap();
    for _ in 0..3 {
        assert_eq!(run(sd.sdo_read::<u16>(0x2001, 0), &mut net, &mut seg), Ok(0x1234));
    }
}
