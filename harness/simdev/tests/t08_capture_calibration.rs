//! Calibration against a capture of real hardware: the request frames of
//! /repo/tests/replay-ek1914-el3004-configure.pcapng (EK1914 + EL3004, init up to PDO assignment)
//! are fed into a segment configured like that network and the responses are compared.
//!
//! Configuration taken from the capture itself: EEPROM contents (from the SII read responses),
//! ESC feature words, number of FMMUs/SMs (from the broadcast clear working counters), SII busy
//! polls, AL transition latency of the EK1914.
//!
//! Compared exactly: frame length, datagram headers (address auto increment), working counters and
//! data of every datagram, except the data of
//!   * DC port receive time reads (0x0900, hardware time stamps),
//!   * the unused tail of the read mailbox (stale RAM in the real device),
//!   * read mailbox SM status polls that come before the reply is there (device latency: the real
//!     EL3004 needs 1..2 polls, the simulated one answers at once).

use pcap_file::pcapng::{Block, PcapNgReader};
use simdev::coe::{CoeServer, Mailbox};
use simdev::simnet::{AlScript, DcKind, Device, EscInfo, Segment, al};
use std::collections::VecDeque;
use std::fs::File;

const CAPTURE: &str = "/repo/tests/replay-ek1914-el3004-configure.pcapng";

struct Dg {
    cmd: u8,
    idx: u8,
    adp: u16,
    ado: u16,
    data: Vec<u8>,
    wkc: u16,
}

fn datagrams(f: &[u8]) -> Vec<Dg> {
    let mut out = Vec::new();
    let total = usize::from(u16::from_le_bytes([f[14], f[15]]) & 0x7FF);
    let mut off = 16;
    while off + 12 <= 16 + total {
        let lf = u16::from_le_bytes([f[off + 6], f[off + 7]]);
        let len = usize::from(lf & 0x7FF);
        out.push(Dg {
            cmd: f[off],
            idx: f[off + 1],
            adp: u16::from_le_bytes([f[off + 2], f[off + 3]]),
            ado: u16::from_le_bytes([f[off + 4], f[off + 5]]),
            data: f[off + 10..off + 10 + len].to_vec(),
            wkc: u16::from_le_bytes([f[off + 10 + len], f[off + 11 + len]]),
        });
        off += 12 + len;
        if lf & 0x8000 == 0 {
            break;
        }
    }
    out
}

fn load_pairs() -> Vec<(Vec<u8>, Vec<u8>)> {
    load_pairs_from(CAPTURE)
}

fn load_pairs_from(path: &str) -> Vec<(Vec<u8>, Vec<u8>)> {
    let mut reader = PcapNgReader::new(File::open(path).expect("capture")).expect("pcapng");
    let mut pending: VecDeque<Vec<u8>> = VecDeque::new();
    let mut pairs = Vec::new();
    while let Some(block) = reader.next_block() {
        let Ok(Block::EnhancedPacket(p)) = block else { continue };
        let data = p.data.to_vec();
        if data.len() < 28 || data[12..14] != [0x88, 0xA4] {
            continue;
        }
        if data[6..12] == [0x10; 6] {
            pending.push_back(data);
        } else {
            // match by index of the first datagram
            let pos = pending.iter().position(|t| t[17] == data[17] && t[16] == data[16]).expect("request for response");
            let tx = pending.remove(pos).unwrap();
            pairs.push((tx, data));
        }
    }
    assert!(pending.is_empty(), "unanswered requests in capture");
    pairs
}

/// Rebuild the EEPROM images from the SII traffic: FPWR 0x0502 (read command + word address)
/// followed by FPRD 0x0508 (8 data bytes).
fn eeproms(pairs: &[(Vec<u8>, Vec<u8>)]) -> [Vec<u8>; 2] {
    let mut images = [vec![0xFFu8; 2048], vec![0xFFu8; 2048]];
    let mut addr = [0usize; 2];
    for (tx, rx) in pairs {
        for (t, r) in datagrams(tx).iter().zip(datagrams(rx)) {
            let dev = match t.adp {
                0x1000 => 0,
                0x1001 => 1,
                _ => continue,
            };
            if t.cmd == 5 && t.ado == 0x0502 && t.data.len() == 6 && t.data[1] & 1 != 0 {
                addr[dev] = usize::from(u16::from_le_bytes([t.data[2], t.data[3]]));
            }
            if t.cmd == 4 && t.ado == 0x0508 && r.wkc == 1 {
                let a = addr[dev] * 2;
                images[dev][a..a + r.data.len()].copy_from_slice(&r.data);
            }
        }
    }
    images
}

#[test]
fn replay_ek1914_el3004_configure() {
    let pairs = load_pairs();
    assert!(pairs.len() > 500);
    let [mut ee0, mut ee1] = eeproms(&pairs);
    // The alias word is never read through the SII in the capture; register 0x0012 reads 0.
    ee0[8..10].copy_from_slice(&[0, 0]);
    ee1[8..10].copy_from_slice(&[0, 0]);

    // EK1914: 8 FMMUs / 8 SMs, EL3004: 3 FMMUs / 4 SMs (see the BWR clear working counters)
    let mut ek1914 = Device::new(
        "EK1914",
        ee0,
        EscInfo { esc_type: 0x11, fmmu_count: 8, sm_count: 8, features: 0x00FC, ..EscInfo::default() },
        DcKind::ReceiveTimesOnly,
    );
    let mut el3004 = Device::new(
        "EL3004",
        ee1,
        // BRD of the type register returns 0x13 = 0x11 | 0x12
        EscInfo { esc_type: 0x12, fmmu_count: 3, sm_count: 4, features: 0x01FC, ..EscInfo::default() },
        DcKind::ReceiveTimesOnly,
    );
    for d in [&mut ek1914, &mut el3004] {
        // EEPROM word 0 (PDI control) is not part of the capture either; both devices have an
        // application controller (AL status does not mirror AL control).
        d.al_emulation = false;
        d.sii_read_8 = true;
        d.sii_busy_polls = 2;
    }
    el3004.sii_status_lo_extra = 0x10;
    ek1914.al_script_for.insert(al::PREOP, AlScript { accept_after_polls: 4, ..Default::default() });
    ek1914.mailbox = Some(Mailbox::new(Some(CoeServer::new())));
    let mut coe = CoeServer::new();
    coe.set_u8(0x1C12, 0, 0);
    coe.set_u8(0x1C13, 0, 4);
    for (i, pdo) in [0x1A00u16, 0x1A02, 0x1A04, 0x1A06].iter().enumerate() {
        coe.set_u16(0x1C13, i as u8 + 1, *pdo);
    }
    el3004.mailbox = Some(Mailbox::new(Some(coe)));
    let mut seg = Segment::line(vec![ek1914, el3004]);
    seg.log_datagrams = false;

    let mut frames = 0;
    let mut dgs = 0;
    let mut exact = 0;
    let mut masked_dc = 0;
    let mut masked_mbx_tail = 0;
    let mut masked_latency = 0;
    let mut eeprom_reads = 0;
    let mut mailbox_replies = 0;
    let mut mismatches = Vec::new();

    for (n, (tx, rx)) in pairs.iter().enumerate() {
        let resp = seg.process(tx).unwrap_or_else(|| panic!("frame {n} lost"));
        frames += 1;
        // The capture pads short frames to 60 bytes on the way back; compare the EtherCAT part.
        let want = datagrams(rx);
        let got = datagrams(&resp);
        assert_eq!(resp[6..12], rx[6..12], "source MAC");
        assert_eq!(resp[14..16], rx[14..16], "EtherCAT header");
        assert_eq!(want.len(), got.len(), "frame {n}: datagram count");
        for (w, g) in want.iter().zip(&got) {
            dgs += 1;
            let head_ok = w.cmd == g.cmd && w.idx == g.idx && w.adp == g.adp && w.ado == g.ado && w.data.len() == g.data.len();
            let wkc_ok = w.wkc == g.wkc;
            let mut data_ok = w.data == g.data;
            if !data_ok && w.cmd == 4 && w.ado == 0x0900 {
                masked_dc += 1;
                data_ok = true;
            } else if !data_ok && w.cmd == 4 && (w.ado == 0x1080 || w.ado == 0x1100) && w.data.len() >= 6 {
                let used = 6 + usize::from(u16::from_le_bytes([w.data[0], w.data[1]]));
                if w.data[..used] == g.data[..used] {
                    masked_mbx_tail += 1;
                    data_ok = true;
                }
            } else if !data_ok && w.cmd == 4 && w.ado == 0x080D && w.data[0] & 0x08 == 0 && g.data[0] == 0x09 {
                masked_latency += 1;
                data_ok = true;
            } else if data_ok {
                exact += 1;
            }
            if w.cmd == 4 && w.ado == 0x0508 {
                eeprom_reads += 1;
            }
            if w.cmd == 4 && w.ado >= 0x1000 && w.wkc == 1 {
                mailbox_replies += 1;
            }
            if !(head_ok && wkc_ok && data_ok) {
                mismatches.push(format!(
                    "frame {n}: cmd {} adp {:04x} ado {:04x}: want wkc {} data {:02x?}, got adp {:04x} wkc {} data {:02x?}",
                    w.cmd,
                    w.adp,
                    w.ado,
                    w.wkc,
                    &w.data[..w.data.len().min(20)],
                    g.adp,
                    g.wkc,
                    &g.data[..g.data.len().min(20)]
                ));
            }
        }
    }

    println!(
        "capture calibration: {frames} frames, {dgs} datagrams, {exact} byte exact, masked: {masked_dc} DC time stamps, \
         {masked_mbx_tail} mailbox tails, {masked_latency} mailbox latency polls; {eeprom_reads} EEPROM data reads, \
         {mailbox_replies} mailbox replies; {} mismatches",
        mismatches.len()
    );
    for m in &mismatches {
        println!("  {m}");
    }
    assert!(mismatches.is_empty());
    assert_eq!(seg.device(0).al_state, al::PREOP);
    assert_eq!(seg.device(1).al_state, al::PREOP);
}

/// Second capture: EK1100 + EL2828 + EL2889 up to cyclic operation, with the EEPROM contents taken
/// from the independent dumps in /repo/dumps/eeprom (not from the capture).
///
/// Masked: hardware time stamps (0x0900 / 0x0918 / 0x0910 data) and the number of SII busy polls.
#[test]
fn replay_ek1100_el2828_el2889() {
    let pairs = load_pairs_from("/repo/tests/replay-ek1100-el2828-el2889.pcapng");
    let dump = |n: &str| std::fs::read(format!("/repo/dumps/eeprom/{n}")).unwrap();
    // EK1100: ET1100 (8 FMMU / 8 SM, full 64 bit DC), EL2828: 3 FMMU / 4 SM with receive times
    // only, EL2889: 3 / 4 with full DC - all read off the broadcast working counters.
    let mut ek1100 = Device::new(
        "EK1100",
        dump("ek1100.hex"),
        EscInfo { esc_type: 0x11, fmmu_count: 8, sm_count: 8, features: 0x00FC, ..EscInfo::default() },
        DcKind::Bits64,
    );
    let mut el2828 = Device::new(
        "EL2828",
        dump("el2828.hex"),
        EscInfo { esc_type: 0x12, fmmu_count: 3, sm_count: 4, features: 0x01FC, ..EscInfo::default() },
        DcKind::ReceiveTimesOnly,
    );
    let mut el2889 = Device::new(
        "EL2889",
        dump("el2889.hex"),
        EscInfo { esc_type: 0x12, fmmu_count: 3, sm_count: 4, features: 0x00FC, ..EscInfo::default() },
        DcKind::Bits64,
    );
    for d in [&mut ek1100, &mut el2828, &mut el2889] {
        d.sii_read_8 = true;
        d.sii_busy_polls = 2;
    }
    // The EK1100's DL status reports "watchdog expired" (bit 1 = 0), the EL2828 sets the reserved
    // bit 4 of the SII status.
    ek1100.dl_status_base = 0x0001;
    el2828.sii_status_lo_extra = 0x10;
    let mut seg = Segment::line(vec![ek1100, el2828, el2889]);
    seg.log_datagrams = false;

    let mut dgs = 0;
    let mut exact = 0;
    let mut masked = 0;
    let mut masked_sii = 0;
    let mut mismatches = Vec::new();
    let mut by_kind: std::collections::BTreeMap<String, usize> = Default::default();
    for (n, (tx, rx)) in pairs.iter().enumerate() {
        let resp = seg.process(tx).unwrap_or_else(|| panic!("frame {n} lost"));
        let want = datagrams(rx);
        let got = datagrams(&resp);
        assert_eq!(want.len(), got.len(), "frame {n}");
        for (w, g) in want.iter().zip(&got) {
            dgs += 1;
            let head_ok = w.cmd == g.cmd && w.idx == g.idx && w.adp == g.adp && w.ado == g.ado && w.data.len() == g.data.len();
            let mut data_ok = w.data == g.data;
            let time_stamp = (w.cmd == 4 && (w.ado == 0x0900 || w.ado == 0x0918)) || (w.cmd == 14 && w.ado == 0x0910);
            // The real EK1100 needs 0, 1 or 2 status polls for an EEPROM read (timing), the simulated
            // one always 2: only the busy flag and the echoed command bit may differ.
            let sii_latency = w.cmd == 4
                && w.ado == 0x0502
                && w.data[0] == g.data[0]
                && w.data[1] & 0x78 == g.data[1] & 0x78;
            if !data_ok && time_stamp {
                masked += 1;
                data_ok = true;
            } else if !data_ok && sii_latency {
                masked_sii += 1;
                data_ok = true;
            } else if data_ok {
                exact += 1;
            }
            if !(head_ok && w.wkc == g.wkc && data_ok) {
                *by_kind.entry(format!("cmd {} ado {:04x}", w.cmd, w.ado)).or_default() += 1;
                if mismatches.len() < 60 {
                    mismatches.push(format!(
                        "frame {n}: cmd {} adp {:04x} ado {:04x}: want wkc {} data {:02x?}, got adp {:04x} wkc {} data {:02x?}",
                        w.cmd, w.adp, w.ado, w.wkc, &w.data[..w.data.len().min(16)], g.adp, g.wkc, &g.data[..g.data.len().min(16)]
                    ));
                }
            }
        }
    }
    println!(
        "capture calibration (EK1100/EL2828/EL2889): {} frames, {dgs} datagrams, {exact} byte exact, {masked} masked time stamps, {masked_sii} masked SII busy polls, mismatches by kind: {by_kind:?}",
        pairs.len()
    );
    for m in &mismatches {
        println!("  {m}");
    }
    assert!(by_kind.is_empty());
}
