//! Frame level tests without a MainDevice, plus fault injection with one.
mod common;

use common::*;
use ethercrab::{MainDeviceConfig, RetryBehaviour, error::Error};
use simdev::devices::{self, BuildOptions};
use simdev::simnet::{DatagramInfo, FaultAction, Segment, SimEvent, cmd};
use simdev::simrun::{self, Limits};
use std::cell::RefCell;
use std::rc::Rc;

struct Dg {
    cmd: u8,
    adp: u16,
    ado: u16,
    data: Vec<u8>,
}

fn frame(dgs: &[Dg]) -> Vec<u8> {
    let mut f = vec![0xFF; 6];
    f.extend_from_slice(&[0x10; 6]);
    f.extend_from_slice(&[0x88, 0xA4]);
    let total: usize = dgs.iter().map(|d| 12 + d.data.len()).sum();
    f.extend_from_slice(&((total as u16) | 0x1000).to_le_bytes());
    for (i, d) in dgs.iter().enumerate() {
        f.push(d.cmd);
        f.push(i as u8);
        f.extend_from_slice(&d.adp.to_le_bytes());
        f.extend_from_slice(&d.ado.to_le_bytes());
        let more = if i + 1 < dgs.len() { 0x8000 } else { 0 };
        f.extend_from_slice(&((d.data.len() as u16) | more).to_le_bytes());
        f.extend_from_slice(&[0, 0]);
        f.extend_from_slice(&d.data);
        f.extend_from_slice(&[0, 0]);
    }
    f
}

/// Parse a response into `(adp, ado, data, wkc)` per datagram.
fn parse(resp: &[u8]) -> Vec<(u16, u16, Vec<u8>, u16)> {
    let mut out = Vec::new();
    let mut off = 16;
    loop {
        let adp = u16::from_le_bytes([resp[off + 2], resp[off + 3]]);
        let ado = u16::from_le_bytes([resp[off + 4], resp[off + 5]]);
        let lf = u16::from_le_bytes([resp[off + 6], resp[off + 7]]);
        let len = usize::from(lf & 0x7FF);
        let data = resp[off + 10..off + 10 + len].to_vec();
        let wkc = u16::from_le_bytes([resp[off + 10 + len], resp[off + 11 + len]]);
        out.push((adp, ado, data, wkc));
        off += 12 + len;
        if lf & 0x8000 == 0 {
            break;
        }
    }
    out
}

fn one(seg: &mut Segment, c: u8, adp: u16, ado: u16, data: &[u8]) -> (u16, Vec<u8>, u16) {
    let r = seg
        .process(&frame(&[Dg {
            cmd: c,
            adp,
            ado,
            data: data.to_vec(),
        }]))
        .expect("response");
    let (adp, _, data, wkc) = parse(&r).remove(0);
    (adp, data, wkc)
}

fn three_devices() -> Segment {
    let opts = BuildOptions::default();
    let mut seg = Segment::line(vec![
        devices::build_device("A", &devices::coupler("A"), &opts),
        devices::build_device("B", &devices::digital_io("B", 8, 8), &opts),
        devices::build_device("C", &devices::digital_io("C", 8, 8), &opts),
    ]);
    for i in 0..3u16 {
        let (_, _, w) = one(&mut seg, cmd::APWR, 0u16.wrapping_sub(i), 0x0010, &(0x1000 + i).to_le_bytes());
        assert_eq!(w, 1);
    }
    seg
}

#[test]
fn addressing_and_working_counters() {
    let mut seg = three_devices();

    // Ethernet: source MAC bit, untouched EtherType, same length
    let req = frame(&[Dg { cmd: cmd::NOP, adp: 0, ado: 0, data: vec![1, 2, 3] }]);
    let resp = seg.process(&req).unwrap();
    assert_eq!(resp.len(), req.len());
    assert_eq!(&resp[6..12], &[0x12, 0x10, 0x10, 0x10, 0x10, 0x10]);
    assert_eq!(&resp[12..], &req[12..], "NOP is not touched");

    // BRD: every device counts, address field incremented, data OR-ed
    seg.device_mut(0).mem_write(0x0F80, &[0x01, 0x00]);
    seg.device_mut(1).mem_write(0x0F80, &[0x02, 0x40]);
    seg.device_mut(2).mem_write(0x0F80, &[0x04, 0x80]);
    let (adp, data, wkc) = one(&mut seg, cmd::BRD, 0, 0x0F80, &[0, 0]);
    assert_eq!((adp, wkc), (3, 3));
    assert_eq!(data, [0x07, 0xC0]);

    // BWR
    let (adp, _, wkc) = one(&mut seg, cmd::BWR, 0, 0x0F90, &[0xAA]);
    assert_eq!((adp, wkc), (3, 3));
    assert!(seg.devices.iter().all(|d| d.mem_read(0x0F90, 1) == [0xAA]));

    // BRW: +3 per device
    let (_, data, wkc) = one(&mut seg, cmd::BRW, 0, 0x0F80, &[0x10, 0x00]);
    assert_eq!(wkc, 9);
    assert_eq!(data[0] & 0x07, 0x07);
    assert!(seg.devices.iter().all(|d| d.mem_read(0x0F80, 1) == [0x10]));

    // APRD: position 2 (adp = -2), every device increments
    seg.device_mut(2).mem_write(0x0FA0, &[0xC3]);
    let (adp, data, wkc) = one(&mut seg, cmd::APRD, 0xFFFE, 0x0FA0, &[0]);
    assert_eq!((adp, wkc), (1, 1));
    assert_eq!(data, [0xC3]);
    // Nobody at position 5
    let (adp, data, wkc) = one(&mut seg, cmd::APRD, 0xFFFB, 0x0FA0, &[0x55]);
    assert_eq!((adp, wkc), (0xFFFE, 0));
    assert_eq!(data, [0x55], "data untouched when nobody answers");

    // APRW: read old, write new: +3
    let (_, data, wkc) = one(&mut seg, cmd::APRW, 0xFFFE, 0x0FA0, &[0x11]);
    assert_eq!(wkc, 3);
    assert_eq!(data, [0xC3]);
    assert_eq!(seg.device(2).mem_read(0x0FA0, 1), [0x11]);

    // FPRD / FPWR / FPRW by configured address
    let (adp, data, wkc) = one(&mut seg, cmd::FPRD, 0x1002, 0x0FA0, &[0]);
    assert_eq!((adp, wkc), (0x1002, 1));
    assert_eq!(data, [0x11]);
    let (_, _, wkc) = one(&mut seg, cmd::FPWR, 0x1001, 0x0FA0, &[0x22]);
    assert_eq!(wkc, 1);
    assert_eq!(seg.device(1).mem_read(0x0FA0, 1), [0x22]);
    let (_, data, wkc) = one(&mut seg, cmd::FPRW, 0x1001, 0x0FA0, &[0x33]);
    assert_eq!((data, wkc), (vec![0x22], 3));
    let (_, _, wkc) = one(&mut seg, cmd::FPRD, 0x2222, 0x0FA0, &[0]);
    assert_eq!(wkc, 0);

    // Alias addressing only when enabled in DL control (0x0100 bit 24)
    seg.device_mut(1).mem_write(0x0012, &0x4242u16.to_le_bytes());
    let (_, _, wkc) = one(&mut seg, cmd::FPRD, 0x4242, 0x0FA0, &[0]);
    assert_eq!(wkc, 0);
    let (_, _, wkc) = one(&mut seg, cmd::FPWR, 0x1001, 0x0100, &[0x01, 0, 0, 0x01]);
    assert_eq!(wkc, 1);
    let (_, data, wkc) = one(&mut seg, cmd::FPRD, 0x4242, 0x0FA0, &[0]);
    assert_eq!((data, wkc), (vec![0x33], 1));

    // FRMW: addressed device is read, the others are written
    seg.device_mut(0).mem_write(0x0FB0, &[0xDE, 0xAD]);
    let (_, data, wkc) = one(&mut seg, cmd::FRMW, 0x1000, 0x0FB0, &[0, 0]);
    assert_eq!((data, wkc), (vec![0xDE, 0xAD], 3));
    assert_eq!(seg.device(1).mem_read(0x0FB0, 2), [0xDE, 0xAD]);
    assert_eq!(seg.device(2).mem_read(0x0FB0, 2), [0xDE, 0xAD]);
    // ARMW from position 1: device 0 sees the request data (before the read), device 2 the read value
    seg.device_mut(1).mem_write(0x0FB0, &[0xBE, 0xEF]);
    let (_, data, wkc) = one(&mut seg, cmd::ARMW, 0xFFFF, 0x0FB0, &[0x01, 0x02]);
    assert_eq!((data, wkc), (vec![0xBE, 0xEF], 3));
    assert_eq!(seg.device(0).mem_read(0x0FB0, 2), [0x01, 0x02]);
    assert_eq!(seg.device(2).mem_read(0x0FB0, 2), [0xBE, 0xEF]);

    // Read only and non-existing registers
    let (_, _, wkc) = one(&mut seg, cmd::FPWR, 0x1000, 0x0000, &[0xFF]);
    assert_eq!(wkc, 0, "a write that only hits read only registers is not acknowledged");
    assert_eq!(seg.device(0).reg_u8(0x0000), 0x11, "type register is read only");
    // The digital I/O terminals have 4 FMMUs: FMMU 5 does not exist
    let (_, _, wkc) = one(&mut seg, cmd::BWR, 0, 0x0650, &[0; 16]);
    assert_eq!(wkc, 0);
    // No DC unit
    let (_, _, wkc) = one(&mut seg, cmd::BWR, 0, 0x0900, &[0; 4]);
    assert_eq!(wkc, 0);
    // Beyond the 8 KiB process RAM
    let (_, _, wkc) = one(&mut seg, cmd::FPRD, 0x1000, 0x4000, &[0; 4]);
    assert_eq!(wkc, 0);

    // Several datagrams in one frame, unknown command is left alone
    let resp = seg
        .process(&frame(&[
            Dg { cmd: cmd::FPRD, adp: 0x1001, ado: 0x0FA0, data: vec![0] },
            Dg { cmd: 0x55, adp: 1, ado: 2, data: vec![9, 9] },
            Dg { cmd: cmd::BRD, adp: 0, ado: 0x0000, data: vec![0] },
        ]))
        .unwrap();
    let p = parse(&resp);
    assert_eq!(p[0], (0x1001, 0x0FA0, vec![0x33], 1));
    assert_eq!(p[1], (1, 2, vec![9, 9], 0));
    assert_eq!(p[2], (3, 0, vec![0x11], 3));

    // Truncated frame: datagram length runs over the end -> returned as is (with source bit)
    let mut bad = frame(&[Dg { cmd: cmd::BRD, adp: 0, ado: 0, data: vec![0; 8] }]);
    bad.truncate(bad.len() - 5);
    let resp = seg.process(&bad).unwrap();
    assert_eq!(&resp[12..], &bad[12..]);
    // Not EtherCAT at all
    let mut other = bad.clone();
    other[12] = 0x08;
    other[13] = 0x00;
    assert_eq!(&seg.process(&other).unwrap()[12..], &other[12..]);
}

fn fmmu(l: u32, len: u16, lsb: u8, leb: u8, p: u16, pbit: u8, ty: u8) -> Vec<u8> {
    let mut v = l.to_le_bytes().to_vec();
    v.extend_from_slice(&len.to_le_bytes());
    v.push(lsb);
    v.push(leb);
    v.extend_from_slice(&p.to_le_bytes());
    v.push(pbit);
    v.push(ty);
    v.push(1);
    v.extend_from_slice(&[0, 0, 0]);
    v
}

#[test]
fn logical_addressing() {
    let mut seg = three_devices();
    // B: outputs 2 bytes logical 0x10000..2 -> 0x1100, inputs 2 bytes logical 0x10004.. <- 0x1180
    one(&mut seg, cmd::FPWR, 0x1001, 0x0600, &fmmu(0x0001_0000, 2, 0, 7, 0x1100, 0, 2));
    one(&mut seg, cmd::FPWR, 0x1001, 0x0610, &fmmu(0x0001_0004, 2, 0, 7, 0x1180, 0, 1));
    // C: inputs 1 byte at logical 0x10006 <- 0x1180
    one(&mut seg, cmd::FPWR, 0x1002, 0x0600, &fmmu(0x0001_0006, 1, 0, 7, 0x1180, 0, 1));
    seg.device_mut(1).mem_write(0x1180, &[0xB1, 0xB2]);
    seg.device_mut(2).mem_write(0x1180, &[0xC1]);

    // LRW over the whole window: B read+write (+3), C read (+1)
    let (adp, data, wkc) = one(&mut seg, cmd::LRW, 0x0000, 0x0001, &[1, 2, 3, 4, 5, 6, 7, 8]);
    assert_eq!(adp, 0, "logical address is not modified");
    assert_eq!(wkc, 4);
    assert_eq!(data, [1, 2, 3, 4, 0xB1, 0xB2, 0xC1, 8]);
    assert_eq!(seg.device(1).mem_read(0x1100, 2), [1, 2]);

    // LRD only reads, LWR only writes
    let (_, data, wkc) = one(&mut seg, cmd::LRD, 0x0004, 0x0001, &[0; 3]);
    assert_eq!((data, wkc), (vec![0xB1, 0xB2, 0xC1], 2));
    let (_, data, wkc) = one(&mut seg, cmd::LWR, 0x0001, 0x0001, &[0x77, 0x66]);
    assert_eq!((data, wkc), (vec![0x77, 0x66], 1));
    assert_eq!(seg.device(1).mem_read(0x1100, 2), [1, 0x77]);
    // Outside every FMMU
    let (_, _, wkc) = one(&mut seg, cmd::LRW, 0x0100, 0x0001, &[0; 4]);
    assert_eq!(wkc, 0);
    // Disabled FMMU
    one(&mut seg, cmd::FPWR, 0x1002, 0x060C, &[0]);
    let (_, _, wkc) = one(&mut seg, cmd::LRD, 0x0006, 0x0001, &[0]);
    assert_eq!(wkc, 0);

    // Bit wise: A maps 3 bits (logical byte 0x20000 bits 2..4) to physical 0x0F00 bit 5 onwards
    // (spills into 0x0F01 bit 0... no: 5,6,7)
    one(&mut seg, cmd::FPWR, 0x1000, 0x0600, &fmmu(0x0002_0000, 1, 2, 4, 0x0F00, 5, 2));
    seg.device_mut(0).mem_write(0x0F00, &[0x0A]);
    let (_, _, wkc) = one(&mut seg, cmd::LWR, 0x0000, 0x0002, &[0b0001_0100]);
    assert_eq!(wkc, 1);
    // logical bits 2,3,4 = 1,0,1 -> physical bits 5,6,7 = 1,0,1; low bits untouched
    assert_eq!(seg.device(0).mem_read(0x0F00, 1), [0b1010_1010]);
    // Bit wise read back through a read FMMU with the same geometry
    one(&mut seg, cmd::FPWR, 0x1000, 0x0610, &fmmu(0x0002_0001, 1, 2, 4, 0x0F00, 5, 1));
    let (_, data, wkc) = one(&mut seg, cmd::LRD, 0x0001, 0x0002, &[0xFF]);
    assert_eq!(wkc, 1);
    assert_eq!(data, [0b1111_0111], "only bits 2..4 are replaced");
}

#[test]
fn absent_device_closes_the_link() {
    let mut seg = three_devices();
    seg.device_mut(1).present = false;
    let (adp, _, wkc) = one(&mut seg, cmd::BRD, 0, 0, &[0]);
    assert_eq!((adp, wkc), (1, 1), "B and everything behind it is gone");
    assert_eq!(seg.reachable(), [0]);
    // DL status of A: port 1 now closed
    let (_, data, _) = one(&mut seg, cmd::FPRD, 0x1000, 0x0110, &[0, 0]);
    assert_eq!(u16::from_le_bytes([data[0], data[1]]) & 0x00F0, 0x0010);
    seg.device_mut(1).present = true;
    let (_, data, _) = one(&mut seg, cmd::FPRD, 0x1000, 0x0110, &[0, 0]);
    assert_eq!(u16::from_le_bytes([data[0], data[1]]) & 0x00F0, 0x0030);
    // Nothing connected at all: no response
    seg.device_mut(0).present = false;
    assert!(seg.process(&frame(&[Dg { cmd: cmd::BRD, adp: 0, ado: 0, data: vec![0] }])).is_none());
}

#[test]
fn fault_hooks_raw() {
    let mut seg = three_devices();
    seg.log.clear();
    let seen: Rc<RefCell<Vec<DatagramInfo>>> = Rc::new(RefCell::new(Vec::new()));
    let seen2 = seen.clone();
    let mut n = 0;
    seg.fault = Some(Box::new(move |info| {
        seen2.borrow_mut().push(*info);
        n += 1;
        match n {
            1 => FaultAction::SkipDevice(1),
            2 => FaultAction::ForceWkc(42),
            3 => FaultAction::CorruptData,
            4 => FaultAction::LoseFrame,
            _ => FaultAction::None,
        }
    }));
    let (adp, _, wkc) = one(&mut seg, cmd::BRD, 0, 0, &[0]);
    assert_eq!((adp, wkc), (3, 2), "skipped device still forwards");
    let (_, _, wkc) = one(&mut seg, cmd::BRD, 0, 0, &[0]);
    assert_eq!(wkc, 42);
    let (_, data, wkc) = one(&mut seg, cmd::BRD, 0, 0, &[0]);
    assert_eq!((data, wkc), (vec![!0x11], 3));
    assert!(seg.process(&frame(&[Dg { cmd: cmd::BRD, adp: 0, ado: 0, data: vec![0] }])).is_none());
    let (_, _, wkc) = one(&mut seg, cmd::BRD, 0, 0, &[0]);
    assert_eq!(wkc, 3);

    {
        let seen = seen.borrow();
        assert_eq!(seen.len(), 5);
        assert_eq!(seen[4].cmd, cmd::BRD);
        assert_eq!(seen[4].len, 1);
        assert_eq!(seen[1].seq + 1, seen[2].seq);
        assert_eq!(seen[3].frame_seq + 1, seen[4].frame_seq);
    }
    assert_eq!(seg.log.iter().filter(|e| matches!(e, SimEvent::Fault { .. })).count(), 4);
    assert_eq!(seg.log.iter().filter(|e| matches!(e, SimEvent::FrameLost { .. })).count(), 1);
    assert_eq!(seg.log.iter().filter(|e| matches!(e, SimEvent::Datagram { .. })).count(), 4);

    // Bounded log
    seg.log_capacity = seg.log.len() + 2;
    for _ in 0..5 {
        one(&mut seg, cmd::BRD, 0, 0, &[0]);
    }
    assert_eq!(seg.log.len(), seg.log_capacity);
    assert_eq!(seg.log_dropped, 3);
    let drained = seg.drain_log();
    assert!(!drained.is_empty() && seg.log.is_empty());
}

fn io_segment() -> Segment {
    let opts = BuildOptions::default();
    Segment::line(vec![
        devices::build_device("EK1100", &devices::coupler("EK1100"), &opts),
        devices::build_device("EL1859", &devices::digital_io("EL1859", 8, 8), &opts),
    ])
}

#[test]
fn lost_frames_time_out_or_are_retried() {
    // Without retries a lost LRW is a timeout after exactly the PDU timeout
    let mut seg = io_segment();
    let mut net = simrun::net_general();
    let md = maindevice(&mut net);
    let group = run(md.init_single_group::<4, 16>(simrun::now_ns), &mut net, &mut seg).expect("init");
    let group = run(group.into_op(md), &mut net, &mut seg).expect("op");
    let mut lose = 1;
    seg.fault = Some(Box::new(move |info| {
        if info.cmd == cmd::LRW && lose > 0 {
            lose -= 1;
            FaultAction::LoseFrame
        } else {
            FaultAction::None
        }
    }));
    let t0 = simrun::now_us();
    let r = run(group.tx_rx(md), &mut net, &mut seg);
    assert!(matches!(r, Err(Error::Timeout(_))), "{:?}", r.err());
    let dt = simrun::now_us() - t0;
    assert!((2_000..2_100).contains(&dt), "PDU timeout is 2 ms, took {dt}");
    // Next cycle is fine again
    run(group.tx_rx(md), &mut net, &mut seg).expect("tx_rx");

    // With retries the same loss is invisible to the application
    let mut seg = io_segment();
    let mut net = simrun::net_general();
    let md = maindevice_with(
        &mut net,
        timeouts(),
        MainDeviceConfig {
            dc_static_sync_iterations: 0,
            retry_behaviour: RetryBehaviour::Count(3),
        },
    );
    let group = run(md.init_single_group::<4, 16>(simrun::now_ns), &mut net, &mut seg).expect("init");
    let group = run(group.into_op(md), &mut net, &mut seg).expect("op");
    let mut lose = 2;
    seg.fault = Some(Box::new(move |info| {
        if info.cmd == cmd::LRW && lose > 0 {
            lose -= 1;
            FaultAction::LoseFrame
        } else {
            FaultAction::None
        }
    }));
    seg.device_mut(1).mem_write(0x1000, &[0x5A]);
    let frames_before = seg.frames_processed();
    let r = run(group.tx_rx(md), &mut net, &mut seg).expect("tx_rx with retries");
    assert_eq!(r.working_counter, 3);
    assert_eq!(seg.frames_processed() - frames_before, 3);
    assert_eq!(&*group.subdevice(md, 1).unwrap().inputs_raw(), &[0x5A]);
}

#[test]
fn working_counter_faults_are_reported() {
    let mut seg = io_segment();
    let mut net = simrun::net_general();
    let md = maindevice(&mut net);
    let group = run(md.init_single_group::<4, 16>(simrun::now_ns), &mut net, &mut seg).expect("init");
    let group = run(group.into_op(md), &mut net, &mut seg).expect("op");

    // LRW working counter is handed to the application as is
    seg.fault = Some(Box::new(|info| {
        if info.cmd == cmd::LRW { FaultAction::ForceWkc(1) } else { FaultAction::None }
    }));
    let r = run(group.tx_rx(md), &mut net, &mut seg).expect("tx_rx");
    assert_eq!(r.working_counter, 1);

    // A skipped device on a register read is a working counter error
    seg.fault = Some(Box::new(|info| {
        if info.cmd == cmd::FPRD && info.ado == 0x0012 { FaultAction::SkipDevice(1) } else { FaultAction::None }
    }));
    let sd = group.subdevice(md, 1).unwrap();
    let r: Result<u16, Error> = run(sd.register_read(0x0012u16), &mut net, &mut seg);
    assert!(matches!(r, Err(Error::WorkingCounter { expected: 1, received: 0 })), "{r:?}");
    seg.fault = None;
    let r: Result<u16, Error> = run(sd.register_read(0x0012u16), &mut net, &mut seg);
    assert_eq!(r, Ok(0));
}

#[test]
fn hang_and_budget_outcomes() {
    let mut seg = io_segment();
    let mut net = simrun::net_general();
    let md = maindevice(&mut net);
    // A future that never completes and never registers a timer
    let out = run_outcome(std::future::pending::<()>(), &mut net, &mut seg, Limits::default());
    assert!(out.is_hang());
    // Frame budget
    let out = run_outcome(
        md.init_single_group::<4, 16>(simrun::now_ns),
        &mut net,
        &mut seg,
        Limits { max_frames: 20, max_virtual_us: u64::MAX },
    );
    assert!(out.is_budget());
    assert_eq!(out.stats().frames_sent, 20);
}

#[test]
fn sii_interface_raw() {
    let mut seg = three_devices();
    seg.device_mut(1).sii_busy_polls = 2;
    let image = seg.device(1).eeprom.clone();

    // Read command for word 0x40: 4 bytes
    let (_, _, wkc) = one(&mut seg, cmd::FPWR, 0x1001, 0x0502, &[0x00, 0x01, 0x40, 0x00, 0x00, 0x00]);
    assert_eq!(wkc, 1);
    let (_, d, _) = one(&mut seg, cmd::FPRD, 0x1001, 0x0502, &[0, 0]);
    assert_eq!(d, [0x00, 0x81], "busy + read command");
    let (_, d, _) = one(&mut seg, cmd::FPRD, 0x1001, 0x0502, &[0, 0]);
    assert_eq!(d, [0x00, 0x81]);
    let (_, d, _) = one(&mut seg, cmd::FPRD, 0x1001, 0x0502, &[0, 0]);
    assert_eq!(d, [0x00, 0x00]);
    let (_, d, _) = one(&mut seg, cmd::FPRD, 0x1001, 0x0508, &[0; 8]);
    assert_eq!(&d[..4], &image[0x80..0x84]);
    assert_eq!(&d[4..], &[0; 4], "4 byte device: upper half of the data register is zero");

    // 8 byte device
    seg.device_mut(1).sii_read_8 = true;
    seg.device_mut(1).sii_busy_polls = 0;
    one(&mut seg, cmd::FPWR, 0x1001, 0x0502, &[0x00, 0x01, 0x42, 0x00, 0x00, 0x00]);
    let (_, d, _) = one(&mut seg, cmd::FPRD, 0x1001, 0x0502, &[0, 0]);
    assert_eq!(d, [0x40, 0x00]);
    let (_, d, _) = one(&mut seg, cmd::FPRD, 0x1001, 0x0508, &[0; 8]);
    assert_eq!(&d[..], &image[0x84..0x8C]);

    // Beyond the image: 0xFF
    one(&mut seg, cmd::FPWR, 0x1001, 0x0502, &[0x00, 0x01, 0x00, 0x80, 0x00, 0x00]);
    let (_, d, _) = one(&mut seg, cmd::FPRD, 0x1001, 0x0508, &[0; 8]);
    assert_eq!(d, [0xFF; 8]);

    // EEPROM assigned to the PDI: commands from the MainDevice fail with the command error bit
    one(&mut seg, cmd::FPWR, 0x1001, 0x0500, &[0x01]);
    one(&mut seg, cmd::FPWR, 0x1001, 0x0502, &[0x00, 0x01, 0x00, 0x00, 0x00, 0x00]);
    let (_, d, _) = one(&mut seg, cmd::FPRD, 0x1001, 0x0502, &[0, 0]);
    assert_eq!(d[1] & 0x20, 0x20);
    one(&mut seg, cmd::FPWR, 0x1001, 0x0500, &[0x00]);

    // Write without write enable is refused, with write enable it is stored
    one(&mut seg, cmd::FPWR, 0x1001, 0x0508, &[0x34, 0x12]);
    one(&mut seg, cmd::FPWR, 0x1001, 0x0502, &[0x00, 0x02, 0x04, 0x00, 0x00, 0x00]);
    let (_, d, _) = one(&mut seg, cmd::FPRD, 0x1001, 0x0502, &[0, 0]);
    assert_eq!(d[1] & 0x20, 0x20);
    assert_eq!(seg.device(1).eeprom_word(4), 0);
    one(&mut seg, cmd::FPWR, 0x1001, 0x0502, &[0x01, 0x02, 0x04, 0x00, 0x00, 0x00]);
    let (_, d, _) = one(&mut seg, cmd::FPRD, 0x1001, 0x0502, &[0, 0]);
    assert_eq!(d, [0x40, 0x00], "no error, write enable cleared itself");
    assert_eq!(seg.device(1).eeprom_word(4), 0x1234);
    // Reload command refreshes the alias register from the EEPROM
    assert_eq!(seg.device(1).station_alias(), 0);
    one(&mut seg, cmd::FPWR, 0x1001, 0x0502, &[0x00, 0x04, 0x00, 0x00, 0x00, 0x00]);
    assert_eq!(seg.device(1).station_alias(), 0x1234);
    assert!(seg.log.iter().any(|e| matches!(e, SimEvent::EepromWrite { device: 1, word: 4, data: [0x34, 0x12], stored: true })));
    assert!(seg.log.iter().any(|e| matches!(e, SimEvent::EepromWrite { device: 1, word: 4, stored: false, .. })));
}
