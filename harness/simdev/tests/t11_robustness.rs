//! The simulator must never panic on odd input: random and mutated frames, random register
//! contents (FMMU / SM configuration), random mailbox payloads.

use simdev::devices::{self, BuildOptions};
use simdev::rng::Rng;
use simdev::simnet::{DcKind, Segment};

fn segment() -> Segment {
    let opts = BuildOptions {
        dc_kind: DcKind::Bits64,
        ..Default::default()
    };
    let opts32 = BuildOptions {
        dc_kind: DcKind::Bits32,
        ..Default::default()
    };
    let mut seg = Segment::with_topology(
        vec![
            devices::build_device("EK1100", &devices::coupler("EK1100"), &opts),
            devices::build_coe_device("D1", &opts32).0,
            devices::build_device("EL1859", &devices::digital_io("EL1859", 8, 8), &BuildOptions::default()),
            devices::build_coe_device("D2", &opts).0,
        ],
        vec![None, Some((0, 3)), Some((1, 1)), Some((0, 1))],
    );
    seg.link_delay_ns = vec![10, 20, 30, 40];
    seg.log_capacity = 1000;
    seg
}

fn random_frame(rng: &mut Rng) -> Vec<u8> {
    let mut f = vec![0xFF; 6];
    f.extend_from_slice(&[0x10; 6]);
    f.extend_from_slice(&[0x88, 0xA4]);
    let n = 1 + rng.below(3) as usize;
    let mut body = Vec::new();
    for i in 0..n {
        let cmd = if rng.chance(1, 20) { rng.next_u32() as u8 } else { rng.below(15) as u8 };
        let interesting = [
            0x0000u16, 0x0010, 0x0012, 0x0100, 0x0110, 0x0120, 0x0130, 0x0134, 0x0500, 0x0502, 0x0504, 0x0508,
            0x0600, 0x0610, 0x06F0, 0x0800, 0x0808, 0x0810, 0x0878, 0x0900, 0x0910, 0x0918, 0x0920, 0x0928, 0x092C,
            0x0980, 0x0990, 0x09A0, 0x0FFC, 0x1000, 0x1080, 0x1100, 0x1180, 0x2FFC, 0xFFF8,
        ];
        let ado = if rng.chance(3, 4) { *rng.pick(&interesting) } else { rng.next_u32() as u16 }
            .wrapping_add(if rng.chance(1, 4) { rng.below(4) as u16 } else { 0 });
        let adp = match rng.below(4) {
            0 => 0,
            1 => 0u16.wrapping_sub(rng.below(5) as u16),
            2 => 0x1000 + rng.below(5) as u16,
            _ => rng.next_u32() as u16,
        };
        let len = match rng.below(6) {
            0 => 0,
            1 => 1,
            2 => 2,
            3 => 8,
            4 => 128,
            _ => rng.below(300) as usize,
        };
        body.push(cmd);
        body.push(rng.next_u32() as u8);
        body.extend_from_slice(&adp.to_le_bytes());
        body.extend_from_slice(&ado.to_le_bytes());
        let more = if i + 1 < n { 0x8000 } else { 0 };
        body.extend_from_slice(&((len as u16) | more).to_le_bytes());
        body.extend_from_slice(&[0, 0]);
        let data = if rng.chance(1, 3) { vec![0; len] } else { rng.bytes(len) };
        body.extend_from_slice(&data);
        body.extend_from_slice(&[0, 0]);
    }
    f.extend_from_slice(&((body.len() as u16 & 0x7FF) | 0x1000).to_le_bytes());
    f.extend_from_slice(&body);
    f
}

#[test]
fn random_frames_do_not_panic() {
    for seed in 0..8 {
        let mut rng = Rng::new(seed);
        let mut seg = segment();
        // Station addresses so that FPxx commands hit
        for i in 0..4u16 {
            seg.device_mut(usize::from(i)).mem_write(0x0010, &(0x1000 + i).to_le_bytes());
        }
        for n in 0..6000u64 {
            seg.now_ns = n * 12_345;
            let mut f = random_frame(&mut rng);
            // Mutations: truncation, length field garbage, flipped bytes
            match rng.below(10) {
                0 => {
                    let cut = rng.below(f.len() as u64 + 1) as usize;
                    f.truncate(cut);
                }
                1 => {
                    let v = rng.next_u32() as u16;
                    if f.len() >= 16 {
                        f[14..16].copy_from_slice(&v.to_le_bytes());
                    }
                }
                2 => {
                    for _ in 0..3 {
                        let i = rng.below(f.len() as u64) as usize;
                        f[i] ^= rng.next_u32() as u8;
                    }
                }
                _ => {}
            }
            if rng.chance(1, 500) {
                let d = rng.below(4) as usize;
                seg.device_mut(d).present = !seg.device(d).present;
            }
            if let Some(resp) = seg.process(&f) {
                assert_eq!(resp.len(), f.len());
            }
        }
        assert!(seg.log.len() <= 1000);
    }
}

#[test]
fn random_mailbox_payloads_do_not_panic() {
    let mut rng = Rng::new(99);
    let (mut dev, _) = devices::build_coe_device("D", &BuildOptions::default());
    let mb = dev.mailbox_mut();
    for _ in 0..20_000 {
        let mut raw = rng.bytes(128);
        if rng.chance(3, 4) {
            // plausible header: CoE, SDO request or SDO info
            let len = rng.below(140) as u16;
            raw[0..2].copy_from_slice(&len.to_le_bytes());
            raw[5] = 0x03 | ((rng.below(8) as u8) << 4);
            raw[6] = 0;
            raw[7] = if rng.chance(1, 4) { 0x80 } else { 0x20 };
            if rng.chance(1, 2) {
                let idx = *rng.pick(&[0x1018u16, 0x1C12, 0x1C13, 0x1A00, 0x2000, 0x1008]);
                raw[9..11].copy_from_slice(&idx.to_le_bytes());
                raw[11] = rng.below(6) as u8;
            }
        }
        let capacity = *rng.pick(&[6usize, 12, 16, 17, 32, 128, 1024]);
        mb.request_received(&raw, capacity);
        mb.out_queue.clear();
        mb.log.clear();
    }
}
