mod common;

use common::*;
use ethercrab::{SubDeviceState, error::Error};
use simdev::devices::{self, BuildOptions};
use simdev::simnet::{AlScript, Segment, SimEvent, al};
use simdev::simrun;

fn segment() -> Segment {
    let opts = BuildOptions::default();
    Segment::line(vec![
        devices::build_device("EK1100", &devices::coupler("EK1100"), &opts),
        devices::build_device("EL1008", &devices::digital_in("EL1008", 8), &opts),
        devices::build_device("EL2008", &devices::digital_out("EL2008", 8), &opts),
    ])
}

#[test]
fn slow_transitions_are_waited_for() {
    let mut seg = segment();
    for d in &mut seg.devices {
        d.al_script.accept_after_polls = 4;
    }
    let mut net = simrun::net_general();
    let md = maindevice(&mut net);
    let group = run(md.init_single_group::<4, 16>(simrun::now_ns), &mut net, &mut seg).expect("init");
    let _group = run(group.into_op(md), &mut net, &mut seg).expect("op");
    assert!(seg.devices.iter().all(|d| d.al_state == al::OP));
}

#[test]
fn refused_op_fails_within_transition_timeout() {
    let mut seg = segment();
    seg.device_mut(2).al_script_for.insert(
        al::OP,
        AlScript {
            refuse_with: Some(0x001D),
            ..Default::default()
        },
    );
    let mut net = simrun::net_general();
    let md = maindevice(&mut net);
    let group = run(md.init_single_group::<4, 16>(simrun::now_ns), &mut net, &mut seg).expect("init");
    let group = run(group.into_safe_op(md), &mut net, &mut seg).expect("safe-op");

    let t0 = simrun::now_us();
    let r = run(group.into_op(md), &mut net, &mut seg);
    let dt = simrun::now_us() - t0;
    assert!(matches!(r, Err(Error::Timeout(_))), "{:?}", r.err());
    // state_transition timeout of the test configuration: 500 ms
    assert!((500_000..520_000).contains(&dt), "{dt}");

    let d = seg.device(2);
    assert_eq!(d.al_state, al::SAFEOP);
    assert!(d.al_error);
    assert_eq!(d.al_status_code, 0x001D);
    assert_eq!(seg.device(1).al_state, al::OP);
    assert!(seg.log.iter().any(|e| matches!(
        e,
        SimEvent::AlControl { device: 2, requested: 8, state: 4, error: true, status_code: 0x001D, .. }
    )));
}

#[test]
fn refused_preop_fails_init() {
    let mut seg = segment();
    seg.device_mut(1).al_script_for.insert(
        al::PREOP,
        AlScript {
            refuse_with: Some(0x0003),
            ..Default::default()
        },
    );
    let mut net = simrun::net_general();
    let md = maindevice(&mut net);
    let t0 = simrun::now_us();
    let r = run(md.init_single_group::<4, 16>(simrun::now_ns), &mut net, &mut seg);
    assert!(matches!(r, Err(Error::Timeout(_))), "{:?}", r.err());
    assert!(simrun::now_us() - t0 < 600_000);
}

#[test]
fn stalled_device_times_out() {
    let mut seg = segment();
    seg.device_mut(0).al_script_for.insert(
        al::SAFEOP,
        AlScript {
            stall: true,
            ..Default::default()
        },
    );
    let mut net = simrun::net_general();
    let md = maindevice(&mut net);
    let group = run(md.init_single_group::<4, 16>(simrun::now_ns), &mut net, &mut seg).expect("init");
    let r = run(group.into_safe_op(md), &mut net, &mut seg);
    assert!(matches!(r, Err(Error::Timeout(_))), "{:?}", r.err());
    assert_eq!(seg.device(0).al_state, al::PREOP);
    assert!(!seg.device(0).al_error);
}

#[test]
fn fall_back_from_op_is_visible_in_tx_rx() {
    let mut seg = segment();
    seg.device_mut(2).al_script_for.insert(
        al::OP,
        AlScript {
            fall_back: Some((10, al::SAFEOP)),
            ..Default::default()
        },
    );
    let mut net = simrun::net_general();
    let md = maindevice(&mut net);
    let group = run(md.init_single_group::<4, 16>(simrun::now_ns), &mut net, &mut seg).expect("init");
    let group = run(group.into_op(md), &mut net, &mut seg).expect("op");

    let mut saw_fall_back = false;
    for _ in 0..20 {
        let r = run(group.tx_rx(md), &mut net, &mut seg).expect("tx_rx");
        if !r.all_op() {
            assert_eq!(r.subdevice_states[2], SubDeviceState::SafeOp);
            saw_fall_back = true;
            break;
        }
    }
    assert!(saw_fall_back);
    assert_eq!(seg.device(2).al_status_code, 0x001B);
    let sd = group.subdevice(md, 2).unwrap();
    let status = run(sd.status(), &mut net, &mut seg);
    println!("status of fallen back device: {status:?}");
}

#[test]
fn invalid_transition_and_missing_mailbox_config() {
    // Driven with raw frames, no MainDevice.
    let mut seg = segment();
    let frame = |cmd: u8, adp: u16, ado: u16, data: &[u8]| -> Vec<u8> {
        let mut f = vec![0xFF; 6];
        f.extend_from_slice(&[0x10; 6]);
        f.extend_from_slice(&[0x88, 0xA4]);
        let len = 12 + data.len() as u16;
        f.extend_from_slice(&(len | 0x1000).to_le_bytes());
        f.push(cmd);
        f.push(0x55);
        f.extend_from_slice(&adp.to_le_bytes());
        f.extend_from_slice(&ado.to_le_bytes());
        f.extend_from_slice(&(data.len() as u16).to_le_bytes());
        f.extend_from_slice(&[0, 0]);
        f.extend_from_slice(data);
        f.extend_from_slice(&[0, 0]);
        f
    };
    // The digital terminals are ESCs in device emulation mode (EEPROM word 0 bit 8): AL status
    // mirrors AL control, whatever is written. APWR to the second device (auto increment -1):
    assert!(seg.device(1).al_emulation);
    let resp = seg.process(&frame(2, 0xFFFF, 0x0120, &[0x18, 0x00])).unwrap();
    assert_eq!(resp[6], 0x12);
    assert_eq!(&resp[resp.len() - 2..], &[1, 0]);
    let resp = seg.process(&frame(1, 0xFFFF, 0x0130, &[0, 0])).unwrap();
    assert_eq!(&resp[26..28], &[0x18, 0x00]);
    seg.process(&frame(2, 0xFFFF, 0x0120, &[0x01, 0x00])).unwrap();
    assert_eq!(seg.device(1).al_state, al::INIT);

    // A device with an application controller checks the transition: INIT -> OP is refused with
    // status code 0x0011 and the error indication, which is cleared by the acknowledge bit.
    let (coe, _) = devices::build_coe_device("SIMDRIVE", &BuildOptions::default());
    let mut seg = Segment::line(vec![coe]);
    assert!(!seg.device(0).al_emulation);
    seg.process(&frame(2, 0, 0x0120, &[0x08, 0x00])).unwrap();
    assert_eq!(seg.device(0).al_state, al::INIT);
    assert!(seg.device(0).al_error);
    assert_eq!(seg.device(0).al_status_code, 0x0011);
    let resp = seg.process(&frame(1, 0, 0x0130, &[0, 0])).unwrap();
    assert_eq!(&resp[26..28], &[0x11, 0x00]);
    let resp = seg.process(&frame(1, 0, 0x0134, &[0, 0])).unwrap();
    assert_eq!(&resp[26..28], &[0x11, 0x00]);
    seg.process(&frame(2, 0, 0x0120, &[0x11, 0x00])).unwrap();
    assert!(!seg.device(0).al_error);
    assert_eq!(seg.device(0).al_status_code, 0);
    // Unknown state value
    seg.process(&frame(2, 0, 0x0120, &[0x07, 0x00])).unwrap();
    assert_eq!(seg.device(0).al_status_code, 0x0012);

    // A mailbox device without configured mailbox sync managers refuses PRE-OP with 0x0016.
    let (coe, _) = devices::build_coe_device("SIMDRIVE", &BuildOptions::default());
    let mut seg = Segment::line(vec![coe]);
    seg.process(&frame(2, 0, 0x0120, &[0x02, 0x00])).unwrap();
    assert_eq!(seg.device(0).al_state, al::INIT);
    assert_eq!(seg.device(0).al_status_code, 0x0016);
}
