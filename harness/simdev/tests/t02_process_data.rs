mod common;

use common::*;
use ethercrab::{SubDeviceGroup, SubDeviceState, error::Error};
use simdev::devices::{self, BuildOptions};
use simdev::simnet::{Segment, SimEvent, al};
use simdev::simrun;

fn five_device_segment() -> Segment {
    let opts = BuildOptions::default();
    let (coe, _) = devices::build_coe_device("SIMDRIVE", &opts);
    Segment::line(vec![
        devices::build_device("EK1100", &devices::coupler("EK1100"), &opts),
        devices::build_device("EL1008", &devices::digital_in("EL1008", 8), &opts),
        devices::build_device("EL2008", &devices::digital_out("EL2008", 8), &opts),
        devices::build_device("EL1859", &devices::digital_io("EL1859", 8, 8), &opts),
        coe,
    ])
}

#[test]
fn single_group_op_and_io() {
    let mut seg = five_device_segment();
    let mut net = simrun::net_general();
    let md = maindevice(&mut net);

    let group = run(md.init_single_group::<8, 64>(simrun::now_ns), &mut net, &mut seg).expect("init");
    assert_eq!(group.len(), 5);

    let group = run(group.into_op(md), &mut net, &mut seg).expect("into_op");
    for d in &seg.devices {
        assert_eq!(d.al_state, al::OP, "{}", d.label);
    }

    // Inputs: EL1008 1 byte @0x1000, EL1859 1 byte @0x1000, drive 8 bytes @0x1180
    seg.device_mut(1).mem_write(0x1000, &[0xA5]);
    seg.device_mut(3).mem_write(0x1000, &[0x3C]);
    seg.device_mut(4).mem_write(devices::COE_PD_IN, &[1, 2, 3, 4, 5, 6, 7, 8]);

    // Outputs
    {
        let sd = group.subdevice(md, 2).unwrap();
        sd.outputs_raw_mut()[0] = 0x81;
        let sd = group.subdevice(md, 3).unwrap();
        sd.outputs_raw_mut()[0] = 0x42;
        let sd = group.subdevice(md, 4).unwrap();
        let mut o = sd.outputs_raw_mut();
        assert_eq!(o.len(), 6);
        o.copy_from_slice(&[0x11, 0x22, 0x33, 0x44, 0x55, 0x66]);
    }

    let resp = run(group.tx_rx(md), &mut net, &mut seg).expect("tx_rx");
    // 3 input devices (+1 each), 3 output devices (+2 each)
    assert_eq!(resp.working_counter, 3 + 3 * 2);
    assert!(resp.all_op());
    assert_eq!(resp.subdevice_states.len(), 5);
    assert!(resp.subdevice_states.iter().all(|s| *s == SubDeviceState::Op));

    assert_eq!(seg.device(2).mem_read(0x0F00, 1), &[0x81]);
    assert_eq!(seg.device(3).mem_read(0x0F00, 1), &[0x42]);
    assert_eq!(seg.device(4).mem_read(devices::COE_PD_OUT, 6), &[0x11, 0x22, 0x33, 0x44, 0x55, 0x66]);

    assert_eq!(&*group.subdevice(md, 1).unwrap().inputs_raw(), &[0xA5]);
    assert_eq!(&*group.subdevice(md, 3).unwrap().inputs_raw(), &[0x3C]);
    assert_eq!(&*group.subdevice(md, 4).unwrap().inputs_raw(), &[1, 2, 3, 4, 5, 6, 7, 8]);
    assert_eq!(group.subdevice(md, 0).unwrap().inputs_raw().len(), 0);

    // Second cycle with changed inputs
    seg.device_mut(1).mem_write(0x1000, &[0x0F]);
    run(group.tx_rx(md), &mut net, &mut seg).expect("tx_rx");
    assert_eq!(&*group.subdevice(md, 1).unwrap().inputs_raw(), &[0x0F]);

    // Back down
    let group = run(group.into_safe_op(md), &mut net, &mut seg).expect("safe op");
    assert!(seg.devices.iter().all(|d| d.al_state == al::SAFEOP));
    let group = run(group.into_pre_op(md), &mut net, &mut seg).expect("pre op");
    assert!(seg.devices.iter().all(|d| d.al_state == al::PREOP));
    let _group = run(group.into_init(md), &mut net, &mut seg).expect("init");
    assert!(seg.devices.iter().all(|d| d.al_state == al::INIT));
}

#[derive(Default)]
struct Groups {
    io: SubDeviceGroup<4, 16>,
    drives: SubDeviceGroup<2, 32>,
}

#[test]
fn two_groups() {
    let mut seg = five_device_segment();
    let mut net = simrun::net_general();
    let md = maindevice(&mut net);

    let groups = run(
        md.init::<8, _>(simrun::now_ns, Groups::default(), |g: &Groups, sd| {
            if sd.name().starts_with("E") {
                Ok(&g.io)
            } else if sd.name() == "SIMDRIVE" {
                Ok(&g.drives)
            } else {
                Err(Error::UnknownSubDevice)
            }
        }),
        &mut net,
        &mut seg,
    )
    .expect("init");

    assert_eq!(groups.io.len(), 4);
    assert_eq!(groups.drives.len(), 1);
    let d = groups.drives.subdevice(md, 0).unwrap();
    assert_eq!(d.name(), "SIMDRIVE");
    assert_eq!(d.configured_address(), 0x1004);
    let id = d.identity();
    assert_eq!(id.vendor_id, 0x0000_ACDC);
    assert_eq!(id.product_id, 0x0000_C0E1);
    assert_eq!(id.revision, 0x0001_0002);
    assert_eq!(id.serial, 0x1234_5678);
    drop(d);

    let Groups { io, drives } = groups;

    let io = run(io.into_safe_op(md), &mut net, &mut seg).expect("io safe-op");
    let io = run(io.into_op(md), &mut net, &mut seg).expect("io op");
    let drives = run(drives.into_pre_op_pdi(md), &mut net, &mut seg).expect("drives pre-op pdi");
    assert_eq!(seg.device(4).al_state, al::PREOP);
    let drives = run(drives.into_op(md), &mut net, &mut seg).expect("drives op");
    assert!(seg.devices.iter().all(|d| d.al_state == al::OP));

    // The two groups use different logical address windows: group 1 starts at 0, group 2 behind
    // the first group's MAX_PDI.
    let fmmus: Vec<(usize, u8, u32)> = seg
        .log
        .iter()
        .filter_map(|e| match e {
            SimEvent::FmmuWrite { device, index, raw } if raw[12] & 1 != 0 => {
                Some((*device, *index, u32::from_le_bytes([raw[0], raw[1], raw[2], raw[3]])))
            }
            _ => None,
        })
        .collect();
    let io_min = fmmus.iter().filter(|(d, _, _)| *d < 4).map(|(_, _, l)| *l).min().unwrap();
    let io_max = fmmus.iter().filter(|(d, _, _)| *d < 4).map(|(_, _, l)| *l).max().unwrap();
    let dr_min = fmmus.iter().filter(|(d, _, _)| *d == 4).map(|(_, _, l)| *l).min().unwrap();
    let dr_max = fmmus.iter().filter(|(d, _, _)| *d == 4).map(|(_, _, l)| *l).max().unwrap();
    assert!(io_max - io_min < 16 && dr_max - dr_min < 32, "{fmmus:?}");
    assert!(io_min >= dr_min + 32 || dr_min >= io_min + 16, "windows must not overlap: {fmmus:?}");

    seg.device_mut(4).mem_write(devices::COE_PD_IN, &[9, 8, 7, 6, 5, 4, 3, 2]);
    seg.device_mut(1).mem_write(0x1000, &[0x77]);
    io.subdevice(md, 2).unwrap().outputs_raw_mut()[0] = 0xEE;
    drives.subdevice(md, 0).unwrap().outputs_raw_mut().copy_from_slice(&[6, 5, 4, 3, 2, 1]);

    let r1 = run(io.tx_rx(md), &mut net, &mut seg).expect("io tx_rx");
    assert_eq!(r1.working_counter, 2 + 2 * 2);
    let r2 = run(drives.tx_rx(md), &mut net, &mut seg).expect("drives tx_rx");
    assert_eq!(r2.working_counter, 3);

    assert_eq!(&*io.subdevice(md, 1).unwrap().inputs_raw(), &[0x77]);
    assert_eq!(seg.device(2).mem_read(0x0F00, 1), &[0xEE]);
    assert_eq!(&*drives.subdevice(md, 0).unwrap().inputs_raw(), &[9, 8, 7, 6, 5, 4, 3, 2]);
    assert_eq!(seg.device(4).mem_read(devices::COE_PD_OUT, 6), &[6, 5, 4, 3, 2, 1]);
}
