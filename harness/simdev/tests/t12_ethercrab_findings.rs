//! Behaviours of the ethercrab revision under test that the simulator can provoke with little
//! effort. Each case prints what happened; the assertions only pin down what is currently observed
//! (panic or error), so that a fix in ethercrab shows up as a changed message, not as a red test,
//! wherever that is possible.
mod common;

use common::*;
use ethercrab::{ObjectDescriptionListQuery, error::Error};
use simdev::devices::{self, BuildOptions};
use simdev::sii_image;
use simdev::simnet::{DcKind, Segment};
use simdev::simrun;
use std::panic::{AssertUnwindSafe, catch_unwind};

fn outcome<T: std::fmt::Debug>(what: &str, r: std::thread::Result<T>) -> bool {
    simrun::reset_clock();
    match r {
        Ok(v) => {
            println!("FINDING-CHECK {what}: returned {v:?}");
            false
        }
        Err(p) => {
            let msg = p
                .downcast_ref::<String>()
                .cloned()
                .or_else(|| p.downcast_ref::<&str>().map(|s| s.to_string()))
                .unwrap_or_default();
            println!("FINDING-CHECK {what}: PANIC: {msg}");
            true
        }
    }
}

/// A category header whose length makes the 16 bit word address wrap.
#[test]
fn eeprom_category_length_wraps_word_address() {
    let mut desc = devices::digital_in("EL1008", 8);
    desc.strings.clear();
    desc.has_general = false;
    desc.order_idx = 0;
    desc.name_idx = 0;
    desc.group_idx = 0;
    let mut img = sii_image::encode(&desc);
    // First category at word 0x40: keep the type, claim 0xFFC0 words
    img[0x82..0x84].copy_from_slice(&0xFFC0u16.to_le_bytes());
    let mut dev = devices::build_device("EL1008", &desc, &BuildOptions::default());
    dev.eeprom = img;
    let mut seg = Segment::line(vec![dev]);
    let mut net = simrun::net_general();
    let md = maindevice(&mut net);
    let r = catch_unwind(AssertUnwindSafe(|| {
        run(md.init_single_group::<2, 16>(simrun::now_ns), &mut net, &mut seg).map(|g| g.len())
    }));
    outcome("EEPROM category with length 0xFFC0 (src/subdevice/eeprom.rs `word_addr += len_words`)", r);
}

/// Size word 0x01FF (64 KiB EEPROM): `(size + 1) * 128` does not fit into u16.
#[test]
fn eeprom_size_word_511() {
    let mut desc = devices::digital_in("EL1008", 8);
    desc.size_kbit = 16;
    let mut dev = devices::build_device("EL1008", &desc, &BuildOptions::default());
    dev.eeprom[0x7C..0x7E].copy_from_slice(&511u16.to_le_bytes());
    let mut seg = Segment::line(vec![dev]);
    let mut net = simrun::net_general();
    let md = maindevice(&mut net);
    let group = run(md.init_single_group::<2, 16>(simrun::now_ns), &mut net, &mut seg).expect("init");
    let sd = group.subdevice(md, 0).unwrap();
    let r = catch_unwind(AssertUnwindSafe(|| run(sd.eeprom_size(md), &mut net, &mut seg)));
    outcome("eeprom_size() with size word 511 (src/subdevice/eeprom.rs `(x + 1) * 128`)", r);
}

/// Nested junctions: A(0,3,1) -> [B(0,3,1) -> [C], [D]], [E]. When E is looked at, the nearest
/// junction before it is B whose ports are all taken.
#[test]
fn nested_junction_topology() {
    let o = BuildOptions {
        dc_kind: DcKind::Bits64,
        ..Default::default()
    };
    let mut seg = Segment::with_topology(
        vec![
            devices::build_device("A", &devices::coupler("A"), &o),
            devices::build_device("B", &devices::coupler("B"), &o),
            devices::build_device("C", &devices::digital_in("C", 8), &o),
            devices::build_device("D", &devices::digital_in("D", 8), &o),
            devices::build_device("E", &devices::digital_in("E", 8), &o),
        ],
        vec![None, Some((0, 3)), Some((1, 3)), Some((1, 1)), Some((0, 1))],
    );
    seg.link_delay_ns = vec![100; 5];
    let mut net = simrun::net_general();
    let md = maindevice(&mut net);
    let r = catch_unwind(AssertUnwindSafe(|| {
        run(md.init_single_group::<8, 16>(simrun::now_ns), &mut net, &mut seg).map(|g| {
            g.iter(md).map(|s| (s.name().to_string(), s.propagation_delay())).collect::<Vec<_>>()
        })
    }));
    println!("FINDING-CHECK nested junctions: true one way delays are A 0, B 100, C 200, D 400, E 700");
    outcome("nested junctions A[B[C,D],E] (src/dc.rs find_subdevice_parent / assign_next_downstream_port)", r);
}

/// A device with mailbox sync managers but without CoE (FoE only) and EEPROM PDOs on SM2/SM3.
/// `configure_pdos_eeprom` picks the FMMU with the *sync manager's* index, so FMMU 2 and 3 are used.
/// On an ESC with three FMMUs (ET1200 class) FMMU 3 does not exist.
#[test]
fn eeprom_pdos_use_sync_manager_index_as_fmmu_index() {
    use simdev::sii_image::{MailboxDesc, PdoDesc, PdoEntryDesc, SmDesc, fmmu_usage, proto, sm_usage};
    let mut desc = devices::digital_io("FOEDEV", 8, 8);
    desc.pdi_control = 0x0005;
    desc.mailbox = Some(MailboxDesc {
        recv_offset: 0x1000,
        recv_size: 64,
        send_offset: 0x1040,
        send_size: 64,
        protocols: proto::FOE,
        ..Default::default()
    });
    desc.sync_managers = vec![
        SmDesc { start: 0x1000, length: 64, control: 0x26, status: 0, enable: 1, usage: sm_usage::MBX_OUT },
        SmDesc { start: 0x1040, length: 64, control: 0x22, status: 0, enable: 1, usage: sm_usage::MBX_IN },
        SmDesc { start: 0x1100, length: 1, control: 0x64, status: 0, enable: 1, usage: sm_usage::PD_OUT },
        SmDesc { start: 0x1180, length: 1, control: 0x20, status: 0, enable: 1, usage: sm_usage::PD_IN },
    ];
    desc.fmmu_usage = vec![fmmu_usage::OUTPUTS, fmmu_usage::INPUTS, fmmu_usage::SM_STATUS];
    let entry = |index| PdoEntryDesc { index, sub: 1, name_idx: 0, data_type: 5, bit_len: 8, flags: 0 };
    desc.rx_pdos = vec![PdoDesc { index: 0x1600, sm: 2, sync: 0, name_idx: 0, flags: 0, entries: vec![entry(0x7000)] }];
    desc.tx_pdos = vec![PdoDesc { index: 0x1A00, sm: 3, sync: 0, name_idx: 0, flags: 0, entries: vec![entry(0x6000)] }];

    for fmmus in [4u8, 3] {
        let dev = devices::build_device(
            "FOEDEV",
            &desc,
            &BuildOptions {
                fmmu_count: Some(fmmus),
                ..Default::default()
            },
        );
        let mut seg = Segment::line(vec![dev]);
        let mut net = simrun::net_general();
        let md = maindevice(&mut net);
        let group = run(md.init_single_group::<2, 16>(simrun::now_ns), &mut net, &mut seg).expect("init");
        let r = run(group.into_op(md), &mut net, &mut seg);
        let used: Vec<usize> = (0..4).filter(|i| seg.device(0).fmmu_raw(*i)[12] & 1 != 0).collect();
        println!(
            "FINDING-CHECK EEPROM PDOs on SM2/SM3, ESC with {fmmus} FMMUs: into_op -> {:?}, enabled FMMUs {used:?}",
            r.as_ref().map(|_| "ok").map_err(|e| *e)
        );
        if fmmus == 4 {
            assert!(r.is_ok());
        }
    }
}

fn coe_setup() -> (Segment, simrun::Net, &'static ethercrab::MainDevice<'static>, ethercrab::SubDeviceGroup<2, 32>) {
    let (coe, _) = devices::build_coe_device("SIMDRIVE", &BuildOptions::default());
    let mut seg = Segment::line(vec![coe]);
    let mut net = simrun::net_general();
    let md = maindevice(&mut net);
    let group = run(md.init_single_group::<2, 32>(simrun::now_ns), &mut net, &mut seg).expect("init");
    (seg, net, md, group)
}

/// Upload segment response whose mailbox length field is smaller than 3.
#[test]
fn mailbox_segment_length_underflow() {
    let (mut seg, mut net, md, group) = coe_setup();
    {
        let mb = seg.device_mut(0).mailbox_mut();
        // initiate response: normal transfer, complete size 100, no data in this message
        mb.scripted_replies.push_back(vec![10, 0, 0, 0, 0, 0x13, 0, 0x30, 0x41, 0x00, 0x20, 0, 100, 0, 0, 0]);
        // "segment" with length 2 and a command specifier ethercrab accepts (3)
        mb.scripted_replies.push_back(vec![2, 0, 0, 0, 0, 0x23, 0, 0x30, 0x61, 0, 0, 0]);
    }
    let sd = group.subdevice(md, 0).unwrap();
    let r = catch_unwind(AssertUnwindSafe(|| run(sd.sdo_read::<[u8; 128]>(0x2000, 0), &mut net, &mut seg).map(|_| ())));
    outcome("segment response with mailbox length 2 (src/mailbox/coe/mod.rs `headers.header.length - 3`)", r);
}

/// SDO information response with a mailbox length below 8 / far beyond the mailbox.
#[test]
fn mailbox_sdo_info_length_checks() {
    for (label, len) in [("length 4", 4u16), ("length 0xFFF0", 0xFFF0)] {
        // ethercrab's SDO information future needs a big stack; `Segment` is not `Send` (fault
        // hook), so everything is created inside the thread.
        std::thread::Builder::new()
            .stack_size(64 << 20)
            .spawn(move || {
                let (mut seg, mut net, md, group) = coe_setup();
                let mut reply = len.to_le_bytes().to_vec();
                reply.extend_from_slice(&[0, 0, 0, 0x13, 0x00, 0x80, 0x02, 0, 0, 0, 1, 0]);
                seg.device_mut(0).mailbox_mut().scripted_replies.push_back(reply);
                let sd = group.subdevice(md, 0).unwrap();
                let r = catch_unwind(AssertUnwindSafe(|| {
                    run(
                        sd.sdo_info_object_description_list(ObjectDescriptionListQuery::All),
                        &mut net,
                        &mut seg,
                    )
                    .map(|l| l.map(|l| l.len()))
                }));
                outcome(
                    &format!("SDO info response with mailbox {label} (src/mailbox/coe/mod.rs send_sdo_info_service)"),
                    r,
                );
            })
            .unwrap()
            .join()
            .unwrap();
    }
}

/// `request_subdevice_state_nowait` looks at the error flag of the *echoed* FPWR data, which is what
/// the MainDevice itself wrote. A refusing device is therefore only noticed by the timeout.
#[test]
fn refused_state_change_is_only_seen_as_timeout() {
    let mut seg = Segment::line(vec![devices::build_coe_device("SIMDRIVE", &BuildOptions::default()).0]);
    seg.device_mut(0).al_script_for.insert(
        simdev::simnet::al::SAFEOP,
        simdev::simnet::AlScript {
            refuse_with: Some(0x001E),
            ..Default::default()
        },
    );
    let mut net = simrun::net_general();
    let md = maindevice(&mut net);
    let group = run(md.init_single_group::<2, 32>(simrun::now_ns), &mut net, &mut seg).expect("init");
    let t0 = simrun::now_us();
    let r = run(group.into_safe_op(md), &mut net, &mut seg);
    let dt = simrun::now_us() - t0;
    println!(
        "FINDING-CHECK refused PREOP->SAFEOP (AL status code 0x001E): {:?} after {dt} us",
        r.as_ref().err()
    );
    assert!(matches!(r, Err(Error::Timeout(_)) | Err(Error::StateTransition)));
}
