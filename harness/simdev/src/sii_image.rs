//! SII / EEPROM image encoder and a small independent decoder (ETG.2010 / ETG.1000.6 5.4).
//!
//! The encoder does not use any ethercrab code, so that ethercrab's parser is checked against an
//! independent reading of the specification.
//!
//! Layout produced by [`encode`]:
//!
//! * words 0x00..0x3F: fixed header. PDI control, PDI configuration, sync impulse length, PDI
//!   configuration 2, station alias (word 4), checksum (word 7 low byte, CRC-8 polynomial 0x07,
//!   initial value 0xFF over the first 14 bytes), vendor / product / revision / serial (words
//!   8..0x0F), bootstrap mailbox (0x14..0x17), standard mailbox (0x18..0x1B), mailbox protocols
//!   (0x1C), size in KiBit minus one (0x3E), version (0x3F);
//! * from word 0x40: categories `type:u16, word_length:u16, data`, each padded to a whole word;
//! * end marker 0xFFFF, remainder of the image filled with 0xFF up to `size_kbit`.
//!
//! Simplifications:
//!
//! * The "General" category is written with the 32 byte ETG.2010 layout; fields ethercrab does not
//!   read are still encoded from the description (physical ports, current consumption, ...).
//! * `DcDesc` covers one 24 byte DC operation mode entry per element.
//! * Data type / units / enum categories can only be emitted through `extra_categories`.
//! * The decoder is lenient: unknown categories are returned raw in `extra_categories`.

use std::collections::BTreeMap;

/// Category numbers (ETG.1000.6 table 19).
pub mod cat {
    pub const STRINGS: u16 = 10;
    pub const DATA_TYPES: u16 = 20;
    pub const GENERAL: u16 = 30;
    pub const FMMU: u16 = 40;
    pub const SYNC_MANAGER: u16 = 41;
    pub const FMMU_EX: u16 = 42;
    pub const SYNC_UNIT: u16 = 43;
    pub const TX_PDO: u16 = 50;
    pub const RX_PDO: u16 = 51;
    pub const DC: u16 = 60;
    pub const END: u16 = 0xFFFF;
}

/// Mailbox protocol bits (word 0x1C).
pub mod proto {
    pub const AOE: u16 = 0x01;
    pub const EOE: u16 = 0x02;
    pub const COE: u16 = 0x04;
    pub const FOE: u16 = 0x08;
    pub const SOE: u16 = 0x10;
    pub const VOE: u16 = 0x20;
}

/// CoE detail bits of the General category.
pub mod coe_details {
    pub const ENABLE_SDO: u8 = 0x01;
    pub const ENABLE_SDO_INFO: u8 = 0x02;
    pub const ENABLE_PDO_ASSIGN: u8 = 0x04;
    pub const ENABLE_PDO_CONFIG: u8 = 0x08;
    pub const ENABLE_UPLOAD_AT_STARTUP: u8 = 0x10;
    pub const ENABLE_COMPLETE_ACCESS: u8 = 0x20;
}

/// Sync manager usage types of the SyncM category.
pub mod sm_usage {
    pub const UNUSED: u8 = 0;
    pub const MBX_OUT: u8 = 1; // MainDevice -> device (write mailbox)
    pub const MBX_IN: u8 = 2; // device -> MainDevice (read mailbox)
    pub const PD_OUT: u8 = 3; // process data outputs (MainDevice writes)
    pub const PD_IN: u8 = 4; // process data inputs (MainDevice reads)
}

/// FMMU usage values of the FMMU category.
pub mod fmmu_usage {
    pub const UNUSED: u8 = 0;
    pub const OUTPUTS: u8 = 1;
    pub const INPUTS: u8 = 2;
    pub const SM_STATUS: u8 = 3;
}

#[derive(Debug, Clone, PartialEq, Eq, Default)]
pub struct MailboxDesc {
    /// Standard receive mailbox (MainDevice -> device) offset.
    pub recv_offset: u16,
    pub recv_size: u16,
    /// Standard send mailbox (device -> MainDevice) offset.
    pub send_offset: u16,
    pub send_size: u16,
    /// Supported protocols, see [`proto`].
    pub protocols: u16,
    /// CoE details byte of the General category, see [`coe_details`].
    pub coe_details: u8,
    /// FoE / EoE detail bytes of the General category.
    pub foe_details: u8,
    pub eoe_details: u8,
    /// Bootstrap mailbox (recv offset, recv size, send offset, send size); zero if unused.
    pub bootstrap: [u16; 4],
}

#[derive(Debug, Clone, PartialEq, Eq, Default)]
pub struct SmDesc {
    pub start: u16,
    pub length: u16,
    pub control: u8,
    pub status: u8,
    pub enable: u8,
    pub usage: u8,
}

#[derive(Debug, Clone, PartialEq, Eq, Default)]
pub struct PdoEntryDesc {
    pub index: u16,
    pub sub: u8,
    pub name_idx: u8,
    pub data_type: u8,
    pub bit_len: u8,
    pub flags: u16,
}

#[derive(Debug, Clone, PartialEq, Eq, Default)]
pub struct PdoDesc {
    pub index: u16,
    pub sm: u8,
    pub sync: u8,
    pub name_idx: u8,
    pub flags: u16,
    pub entries: Vec<PdoEntryDesc>,
}

impl PdoDesc {
    pub fn bit_len(&self) -> u32 {
        self.entries.iter().map(|e| u32::from(e.bit_len)).sum()
    }
}

/// One DC operation mode entry (24 bytes) of the DC category.
#[derive(Debug, Clone, PartialEq, Eq, Default)]
pub struct DcDesc {
    pub cycle_time0: u32,
    pub shift_time0: u32,
    pub shift_time1: u32,
    pub sync1_cycle_factor: i16,
    pub assign_activate: u16,
    pub sync0_cycle_factor: i16,
    pub name_idx: u8,
    pub desc_idx: u8,
}

/// Which category comes where in the image.
#[derive(Debug, Clone, Copy, PartialEq, Eq)]
pub enum CategoryKind {
    Strings,
    General,
    Fmmu,
    SyncManager,
    FmmuEx,
    TxPdo,
    RxPdo,
    Dc,
    /// Index into `extra_categories`.
    Extra(usize),
}

#[derive(Debug, Clone, PartialEq, Eq)]
pub struct DeviceDescription {
    // Header
    pub pdi_control: u16,
    pub pdi_config: u16,
    pub sync_impulse_len: u16,
    pub pdi_config2: u16,
    pub alias: u16,
    pub vendor_id: u32,
    pub product_id: u32,
    pub revision: u32,
    pub serial: u32,
    pub mailbox: Option<MailboxDesc>,
    pub version: u16,
    pub size_kbit: u32,

    // Strings category; indices in other fields are 1-based, 0 = no string.
    pub strings: Vec<Vec<u8>>,

    // General category
    pub group_idx: u8,
    pub image_idx: u8,
    pub order_idx: u8,
    pub name_idx: u8,
    pub soe_channels: u8,
    pub ds402_channels: u8,
    pub sysman_class: u8,
    pub flags: u8,
    pub ebus_current_ma: i16,
    pub physical_ports: u16,
    pub physical_memory_address: u16,
    /// Byte 4 ("reserved") and byte 14 (duplicate of the group index in many real images) of the
    /// General category.
    pub general_byte4: u8,
    pub general_byte14: u8,
    /// Emit a General category at all.
    pub has_general: bool,
    /// Raw content of the reserved header words 0x1D..0x3D (bytes 0x3A..0x7C); shorter = zero
    /// filled. Real images carry vendor data here.
    pub header_reserved: Vec<u8>,
    /// Raw content of header bytes 0x20..0x28 (words 0x10..0x13, reserved / delays).
    pub header_reserved_low: [u8; 8],
    /// The reserved words 5 and 6 of the header (covered by the checksum; zero in most images).
    pub header_words_5_6: [u16; 2],

    pub sync_managers: Vec<SmDesc>,
    pub fmmu_usage: Vec<u8>,
    /// Raw 3 byte FMMU_EX entries (ETG.1020): `[opt, sync manager, opt]`.
    pub fmmu_ex: Vec<[u8; 3]>,
    pub tx_pdos: Vec<PdoDesc>,
    pub rx_pdos: Vec<PdoDesc>,
    pub dc: Option<Vec<DcDesc>>,
    pub extra_categories: Vec<(u16, Vec<u8>)>,
    /// Explicit category order. `None` = Strings, General, FMMU, SyncM, FMMU_EX, TxPDO, RxPDO, DC,
    /// extras; categories without content are skipped.
    pub category_order: Option<Vec<CategoryKind>>,
    /// Byte used to pad odd-length categories (real images use 0x00 or 0xFF).
    pub pad_byte: u8,
}

impl Default for DeviceDescription {
    fn default() -> Self {
        Self {
            pdi_control: 0,
            pdi_config: 0,
            sync_impulse_len: 0,
            pdi_config2: 0,
            alias: 0,
            vendor_id: 0,
            product_id: 0,
            revision: 0,
            serial: 0,
            mailbox: None,
            version: 1,
            size_kbit: 16,
            strings: Vec::new(),
            group_idx: 0,
            image_idx: 0,
            order_idx: 0,
            name_idx: 0,
            soe_channels: 0,
            ds402_channels: 0,
            sysman_class: 0,
            flags: 0,
            ebus_current_ma: 0,
            physical_ports: 0,
            physical_memory_address: 0,
            general_byte4: 0,
            general_byte14: 0,
            has_general: true,
            header_reserved: Vec::new(),
            header_reserved_low: [0; 8],
            header_words_5_6: [0; 2],
            sync_managers: Vec::new(),
            fmmu_usage: Vec::new(),
            fmmu_ex: Vec::new(),
            tx_pdos: Vec::new(),
            rx_pdos: Vec::new(),
            dc: None,
            extra_categories: Vec::new(),
            category_order: None,
            pad_byte: 0,
        }
    }
}

impl DeviceDescription {
    /// Add a string and return its 1-based index.
    pub fn add_string(&mut self, s: &str) -> u8 {
        self.strings.push(s.as_bytes().to_vec());
        self.strings.len() as u8
    }

    /// Convenience: set order/name/group strings.
    pub fn with_names(mut self, order: &str, name: &str, group: &str) -> Self {
        self.order_idx = self.add_string(order);
        self.name_idx = self.add_string(name);
        self.group_idx = self.add_string(group);
        self
    }

    /// Total input (TxPDO) bits assigned to a sync manager.
    pub fn tx_bits_for_sm(&self, sm: u8) -> u32 {
        self.tx_pdos.iter().filter(|p| p.sm == sm).map(|p| p.bit_len()).sum()
    }

    /// Total output (RxPDO) bits assigned to a sync manager.
    pub fn rx_bits_for_sm(&self, sm: u8) -> u32 {
        self.rx_pdos.iter().filter(|p| p.sm == sm).map(|p| p.bit_len()).sum()
    }
}

/// CRC-8, polynomial 0x07, initial value 0xFF, no reflection, no final xor.
pub fn crc8(data: &[u8]) -> u8 {
    let mut crc = 0xFFu8;
    for &b in data {
        crc ^= b;
        for _ in 0..8 {
            crc = if crc & 0x80 != 0 { (crc << 1) ^ 0x07 } else { crc << 1 };
        }
    }
    crc
}

fn put16(v: &mut Vec<u8>, x: u16) {
    v.extend_from_slice(&x.to_le_bytes());
}

fn put32(v: &mut Vec<u8>, x: u32) {
    v.extend_from_slice(&x.to_le_bytes());
}

fn encode_strings(d: &DeviceDescription) -> Vec<u8> {
    let mut v = vec![d.strings.len().min(255) as u8];
    for s in d.strings.iter().take(255) {
        let s = &s[..s.len().min(255)];
        v.push(s.len() as u8);
        v.extend_from_slice(s);
    }
    v
}

fn encode_general(d: &DeviceDescription) -> Vec<u8> {
    let mb = d.mailbox.clone().unwrap_or_default();
    let mut v = Vec::with_capacity(32);
    v.push(d.group_idx); // 0x00
    v.push(d.image_idx); // 0x01
    v.push(d.order_idx); // 0x02
    v.push(d.name_idx); // 0x03
    v.push(d.general_byte4); // 0x04 reserved
    v.push(mb.coe_details); // 0x05
    v.push(mb.foe_details); // 0x06
    v.push(mb.eoe_details); // 0x07
    v.push(d.soe_channels); // 0x08
    v.push(d.ds402_channels); // 0x09
    v.push(d.sysman_class); // 0x0A
    v.push(d.flags); // 0x0B
    v.extend_from_slice(&d.ebus_current_ma.to_le_bytes()); // 0x0C
    v.push(d.general_byte14); // 0x0E (group idx duplicate / pad)
    v.push(0); // 0x0F reserved
    put16(&mut v, d.physical_ports); // 0x10
    put16(&mut v, d.physical_memory_address); // 0x12
    v.resize(32, 0);
    v
}

fn encode_sms(d: &DeviceDescription) -> Vec<u8> {
    let mut v = Vec::new();
    for sm in &d.sync_managers {
        put16(&mut v, sm.start);
        put16(&mut v, sm.length);
        v.push(sm.control);
        v.push(sm.status);
        v.push(sm.enable);
        v.push(sm.usage);
    }
    v
}

fn encode_pdos(pdos: &[PdoDesc]) -> Vec<u8> {
    let mut v = Vec::new();
    for p in pdos {
        put16(&mut v, p.index);
        v.push(p.entries.len().min(255) as u8);
        v.push(p.sm);
        v.push(p.sync);
        v.push(p.name_idx);
        put16(&mut v, p.flags);
        for e in p.entries.iter().take(255) {
            put16(&mut v, e.index);
            v.push(e.sub);
            v.push(e.name_idx);
            v.push(e.data_type);
            v.push(e.bit_len);
            put16(&mut v, e.flags);
        }
    }
    v
}

fn encode_dc(dc: &[DcDesc]) -> Vec<u8> {
    let mut v = Vec::new();
    for m in dc {
        put32(&mut v, m.cycle_time0);
        put32(&mut v, m.shift_time0);
        put32(&mut v, m.shift_time1);
        v.extend_from_slice(&m.sync1_cycle_factor.to_le_bytes());
        put16(&mut v, m.assign_activate);
        v.extend_from_slice(&m.sync0_cycle_factor.to_le_bytes());
        v.push(m.name_idx);
        v.push(m.desc_idx);
        v.extend_from_slice(&[0; 4]);
    }
    v
}

/// Default category order for a description: only categories with content.
pub fn default_order(d: &DeviceDescription) -> Vec<CategoryKind> {
    let mut order = Vec::new();
    if !d.strings.is_empty() {
        order.push(CategoryKind::Strings);
    }
    if d.has_general {
        order.push(CategoryKind::General);
    }
    if !d.fmmu_usage.is_empty() {
        order.push(CategoryKind::Fmmu);
    }
    if !d.sync_managers.is_empty() {
        order.push(CategoryKind::SyncManager);
    }
    if !d.fmmu_ex.is_empty() {
        order.push(CategoryKind::FmmuEx);
    }
    if !d.tx_pdos.is_empty() {
        order.push(CategoryKind::TxPdo);
    }
    if !d.rx_pdos.is_empty() {
        order.push(CategoryKind::RxPdo);
    }
    if d.dc.is_some() {
        order.push(CategoryKind::Dc);
    }
    for i in 0..d.extra_categories.len() {
        order.push(CategoryKind::Extra(i));
    }
    order
}

/// Encode only the 128 byte header.
pub fn encode_header(d: &DeviceDescription) -> Vec<u8> {
    let mut h = Vec::with_capacity(128);
    put16(&mut h, d.pdi_control);
    put16(&mut h, d.pdi_config);
    put16(&mut h, d.sync_impulse_len);
    put16(&mut h, d.pdi_config2);
    put16(&mut h, d.alias);
    put16(&mut h, d.header_words_5_6[0]);
    put16(&mut h, d.header_words_5_6[1]);
    let crc = crc8(&h[0..14]);
    put16(&mut h, u16::from(crc));
    put32(&mut h, d.vendor_id);
    put32(&mut h, d.product_id);
    put32(&mut h, d.revision);
    put32(&mut h, d.serial);
    h.extend_from_slice(&d.header_reserved_low);
    debug_assert_eq!(h.len(), 0x14 * 2);
    let mb = d.mailbox.clone().unwrap_or_default();
    for w in mb.bootstrap {
        put16(&mut h, w);
    }
    put16(&mut h, mb.recv_offset);
    put16(&mut h, mb.recv_size);
    put16(&mut h, mb.send_offset);
    put16(&mut h, mb.send_size);
    put16(&mut h, mb.protocols);
    let room = 0x3E * 2 - h.len();
    h.extend(d.header_reserved.iter().copied().chain(std::iter::repeat(0)).take(room));
    put16(&mut h, (d.size_kbit.max(1) - 1) as u16);
    put16(&mut h, d.version);
    debug_assert_eq!(h.len(), 128);
    h
}

/// Encode a complete EEPROM image.
pub fn encode(d: &DeviceDescription) -> Vec<u8> {
    let mut img = encode_header(d);

    let order = d.category_order.clone().unwrap_or_else(|| default_order(d));

    for kind in order {
        let (ty, mut data) = match kind {
            CategoryKind::Strings => (cat::STRINGS, encode_strings(d)),
            CategoryKind::General => (cat::GENERAL, encode_general(d)),
            CategoryKind::Fmmu => (cat::FMMU, d.fmmu_usage.clone()),
            CategoryKind::SyncManager => (cat::SYNC_MANAGER, encode_sms(d)),
            CategoryKind::FmmuEx => (
                cat::FMMU_EX,
                d.fmmu_ex.iter().flat_map(|e| e.iter().copied()).collect(),
            ),
            CategoryKind::TxPdo => (cat::TX_PDO, encode_pdos(&d.tx_pdos)),
            CategoryKind::RxPdo => (cat::RX_PDO, encode_pdos(&d.rx_pdos)),
            CategoryKind::Dc => (cat::DC, encode_dc(d.dc.as_deref().unwrap_or(&[]))),
            CategoryKind::Extra(i) => match d.extra_categories.get(i) {
                Some((ty, data)) => (*ty, data.clone()),
                None => continue,
            },
        };
        if data.len() % 2 == 1 {
            // FMMU category pads with 0xFF (= unused FMMU) like real images do.
            data.push(if ty == cat::FMMU { 0xFF } else { d.pad_byte });
        }
        put16(&mut img, ty);
        put16(&mut img, (data.len() / 2) as u16);
        img.extend_from_slice(&data);
    }

    put16(&mut img, cat::END);

    let total = (d.size_kbit.max(1) as usize) * 128;
    if img.len() < total {
        img.resize(total, 0xFF);
    }
    img
}

// ---------------------------------------------------------------------------------------------
// Decoder (independent, lenient)
// ---------------------------------------------------------------------------------------------

fn get16(b: &[u8], off: usize) -> u16 {
    u16::from_le_bytes([*b.get(off).unwrap_or(&0xFF), *b.get(off + 1).unwrap_or(&0xFF)])
}

fn get32(b: &[u8], off: usize) -> u32 {
    u32::from(get16(b, off)) | (u32::from(get16(b, off + 2)) << 16)
}

/// Walk the category list; returns `(type, word_offset_of_data, data)` for each category up to
/// (excluding) the end marker. Stops at the end of the image or after 64 categories.
pub fn walk_categories(img: &[u8]) -> Vec<(u16, usize, Vec<u8>)> {
    let mut out = Vec::new();
    let mut off = 0x80usize;
    while off + 4 <= img.len() && out.len() < 64 {
        let ty = get16(img, off);
        if ty == cat::END {
            break;
        }
        let words = usize::from(get16(img, off + 2));
        let start = off + 4;
        let end = (start + words * 2).min(img.len());
        out.push((ty, start / 2, img[start..end].to_vec()));
        off = start + words * 2;
    }
    out
}

fn decode_pdos(data: &[u8]) -> Vec<PdoDesc> {
    let mut out = Vec::new();
    let mut off = 0;
    while off + 8 <= data.len() {
        let n = usize::from(data[off + 2]);
        let mut p = PdoDesc {
            index: get16(data, off),
            sm: data[off + 3],
            sync: data[off + 4],
            name_idx: data[off + 5],
            flags: get16(data, off + 6),
            entries: Vec::new(),
        };
        off += 8;
        for _ in 0..n {
            if off + 8 > data.len() {
                break;
            }
            p.entries.push(PdoEntryDesc {
                index: get16(data, off),
                sub: data[off + 2],
                name_idx: data[off + 3],
                data_type: data[off + 4],
                bit_len: data[off + 5],
                flags: get16(data, off + 6),
            });
            off += 8;
        }
        out.push(p);
    }
    out
}

/// Decode an image into a description (best effort). `category_order` is set to the order found.
pub fn decode(img: &[u8]) -> DeviceDescription {
    let mut d = DeviceDescription {
        pdi_control: get16(img, 0),
        pdi_config: get16(img, 2),
        sync_impulse_len: get16(img, 4),
        pdi_config2: get16(img, 6),
        alias: get16(img, 8),
        vendor_id: get32(img, 0x10),
        product_id: get32(img, 0x14),
        revision: get32(img, 0x18),
        serial: get32(img, 0x1C),
        version: get16(img, 0x7E),
        size_kbit: u32::from(get16(img, 0x7C)) + 1,
        has_general: false,
        header_reserved: img.get(0x3A..0x7C).unwrap_or(&[]).to_vec(),
        header_reserved_low: img.get(0x20..0x28).and_then(|s| s.try_into().ok()).unwrap_or([0; 8]),
        ..Default::default()
    };

    let mut mb = MailboxDesc {
        bootstrap: [get16(img, 0x28), get16(img, 0x2A), get16(img, 0x2C), get16(img, 0x2E)],
        recv_offset: get16(img, 0x30),
        recv_size: get16(img, 0x32),
        send_offset: get16(img, 0x34),
        send_size: get16(img, 0x36),
        protocols: get16(img, 0x38),
        ..Default::default()
    };

    let mut order = Vec::new();

    for (ty, _word, data) in walk_categories(img) {
        match ty {
            cat::STRINGS => {
                order.push(CategoryKind::Strings);
                let n = usize::from(*data.first().unwrap_or(&0));
                let mut off = 1;
                for _ in 0..n {
                    let Some(&len) = data.get(off) else { break };
                    let s = data.get(off + 1..off + 1 + usize::from(len)).unwrap_or(&[]);
                    d.strings.push(s.to_vec());
                    off += 1 + usize::from(len);
                }
                // Keep the padding byte of an odd sized string area
                if off < data.len() {
                    d.pad_byte = data[off];
                }
            }
            cat::GENERAL => {
                order.push(CategoryKind::General);
                d.has_general = true;
                let g = |i: usize| *data.get(i).unwrap_or(&0);
                d.group_idx = g(0);
                d.image_idx = g(1);
                d.order_idx = g(2);
                d.name_idx = g(3);
                d.general_byte4 = g(4);
                d.general_byte14 = g(14);
                mb.coe_details = g(5);
                mb.foe_details = g(6);
                mb.eoe_details = g(7);
                d.soe_channels = g(8);
                d.ds402_channels = g(9);
                d.sysman_class = g(10);
                d.flags = g(11);
                d.ebus_current_ma = i16::from_le_bytes([g(12), g(13)]);
                d.physical_ports = u16::from_le_bytes([g(16), g(17)]);
                d.physical_memory_address = u16::from_le_bytes([g(18), g(19)]);
            }
            cat::FMMU => {
                order.push(CategoryKind::Fmmu);
                d.fmmu_usage = data.clone();
            }
            cat::SYNC_MANAGER => {
                order.push(CategoryKind::SyncManager);
                for c in data.chunks_exact(8) {
                    d.sync_managers.push(SmDesc {
                        start: get16(c, 0),
                        length: get16(c, 2),
                        control: c[4],
                        status: c[5],
                        enable: c[6],
                        usage: c[7],
                    });
                }
            }
            cat::FMMU_EX => {
                order.push(CategoryKind::FmmuEx);
                for c in data.chunks_exact(3) {
                    d.fmmu_ex.push([c[0], c[1], c[2]]);
                }
            }
            cat::TX_PDO => {
                order.push(CategoryKind::TxPdo);
                d.tx_pdos = decode_pdos(&data);
            }
            cat::RX_PDO => {
                order.push(CategoryKind::RxPdo);
                d.rx_pdos = decode_pdos(&data);
            }
            cat::DC => {
                order.push(CategoryKind::Dc);
                let mut modes = Vec::new();
                for c in data.chunks_exact(24) {
                    modes.push(DcDesc {
                        cycle_time0: get32(c, 0),
                        shift_time0: get32(c, 4),
                        shift_time1: get32(c, 8),
                        sync1_cycle_factor: get16(c, 12) as i16,
                        assign_activate: get16(c, 14),
                        sync0_cycle_factor: get16(c, 16) as i16,
                        name_idx: c[18],
                        desc_idx: c[19],
                    });
                }
                d.dc = Some(modes);
            }
            other => {
                order.push(CategoryKind::Extra(d.extra_categories.len()));
                d.extra_categories.push((other, data));
            }
        }
    }

    let has_mb = mb.recv_size != 0 || mb.send_size != 0 || mb.protocols != 0 || mb.coe_details != 0;
    if has_mb {
        d.mailbox = Some(mb);
    }
    d.category_order = Some(order);
    d
}

/// Category statistics of an image, for reports: type -> byte length.
pub fn category_summary(img: &[u8]) -> BTreeMap<u16, usize> {
    let mut m = BTreeMap::new();
    for (ty, _, data) in walk_categories(img) {
        *m.entry(ty).or_insert(0) += data.len();
    }
    m
}

#[cfg(test)]
mod tests {
    use super::*;

    #[test]
    fn crc_check_value() {
        // First 14 bytes of the real EL2828 image (/repo/dumps/eeprom/el2828.hex), checksum 0xE2.
        let el2828 = [0x04, 0x01, 0, 0, 0, 0, 0xff, 0, 0, 0, 0, 0, 0, 0];
        assert_eq!(crc8(&el2828), 0xE2);
        // First 14 bytes of the real EK1100 image, checksum 0x46.
        let ek1100 = [0x00, 0x0d, 0, 0, 0, 0, 0, 0, 0, 0, 0, 0, 0, 0];
        assert_eq!(crc8(&ek1100), 0x46);
    }

    #[test]
    fn roundtrip() {
        let mut d = DeviceDescription {
            vendor_id: 2,
            product_id: 0x1234,
            revision: 7,
            serial: 9,
            alias: 0x55,
            ..Default::default()
        }
        .with_names("ORDER", "A long name", "Group");
        d.fmmu_usage = vec![1, 2, 3];
        d.sync_managers.push(SmDesc {
            start: 0x1000,
            length: 1,
            control: 0x44,
            status: 0,
            enable: 1,
            usage: 3,
        });
        d.tx_pdos.push(PdoDesc {
            index: 0x1A00,
            sm: 1,
            sync: 0,
            name_idx: 1,
            flags: 0,
            entries: vec![PdoEntryDesc {
                index: 0x6000,
                sub: 1,
                name_idx: 0,
                data_type: 1,
                bit_len: 1,
                flags: 0,
            }],
        });
        let img = encode(&d);
        assert_eq!(img.len(), 2048);
        let back = decode(&img);
        assert_eq!(back.strings, d.strings);
        assert_eq!(back.sync_managers, d.sync_managers);
        assert_eq!(back.tx_pdos, d.tx_pdos);
        // FMMU category was padded with 0xFF
        assert_eq!(back.fmmu_usage, vec![1, 2, 3, 0xFF]);
        assert_eq!(u16::from(crc8(&img[0..14])), get16(&img, 14));
    }
}
