//! `simnet`: a deterministic, in-process simulated EtherCAT segment.
//!
//! A [`Segment`] owns the devices in frame-processing (ring) order plus a tree topology and turns a
//! request Ethernet frame into the response frame the MainDevice would receive
//! ([`Segment::process`]).
//!
//! Modelled (ETG.1000.3/.4 as far as ethercrab exercises it):
//!
//! * Ethernet/EtherCAT framing, all datagram commands NOP..FRMW with their addressing modes and
//!   working counter rules, BRD data OR-ing, auto increment / broadcast address field increments.
//! * A 64 KiB address space per device. Registers with behaviour: ESC information, station
//!   address / alias, DL control (alias enable) / DL status (from topology), AL control / status /
//!   status code with a scripted state machine, SII/EEPROM interface, FMMUs, sync managers with
//!   mailbox semantics, distributed clocks. Everything else is plain memory.
//! * Logical addressing through FMMUs (byte copy fast path, bit granular slow path).
//! * Mailbox + CoE server, see [`crate::coe`].
//! * Distributed clock receive time latching from a propagation delay model of the tree, system
//!   time, offset, delay, system time difference, FRMW/ARMW distribution.
//! * Fault injection per datagram, absent devices, an event log.
//! * Instrumentation for harnesses: raw frame capture ([`Segment::capture`], [`parse_datagrams`]),
//!   true outbound arrival times of the propagation model ([`Segment::outbound_arrival_ns`]), and
//!   deliberately inconsistent devices: [`Device::dl_status_override`] (register 0x0110 reads a fixed
//!   value), [`Device::port_times_override`] (a latch stores fixed port receive times),
//!   [`Device::preset_system_time`] (the local clock jumps so that 0x0910 reads a given value).
//!
//! Simplifications / deviations (also see the comments at the respective code):
//!
//! * Register "existence" for the working counter: FMMU blocks >= `fmmu_count`, SM blocks >=
//!   `sm_count`, DC registers the device's [`DcKind`] lacks and process RAM beyond `ram_kb` do not
//!   exist (no working counter increment, reads leave the datagram untouched). Every other address
//!   exists. A read counts if at least one byte of it exists; a write counts if at least one byte
//!   is writable or a write trigger (0x0502/0x0503, 0x0900..0x0903, 0x0910..0x0917). Writes that
//!   only hit read-only registers (ESC information, DL/AL status, SM status bytes, 0x0918,
//!   0x092C, ...) are ignored without working counter, as the reference captures show.
//! * Sync managers in buffered (3-buffer) mode are plain memory; no buffer exchange, no watchdog,
//!   no output masking in SAFE-OP. Only mailbox mode sync managers have behaviour: a write must
//!   start at the first byte, is refused (no working counter) while the mailbox is full, completes
//!   when the last byte is written; a read is refused while empty and completes with the last byte.
//!   SM status: bit 3 (mailbox full) is exact; bit 0/1 (interrupt flags) are set like the devices
//!   in /repo/tests/replay-ek1914-el3004-configure.pcapng show them; other bits are 0.
//! * Device emulation (EEPROM word 0 bit 8, e.g. couplers and simple terminals): AL status mirrors
//!   AL control. Scripts still apply.
//! * AL state machine: transition validity, scripted delay / refusal / stall / fall back, mailbox
//!   SM check for INIT->PREOP/BOOT (status code 0x0016). No SM/FMMU length validation for
//!   PREOP->SAFEOP. The error indication is only cleared by the acknowledge bit.
//! * SII: one command at a time, busy for `busy_polls` status reads, address is a word address,
//!   reads beyond the image return 0xFF, `write_errors` answers write commands with the command
//!   error bit (bit 13), EEPROM owner PDI (0x0500 bit 0) makes commands fail with the command
//!   error bit. Checksum is not verified.
//! * DC: times are u64 nanoseconds with wrapping arithmetic; 32 bit devices expose the low 32
//!   bits. The control loop is a single step: a write of 0x0910 stores the difference in 0x092C
//!   (sign/magnitude) and corrects the local copy of the system time by `diff >> dc_filter_shift`
//!   (shift 0 = the reference value is copied). Writing 0x0920 resets that correction. SYNC/LATCH
//!   signal generation is not simulated (0x0980.. are plain, logged registers). A port whose link
//!   is down keeps its old receive time.
//! * The circulating frame bit, the IRQ field and Ethernet padding are left as received.
//! * An absent device (`present == false`) is a closed link: its whole sub tree is unreachable.

use crate::coe::{Mailbox, MbxDir};
use std::collections::BTreeMap;

pub const MEM_SIZE: usize = 0x1_0000;

/// Command codes.
pub mod cmd {
    pub const NOP: u8 = 0;
    pub const APRD: u8 = 1;
    pub const APWR: u8 = 2;
    pub const APRW: u8 = 3;
    pub const FPRD: u8 = 4;
    pub const FPWR: u8 = 5;
    pub const FPRW: u8 = 6;
    pub const BRD: u8 = 7;
    pub const BWR: u8 = 8;
    pub const BRW: u8 = 9;
    pub const LRD: u8 = 10;
    pub const LWR: u8 = 11;
    pub const LRW: u8 = 12;
    pub const ARMW: u8 = 13;
    pub const FRMW: u8 = 14;

    pub fn name(c: u8) -> &'static str {
        match c {
            NOP => "NOP",
            APRD => "APRD",
            APWR => "APWR",
            APRW => "APRW",
            FPRD => "FPRD",
            FPWR => "FPWR",
            FPRW => "FPRW",
            BRD => "BRD",
            BWR => "BWR",
            BRW => "BRW",
            LRD => "LRD",
            LWR => "LWR",
            LRW => "LRW",
            ARMW => "ARMW",
            FRMW => "FRMW",
            _ => "?",
        }
    }
}

/// Register addresses used by the simulator.
pub mod reg {
    pub const TYPE: u16 = 0x0000;
    pub const REVISION: u16 = 0x0001;
    pub const BUILD: u16 = 0x0002;
    pub const FMMU_COUNT: u16 = 0x0004;
    pub const SM_COUNT: u16 = 0x0005;
    pub const RAM_SIZE: u16 = 0x0006;
    pub const PORT_DESCRIPTOR: u16 = 0x0007;
    pub const FEATURES: u16 = 0x0008;
    pub const STATION_ADDRESS: u16 = 0x0010;
    pub const STATION_ALIAS: u16 = 0x0012;
    pub const DL_CONTROL: u16 = 0x0100;
    pub const DL_STATUS: u16 = 0x0110;
    pub const AL_CONTROL: u16 = 0x0120;
    pub const AL_STATUS: u16 = 0x0130;
    pub const AL_STATUS_CODE: u16 = 0x0134;
    pub const WD_DIVIDER: u16 = 0x0400;
    pub const WD_PDI: u16 = 0x0410;
    pub const WD_SM: u16 = 0x0420;
    pub const WD_STATUS: u16 = 0x0440;
    pub const SII_CONFIG: u16 = 0x0500;
    pub const SII_CONTROL: u16 = 0x0502;
    pub const SII_ADDRESS: u16 = 0x0504;
    pub const SII_DATA: u16 = 0x0508;
    pub const FMMU0: u16 = 0x0600;
    pub const SM0: u16 = 0x0800;
    pub const DC_PORT0: u16 = 0x0900;
    pub const DC_SYSTEM_TIME: u16 = 0x0910;
    pub const DC_RECEIVE_TIME: u16 = 0x0918;
    pub const DC_OFFSET: u16 = 0x0920;
    pub const DC_DELAY: u16 = 0x0928;
    pub const DC_DIFF: u16 = 0x092C;
    pub const DC_LOOP1: u16 = 0x0930;
    pub const DC_CYCLIC_CONTROL: u16 = 0x0980;
    pub const DC_SYNC_ACTIVATION: u16 = 0x0981;
    pub const DC_START_TIME: u16 = 0x0990;
    pub const DC_SYNC0_CYCLE: u16 = 0x09A0;
    pub const DC_SYNC1_CYCLE: u16 = 0x09A4;
}

/// AL states.
pub mod al {
    pub const INIT: u8 = 1;
    pub const PREOP: u8 = 2;
    pub const BOOT: u8 = 3;
    pub const SAFEOP: u8 = 4;
    pub const OP: u8 = 8;
}

/// Distributed clock capability of a device.
#[derive(Debug, Clone, Copy, PartialEq, Eq)]
pub enum DcKind {
    /// No DC unit at all: 0x0900..0x09FF do not exist.
    None,
    /// Only port receive times 0x0900..0x090F (like the EK1914/EL3004 in the reference capture).
    ReceiveTimesOnly,
    /// Full DC with 32 bit system time.
    Bits32,
    /// Full DC with 64 bit system time.
    Bits64,
}

impl DcKind {
    pub fn has_receive_times(self) -> bool {
        self != DcKind::None
    }
    pub fn has_system_time(self) -> bool {
        matches!(self, DcKind::Bits32 | DcKind::Bits64)
    }
}

/// Scripted behaviour of the AL state machine for one requested state (or all of them).
#[derive(Debug, Clone, Copy, PartialEq, Eq, Default)]
pub struct AlScript {
    /// The new state becomes visible after this many reads of AL status (0 = immediately).
    pub accept_after_polls: u32,
    /// Refuse with this AL status code: state is kept, error indication set.
    pub refuse_with: Option<u16>,
    /// Never react to the request.
    pub stall: bool,
    /// After the state has been reached: after `.0` further AL status reads fall back to state
    /// `.1` with the error indication and status code 0x001B (sync manager watchdog).
    pub fall_back: Option<(u32, u8)>,
    /// Take the request (the state is entered at once) and never answer a read of AL status again.
    pub silent: bool,
}

/// Static ESC identification.
#[derive(Debug, Clone, Copy, PartialEq, Eq)]
pub struct EscInfo {
    pub esc_type: u8,
    pub revision: u8,
    pub build: u16,
    pub fmmu_count: u8,
    pub sm_count: u8,
    pub ram_kb: u8,
    pub port_descriptor: u8,
    /// Register 0x0008. DC bits (2: DC supported, 3: 64 bit) are overwritten from `DcKind` by
    /// [`Device::new`]; bit 8 (enhanced DC sync activation) is taken as given.
    pub features: u16,
}

impl Default for EscInfo {
    fn default() -> Self {
        Self {
            esc_type: 0x11,
            revision: 0,
            build: 0,
            fmmu_count: 8,
            sm_count: 8,
            ram_kb: 8,
            port_descriptor: 0x0F,
            features: 0x01F0,
        }
    }
}

#[derive(Debug, Clone, Default)]
struct SiiState {
    busy_left: u32,
    cmd_bits: u8,
    err_bits: u8,
    write_enable: bool,
}

/// One simulated EtherCAT device (ESC + optional mailbox application).
pub struct Device {
    pub label: String,
    /// `false`: behaves like an unplugged cable at the parent's port.
    pub present: bool,
    /// Register and process data memory.
    pub mem: Vec<u8>,
    pub eeprom: Vec<u8>,
    pub info: EscInfo,
    pub dc_kind: DcKind,
    /// `local clock = sim time + clock_offset_ns (+ drift)`.
    pub clock_offset_ns: u64,
    /// Drift of the local clock in parts per billion of simulated time.
    pub clock_drift_ppb: i64,
    /// Processing/forwarding delay of this device per pass.
    pub fwd_delay_ns: u64,
    /// See module documentation.
    pub dc_filter_shift: u32,

    pub al_state: u8,
    pub al_error: bool,
    pub al_status_code: u16,
    /// Default script.
    pub al_script: AlScript,
    /// Script override per requested state.
    pub al_script_for: BTreeMap<u8, AlScript>,
    /// INIT->PREOP needs configured mailbox sync managers when a mailbox exists.
    pub al_check_mailbox: bool,
    /// The mailbox layout the device insists on (receive offset, receive size, send offset, send
    /// size): sync managers that differ are refused with status code 0x0016 on INIT -> PRE-OP.
    pub mailbox_expect: Option<[u16; 4]>,
    /// ESC "device emulation" (no application controller, PDI control bit 8 = EEPROM word 0 bit 8):
    /// AL status mirrors AL control, including the acknowledge bit which then reads back as the
    /// error indication, and any state value is accepted. Loaded from the EEPROM at power on.
    pub al_emulation: bool,
    /// Bits 0..3 of DL status (PDI operational, watchdog status, enhanced link detection).
    pub dl_status_base: u16,
    /// If set, register 0x0110 reads exactly this value (whatever the topology says). Used to feed
    /// inconsistent link information to the MainDevice.
    pub dl_status_override: Option<u16>,
    /// If set, a receive time latch stores exactly these values in 0x0900/0x0904/0x0908/0x090C
    /// (all four ports, open or not) instead of the times from the propagation model.
    pub port_times_override: Option<[u32; 4]>,
    al_pending: Option<(u8, u32)>,
    al_fallback: Option<(u32, u8)>,
    /// Every read of AL status: (global sequence number, the byte at 0x0130 the read returned).
    pub al_read_log: Vec<(u64, u8)>,
    /// Reads touching AL status are not acknowledged (see `AlScript::silent`).
    pub al_silent: bool,

    /// SII read command returns 8 bytes (else 4).
    pub sii_read_8: bool,
    /// Status reads that report busy after each command.
    pub sii_busy_polls: u32,
    /// The next `k` write commands fail with the command error bit and store nothing.
    pub sii_write_errors: u32,
    /// After every stored word the following `k` write commands fail with the command error bit
    /// (the EEPROM's internal write cycle; a real EK1100 refuses 3 back-to-back attempts, see
    /// /repo/tests/replay-ek1100-alias-address.pcapng).
    pub sii_errors_after_write: u32,
    /// Error bits (bits 3..6 of 0x0503 as a mask 0x78) that are always reported.
    pub sii_sticky_error_bits: u8,
    /// Extra bits OR-ed into the low status byte 0x0502 (a real EL3004 reports the reserved bit 4).
    pub sii_status_lo_extra: u8,
    sii: SiiState,

    pub mailbox: Option<Mailbox>,

    /// Link state of the 4 ports, refreshed by the segment for every frame.
    pub ports_open: [bool; 4],
    dc_sys_adjust: u64,
    mbx_event_cursor: usize,
}

impl std::fmt::Debug for Device {
    fn fmt(&self, f: &mut std::fmt::Formatter<'_>) -> std::fmt::Result {
        f.debug_struct("Device")
            .field("label", &self.label)
            .field("present", &self.present)
            .field("al_state", &self.al_state)
            .field("station_address", &self.station_address())
            .finish()
    }
}

fn overlaps(ado: u16, len: usize, start: u16, size: usize) -> bool {
    let a0 = usize::from(ado);
    let a1 = a0 + len;
    let b0 = usize::from(start);
    let b1 = b0 + size;
    a0 < b1 && b0 < a1
}

static AL_READ_SEQ: std::sync::atomic::AtomicU64 = std::sync::atomic::AtomicU64::new(0);

/// The sequence number the next AL status read (of any device) gets.
pub fn al_read_seq() -> u64 {
    AL_READ_SEQ.load(std::sync::atomic::Ordering::Relaxed)
}

/// Context of one datagram at one device.
#[derive(Debug, Clone, Copy)]
struct Ctx {
    device: usize,
    /// Sim time at which the frame reaches port 0 of this device.
    arrival_ns: u64,
    /// Sim time at which the frame (re-)enters through each port.
    port_rx_ns: [u64; 4],
}

impl Device {
    /// A powered-up device in INIT with the given EEPROM image.
    pub fn new(label: &str, eeprom: Vec<u8>, info: EscInfo, dc_kind: DcKind) -> Self {
        let mut d = Self {
            label: label.to_string(),
            present: true,
            mem: vec![0; MEM_SIZE],
            eeprom,
            info,
            dc_kind,
            clock_offset_ns: 0,
            clock_drift_ppb: 0,
            fwd_delay_ns: 0,
            dc_filter_shift: 0,
            al_state: al::INIT,
            al_error: false,
            al_status_code: 0,
            al_script: AlScript::default(),
            al_script_for: BTreeMap::new(),
            al_check_mailbox: true,
            mailbox_expect: None,
            al_emulation: false,
            dl_status_base: 0x0003,
            dl_status_override: None,
            port_times_override: None,
            al_pending: None,
            al_fallback: None,
            al_read_log: Vec::new(),
            al_silent: false,
            sii_read_8: false,
            sii_busy_polls: 0,
            sii_write_errors: 0,
            sii_errors_after_write: 0,
            sii_sticky_error_bits: 0,
            sii_status_lo_extra: 0,
            sii: SiiState::default(),
            mailbox: None,
            ports_open: [true, false, false, false],
            dc_sys_adjust: 0,
            mbx_event_cursor: 0,
        };
        d.power_on();
        d
    }

    /// (Re-)initialise registers as after power on. Memory is cleared.
    pub fn power_on(&mut self) {
        self.mem.iter_mut().for_each(|b| *b = 0);
        // DC capability bits follow `dc_kind` (bit 2: DC supported, bit 3: 64 bit); everything else,
        // including bit 8 (enhanced DC sync activation), is taken from the description: a real
        // EK1100 has the full 64 bit DC unit but reports 0x00FC, a real EL2828 reports 0x01FC
        // although only its receive time registers answer.
        let original = self.info.features;
        let mut features = original & !0x000C;
        match self.dc_kind {
            DcKind::None => {}
            DcKind::ReceiveTimesOnly => features |= 0x0004 | (original & 0x0008),
            DcKind::Bits32 => features |= 0x0004,
            DcKind::Bits64 => features |= 0x000C,
        }
        self.info.features = features;
        self.mem[0] = self.info.esc_type;
        self.mem[1] = self.info.revision;
        self.mem[2..4].copy_from_slice(&self.info.build.to_le_bytes());
        self.mem[4] = self.info.fmmu_count;
        self.mem[5] = self.info.sm_count;
        self.mem[6] = self.info.ram_kb;
        self.mem[7] = self.info.port_descriptor;
        self.mem[8..10].copy_from_slice(&features.to_le_bytes());
        // Station alias from EEPROM word 4
        let alias = [
            *self.eeprom.get(8).unwrap_or(&0),
            *self.eeprom.get(9).unwrap_or(&0),
        ];
        self.mem[0x12..0x14].copy_from_slice(&alias);
        // PDI control / ESC configuration from EEPROM word 0
        let w0 = [
            *self.eeprom.first().unwrap_or(&0),
            *self.eeprom.get(1).unwrap_or(&0),
        ];
        self.mem[0x140..0x142].copy_from_slice(&w0);
        self.al_emulation = w0[1] & 0x01 != 0;
        // DL control: forwarding rule bit
        self.mem[0x100] = 0x01;
        // Watchdog defaults
        self.mem[0x400..0x402].copy_from_slice(&0x09C2u16.to_le_bytes());
        self.mem[0x410..0x412].copy_from_slice(&0x03E8u16.to_le_bytes());
        self.mem[0x420..0x422].copy_from_slice(&0x03E8u16.to_le_bytes());
        self.mem[0x440] = 0x01;
        self.al_state = al::INIT;
        self.al_error = false;
        self.al_status_code = 0;
        self.al_pending = None;
        self.al_fallback = None;
        self.sii = SiiState::default();
        self.dc_sys_adjust = 0;
        if let Some(mb) = self.mailbox.as_mut() {
            mb.out_queue.clear();
            mb.out_full = false;
            mb.in_full_polls_left = 0;
        }
    }

    // ---- accessors ---------------------------------------------------------------------------

    pub fn station_address(&self) -> u16 {
        self.reg_u16(reg::STATION_ADDRESS)
    }

    pub fn station_alias(&self) -> u16 {
        self.reg_u16(reg::STATION_ALIAS)
    }

    pub fn reg_u8(&self, addr: u16) -> u8 {
        self.mem[usize::from(addr)]
    }

    pub fn reg_u16(&self, addr: u16) -> u16 {
        let a = usize::from(addr);
        u16::from_le_bytes([self.mem[a], self.mem[(a + 1) & 0xFFFF]])
    }

    pub fn reg_u32(&self, addr: u16) -> u32 {
        u32::from(self.reg_u16(addr)) | (u32::from(self.reg_u16(addr.wrapping_add(2))) << 16)
    }

    pub fn reg_u64(&self, addr: u16) -> u64 {
        u64::from(self.reg_u32(addr)) | (u64::from(self.reg_u32(addr.wrapping_add(4))) << 32)
    }

    /// Direct memory read (no side effects).
    pub fn mem_read(&self, addr: u16, len: usize) -> &[u8] {
        let a = usize::from(addr);
        &self.mem[a..(a + len).min(MEM_SIZE)]
    }

    /// Direct memory write (no side effects), e.g. to set input process data.
    pub fn mem_write(&mut self, addr: u16, data: &[u8]) {
        let a = usize::from(addr);
        let n = data.len().min(MEM_SIZE - a);
        self.mem[a..a + n].copy_from_slice(&data[..n]);
    }

    pub fn eeprom_word(&self, word: usize) -> u16 {
        u16::from_le_bytes([
            *self.eeprom.get(word * 2).unwrap_or(&0xFF),
            *self.eeprom.get(word * 2 + 1).unwrap_or(&0xFF),
        ])
    }

    /// Raw 16 bytes of FMMU `i`.
    pub fn fmmu_raw(&self, i: usize) -> [u8; 16] {
        let a = usize::from(reg::FMMU0) + 16 * i;
        self.mem[a..a + 16].try_into().unwrap()
    }

    /// Raw 8 bytes of sync manager `i` (status byte as stored, not refreshed).
    pub fn sm_raw(&self, i: usize) -> [u8; 8] {
        let a = usize::from(reg::SM0) + 8 * i;
        self.mem[a..a + 8].try_into().unwrap()
    }

    pub fn mailbox_mut(&mut self) -> &mut Mailbox {
        self.mailbox.as_mut().expect("device has no mailbox")
    }

    /// Local clock value at simulated time `sim_ns`.
    pub fn local_time(&self, sim_ns: u64) -> u64 {
        let drift = (i128::from(sim_ns) * i128::from(self.clock_drift_ppb) / 1_000_000_000) as i64;
        sim_ns
            .wrapping_add(self.clock_offset_ns)
            .wrapping_add(drift as u64)
    }

    /// DC system time of this device at simulated time `sim_ns`.
    pub fn system_time(&self, sim_ns: u64) -> u64 {
        let t = self
            .local_time(sim_ns)
            .wrapping_add(self.dc_offset())
            .wrapping_add(self.dc_sys_adjust);
        if self.dc_kind == DcKind::Bits32 { t & 0xFFFF_FFFF } else { t }
    }

    /// Shift the local clock so that the DC system time (register 0x0910) reads `value` at
    /// simulated time `sim_ns`. Offset register, control loop state and drift are left alone; the
    /// whole local clock (and therefore later receive time latches) jumps.
    pub fn preset_system_time(&mut self, sim_ns: u64, value: u64) {
        let current = self
            .local_time(sim_ns)
            .wrapping_add(self.dc_offset())
            .wrapping_add(self.dc_sys_adjust);
        self.clock_offset_ns = self.clock_offset_ns.wrapping_add(value.wrapping_sub(current));
    }

    fn dc_offset(&self) -> u64 {
        if self.dc_kind == DcKind::Bits32 {
            // sign extension keeps 32 bit arithmetic consistent after masking
            u64::from(self.reg_u32(reg::DC_OFFSET))
        } else {
            self.reg_u64(reg::DC_OFFSET)
        }
    }

    // ---- address space ------------------------------------------------------------------------

    fn exists(&self, addr: usize) -> bool {
        match addr {
            0x0600..=0x06FF => (addr - 0x0600) / 16 < usize::from(self.info.fmmu_count),
            0x0800..=0x087F => (addr - 0x0800) / 8 < usize::from(self.info.sm_count),
            0x0900..=0x090F => self.dc_kind.has_receive_times(),
            0x0910..=0x09FF => self.dc_kind.has_system_time(),
            0x1000..=0xFFFF => addr < 0x1000 + usize::from(self.info.ram_kb) * 1024,
            _ => true,
        }
    }

    fn any_exists(&self, ado: u16, len: usize) -> bool {
        let a = usize::from(ado);
        // Regions are coarse; checking the first and last byte plus region starts is enough, but a
        // plain loop is simple and the lengths are small.
        (a..(a + len).min(MEM_SIZE)).any(|x| self.exists(x))
    }

    /// Mailbox sync manager lookup: `(sm index, start, length)` of the first enabled SM in mailbox
    /// mode with the given direction (1 = MainDevice writes, 0 = MainDevice reads).
    fn mailbox_sm(&self, direction: u8) -> Option<(usize, u16, u16)> {
        self.mailbox.as_ref()?;
        for i in 0..usize::from(self.info.sm_count).min(16) {
            let r = self.sm_raw(i);
            let start = u16::from_le_bytes([r[0], r[1]]);
            let len = u16::from_le_bytes([r[2], r[3]]);
            let mode = r[4] & 0x03;
            let dir = (r[4] >> 2) & 0x03;
            let active = r[6] & 0x01 != 0;
            // An area running over the end of the address space is clamped.
            let len = usize::from(len).min(MEM_SIZE - usize::from(start)) as u16;
            if mode == 2 && dir == direction && active && len > 0 {
                return Some((i, start, len));
            }
        }
        None
    }

    /// Refresh computed registers overlapping a read, with poll side effects.
    fn refresh_for_read(&mut self, ado: u16, len: usize, ctx: &Ctx) {
        if overlaps(ado, len, reg::DL_STATUS, 2) {
            let mut v: u16 = self.dl_status_base & 0x000F;
            for p in 0..4 {
                if self.ports_open[p] {
                    v |= 1 << (4 + p);
                    v |= 1 << (9 + 2 * p); // communication established
                } else {
                    v |= 1 << (8 + 2 * p); // loop closed
                }
            }
            let v = self.dl_status_override.unwrap_or(v);
            self.mem[0x110..0x112].copy_from_slice(&v.to_le_bytes());
        }
        if overlaps(ado, len, reg::AL_STATUS, 1) {
            self.al_poll();
        }
        if overlaps(ado, len, reg::AL_STATUS, 2) {
            self.mem[0x130] = (self.al_state & 0x0F) | if self.al_error { 0x10 } else { 0 };
            self.mem[0x131] = 0;
        }
        if overlaps(ado, len, reg::AL_STATUS, 1) {
            self.al_read_log.push((AL_READ_SEQ.fetch_add(1, std::sync::atomic::Ordering::Relaxed), self.mem[0x130]));
        }
        if overlaps(ado, len, reg::AL_STATUS_CODE, 2) {
            let c = self.al_status_code.to_le_bytes();
            self.mem[0x134..0x136].copy_from_slice(&c);
        }
        if overlaps(ado, len, reg::SII_CONTROL, 2) {
            let mut lo = self.sii_status_lo_extra;
            if self.sii.write_enable {
                lo |= 0x01;
            }
            if self.sii_read_8 {
                lo |= 0x40;
            }
            if self.eeprom.len() > 2048 {
                lo |= 0x80;
            }
            let mut hi = self.sii.err_bits | (self.sii_sticky_error_bits & 0x78);
            if self.sii.busy_left > 0 {
                hi |= 0x80 | self.sii.cmd_bits;
                if overlaps(ado, len, reg::SII_CONTROL + 1, 1) {
                    self.sii.busy_left -= 1;
                }
            }
            self.mem[0x502] = lo;
            self.mem[0x503] = hi;
        }
        if overlaps(ado, len, reg::SM0, 128) && self.mailbox.is_some() {
            self.refresh_mailbox_status(ado, len);
        }
        if self.dc_kind.has_system_time() && overlaps(ado, len, reg::DC_SYSTEM_TIME, 8) {
            let t = self.system_time(ctx.arrival_ns);
            self.mem[0x910..0x918].copy_from_slice(&t.to_le_bytes());
        }
    }

    fn refresh_mailbox_status(&mut self, ado: u16, len: usize) {
        let wr = self.mailbox_sm(1);
        let rd = self.mailbox_sm(0);
        // Write mailbox (MainDevice -> device)
        if let Some((i, _, _)) = wr {
            let a = reg::SM0 + 8 * i as u16 + 5;
            let polled = overlaps(ado, len, a, 1);
            let mb = self.mailbox.as_mut().unwrap();
            let status = if mb.in_full_polls_left > 0 {
                if polled {
                    mb.in_full_polls_left -= 1;
                }
                0x09
            } else if mb.in_was_consumed {
                0x02
            } else {
                0x00
            };
            self.mem[usize::from(a)] = status;
        }
        // Read mailbox (device -> MainDevice)
        if let Some((i, start, mlen)) = rd {
            let a = reg::SM0 + 8 * i as u16 + 5;
            let polled = overlaps(ado, len, a, 1);
            let mut load: Option<Vec<u8>> = None;
            {
                let mb = self.mailbox.as_mut().unwrap();
                if !mb.out_full && !mb.out_queue.is_empty() {
                    if mb.out_delay_left > 0 {
                        if polled {
                            mb.out_delay_left -= 1;
                        }
                    } else {
                        load = mb.out_queue.pop_front();
                        if mb.scripted_endless && mb.out_queue.is_empty() {
                            if let Some(last) = mb.scripted_last.clone() {
                                mb.out_queue.push_back(last);
                            }
                        }
                    }
                }
            }
            if let Some(msg) = load {
                self.load_read_mailbox(start, mlen, msg);
            }
            let mb = self.mailbox.as_ref().unwrap();
            let status = if mb.out_full {
                0x09
            } else if mb.out_was_read {
                0x80
            } else {
                0x00
            };
            self.mem[usize::from(a)] = status;
        }
    }

    fn load_read_mailbox(&mut self, start: u16, mlen: u16, msg: Vec<u8>) {
        let s = usize::from(start);
        let l = usize::from(mlen).min(MEM_SIZE - s);
        let mb = self.mailbox.as_mut().unwrap();
        let fill = mb.fill_byte;
        mb.log.push((MbxDir::Out, msg.clone()));
        mb.out_full = true;
        for b in &mut self.mem[s..s + l] {
            *b = fill;
        }
        let n = msg.len().min(l);
        self.mem[s..s + n].copy_from_slice(&msg[..n]);
    }

    /// Turn new entries of the mailbox log into segment events.
    fn collect_mailbox_events(&mut self, device: usize, events: &mut Vec<SimEvent>) {
        let Some(mb) = self.mailbox.as_ref() else { return };
        if self.mbx_event_cursor > mb.log.len() {
            self.mbx_event_cursor = mb.log.len();
        }
        for (dir, m) in &mb.log[self.mbx_event_cursor..] {
            events.push(match dir {
                MbxDir::In => SimEvent::MailboxIn {
                    device,
                    data: m.clone(),
                },
                MbxDir::Out => SimEvent::MailboxOut {
                    device,
                    data: m.clone(),
                },
            });
        }
        self.mbx_event_cursor = mb.log.len();
    }

    /// If a reply is waiting and there is no delay configured, place it into the read mailbox.
    fn pump_mailbox(&mut self) {
        let Some((_, start, mlen)) = self.mailbox_sm(0) else {
            return;
        };
        let mb = self.mailbox.as_mut().unwrap();
        if !mb.out_full && mb.out_delay_left == 0 {
            if let Some(msg) = mb.out_queue.pop_front() {
                if mb.scripted_endless && mb.out_queue.is_empty() {
                    if let Some(last) = mb.scripted_last.clone() {
                        mb.out_queue.push_back(last);
                    }
                }
                self.load_read_mailbox(start, mlen, msg);
            }
        }
    }

    /// Read `len` bytes at `ado` into `buf` (OR-ing for BRD). Returns `true` if the device
    /// acknowledges the access.
    fn read(&mut self, ado: u16, buf: &mut [u8], or: bool, ctx: &Ctx, events: &mut Vec<SimEvent>) -> bool {
        let len = buf.len();
        if !self.any_exists(ado, len) {
            return false;
        }
        if self.al_silent && overlaps(ado, len, reg::AL_STATUS, 2) {
            return false;
        }
        // Read mailbox semantics
        if ado >= 0x1000 {
            if let Some((_, start, mlen)) = self.mailbox_sm(0) {
                if overlaps(ado, len, start, usize::from(mlen)) {
                    self.pump_mailbox();
                    let full = self.mailbox.as_ref().unwrap().out_full;
                    if !full || ado != start {
                        return false;
                    }
                    let a = usize::from(ado);
                    let n = len.min(MEM_SIZE - a);
                    copy_or(&mut buf[..n], &self.mem[a..a + n], or);
                    let last = usize::from(start) + usize::from(mlen) - 1;
                    if a + n > last {
                        let mb = self.mailbox.as_mut().unwrap();
                        mb.out_full = false;
                        mb.out_was_read = true;
                        mb.out_delay_left = mb.response_delay_polls;
                        events.push(SimEvent::MailboxRead { device: ctx.device });
                        self.pump_mailbox();
                    }
                    self.collect_mailbox_events(ctx.device, events);
                    return true;
                }
            }
        }
        self.refresh_for_read(ado, len, ctx);
        if self.mailbox.is_some() {
            self.collect_mailbox_events(ctx.device, events);
        }
        let a = usize::from(ado);
        for (i, b) in buf.iter_mut().enumerate() {
            let x = a + i;
            if x < MEM_SIZE && self.exists(x) {
                if or {
                    *b |= self.mem[x];
                } else {
                    *b = self.mem[x];
                }
            }
        }
        true
    }

    fn writable(&self, addr: usize) -> bool {
        match addr {
            0x0000..=0x000F => false,
            0x0110..=0x0111 => false,
            0x0130..=0x0135 => false,
            0x0140..=0x0141 => false,
            0x0502..=0x0503 => false, // handled by the SII logic
            0x0800..=0x087F => (addr - 0x0800) % 8 != 5,
            0x0900..=0x091F => false, // latch trigger / system time write / receive time
            0x092C..=0x092F => false,
            _ => true,
        }
    }

    /// A write to this address counts for the working counter: the byte exists and is either
    /// writable or a write trigger (SII control, DC latch, DC system time). Writes that only touch
    /// read-only registers are not acknowledged (a real EK1100 answers a BWR to 0x092C with working
    /// counter 0).
    fn write_counts(&self, addr: usize) -> bool {
        self.exists(addr)
            && (self.writable(addr) || matches!(addr, 0x0502..=0x0503 | 0x0900..=0x0903 | 0x0910..=0x0917))
    }

    /// Write `data` at `ado`. Returns `true` if the device acknowledges the access.
    fn write(&mut self, ado: u16, data: &[u8], ctx: &Ctx, events: &mut Vec<SimEvent>) -> bool {
        let len = data.len();
        let a = usize::from(ado);
        if !(a..(a + len).min(MEM_SIZE)).any(|x| self.write_counts(x)) {
            return false;
        }

        // Write mailbox semantics
        if ado >= 0x1000 {
            if let Some((_, start, mlen)) = self.mailbox_sm(1) {
                if overlaps(ado, len, start, usize::from(mlen)) {
                    let full = self.mailbox.as_ref().unwrap().in_full_polls_left > 0;
                    if full || ado != start {
                        return false;
                    }
                    let n = len.min(MEM_SIZE - a);
                    self.mem[a..a + n].copy_from_slice(&data[..n]);
                    let last = usize::from(start) + usize::from(mlen) - 1;
                    if a + n > last {
                        let raw = self.mem[usize::from(start)..=last].to_vec();
                        let capacity = self.mailbox_sm(0).map(|(_, _, l)| usize::from(l)).unwrap_or(usize::from(mlen));
                        let mb = self.mailbox.as_mut().unwrap();
                        mb.in_full_polls_left = mb.consume_delay_polls;
                        mb.in_was_consumed = true;
                        if mb.out_queue.is_empty() && !mb.out_full {
                            mb.out_delay_left = mb.response_delay_polls;
                        }
                        if raw.len() >= 6 {
                            mb.request_received(&raw, capacity);
                        }
                        self.pump_mailbox();
                        self.collect_mailbox_events(ctx.device, events);
                    }
                    return true;
                }
            }
        }

        for (i, &b) in data.iter().enumerate() {
            let x = a + i;
            if x < MEM_SIZE && self.exists(x) && self.writable(x) {
                self.mem[x] = b;
            }
        }

        if overlaps(ado, len, reg::STATION_ADDRESS, 2) {
            events.push(SimEvent::StationAddress {
                device: ctx.device,
                address: self.station_address(),
            });
        }
        if overlaps(ado, len, reg::AL_CONTROL, 1) {
            self.al_control_written(ctx, events);
        }
        if overlaps(ado, len, reg::SII_CONTROL, 2) {
            let lo = byte_of(ado, data, reg::SII_CONTROL);
            let hi = byte_of(ado, data, reg::SII_CONTROL + 1);
            self.sii_control_written(lo, hi, ctx, events);
        }
        if overlaps(ado, len, reg::FMMU0, 256) {
            for i in 0..usize::from(self.info.fmmu_count).min(16) {
                if overlaps(ado, len, reg::FMMU0 + 16 * i as u16, 16) {
                    events.push(SimEvent::FmmuWrite {
                        device: ctx.device,
                        index: i as u8,
                        raw: self.fmmu_raw(i),
                    });
                }
            }
        }
        if overlaps(ado, len, reg::SM0, 128) {
            for i in 0..usize::from(self.info.sm_count).min(16) {
                if overlaps(ado, len, reg::SM0 + 8 * i as u16, 8) {
                    events.push(SimEvent::SmWrite {
                        device: ctx.device,
                        index: i as u8,
                        raw: self.sm_raw(i),
                    });
                    // Reconfiguring a mailbox SM empties it.
                    if let Some(mb) = self.mailbox.as_mut() {
                        let r = self.mem[usize::from(reg::SM0) + 8 * i + 6];
                        if r & 1 == 0 {
                            mb.out_full = false;
                            mb.in_full_polls_left = 0;
                            mb.out_was_read = false;
                            mb.in_was_consumed = false;
                        }
                    }
                }
            }
        }
        if self.dc_kind.has_receive_times() && overlaps(ado, len, reg::DC_PORT0, 4) {
            self.dc_latch(ctx);
            events.push(SimEvent::DcLatch {
                device: ctx.device,
                port_times: [
                    self.reg_u32(0x900),
                    self.reg_u32(0x904),
                    self.reg_u32(0x908),
                    self.reg_u32(0x90C),
                ],
                receive_time: self.reg_u64(reg::DC_RECEIVE_TIME),
            });
        }
        if self.dc_kind.has_system_time() {
            if overlaps(ado, len, reg::DC_SYSTEM_TIME, 8) {
                self.dc_system_time_written(ado, data, ctx);
            }
            if overlaps(ado, len, reg::DC_OFFSET, 8) {
                self.dc_sys_adjust = 0;
            }
            for (r, size) in [
                (reg::DC_OFFSET, 8usize),
                (reg::DC_DELAY, 4),
                (reg::DC_CYCLIC_CONTROL, 2),
                (reg::DC_START_TIME, 8),
                (reg::DC_SYNC0_CYCLE, 4),
                (reg::DC_SYNC1_CYCLE, 4),
            ] {
                if overlaps(ado, len, r, size) {
                    events.push(SimEvent::DcWrite {
                        device: ctx.device,
                        ado,
                        data: data.to_vec(),
                    });
                    break;
                }
            }
        }
        true
    }

    // ---- AL ------------------------------------------------------------------------------------

    fn script_for(&self, requested: u8) -> AlScript {
        *self.al_script_for.get(&requested).unwrap_or(&self.al_script)
    }

    fn al_control_written(&mut self, ctx: &Ctx, events: &mut Vec<SimEvent>) {
        let v = self.mem[0x120];
        let req = v & 0x0F;
        let ack = v & 0x10 != 0;
        if ack {
            self.al_error = false;
            self.al_status_code = 0;
        }
        let script = self.script_for(req);
        let cur = self.al_state;

        let outcome = (|| {
            if script.stall {
                return AlOutcome::Stalled;
            }
            if self.al_emulation {
                return match script.refuse_with {
                    Some(code) => AlOutcome::Refused(code),
                    None => AlOutcome::Accepted,
                };
            }
            if !matches!(req, al::INIT | al::PREOP | al::BOOT | al::SAFEOP | al::OP) {
                return AlOutcome::Refused(0x0012);
            }
            let valid = match (cur, req) {
                (c, r) if c == r => true,
                (_, al::INIT) => true,
                (al::INIT, al::PREOP) | (al::INIT, al::BOOT) => true,
                (al::PREOP, al::SAFEOP) => true,
                (al::SAFEOP, al::OP) | (al::SAFEOP, al::PREOP) => true,
                (al::OP, al::SAFEOP) | (al::OP, al::PREOP) => true,
                _ => false,
            };
            if !valid {
                return AlOutcome::Refused(0x0011);
            }
            if let Some(code) = script.refuse_with {
                return AlOutcome::Refused(code);
            }
            if cur == al::INIT
                && matches!(req, al::PREOP | al::BOOT)
                && self.al_check_mailbox
                && self.mailbox.is_some()
                && (self.mailbox_sm(1).is_none() || self.mailbox_sm(0).is_none())
            {
                return AlOutcome::Refused(0x0016);
            }
            if cur == al::INIT && matches!(req, al::PREOP | al::BOOT) && self.al_check_mailbox && self.mailbox.is_some() {
                if let Some([ro, rs, so, ss]) = self.mailbox_expect {
                    let recv = self.mailbox_sm(1).map(|(_, start, len)| (start, len));
                    let send = self.mailbox_sm(0).map(|(_, start, len)| (start, len));
                    if recv != Some((ro, rs)) || send != Some((so, ss)) {
                        return AlOutcome::Refused(0x0016);
                    }
                }
            }
            AlOutcome::Accepted
        })();

        match outcome {
            AlOutcome::Stalled => {}
            AlOutcome::Refused(code) => {
                self.al_pending = None;
                self.al_error = true;
                self.al_status_code = code;
            }
            AlOutcome::Accepted => {
                if script.silent {
                    self.al_silent = true;
                }
                if self.al_emulation {
                    // status mirrors control
                    self.al_error = ack;
                }
                if script.accept_after_polls == 0 {
                    self.al_apply(req);
                } else {
                    self.al_pending = Some((req, script.accept_after_polls));
                }
            }
        }

        events.push(SimEvent::AlControl {
            device: ctx.device,
            requested: req,
            ack,
            state: self.al_state,
            error: self.al_error,
            status_code: self.al_status_code,
        });
    }

    fn al_apply(&mut self, target: u8) {
        self.al_pending = None;
        let changed = self.al_state != target;
        self.al_state = target;
        self.al_fallback = if changed { self.script_for(target).fall_back } else { self.al_fallback };
    }

    /// One read of AL status.
    fn al_poll(&mut self) {
        if let Some((target, left)) = self.al_pending {
            // `accept_after_polls = k`: k reads still show the old state, read k+1 the new one.
            if left == 0 {
                self.al_apply(target);
            } else {
                self.al_pending = Some((target, left - 1));
            }
            return;
        }
        if let Some((left, to)) = self.al_fallback {
            if left == 0 {
                self.al_fallback = None;
                self.al_state = to;
                self.al_error = true;
                self.al_status_code = 0x001B;
            } else {
                self.al_fallback = Some((left - 1, to));
            }
        }
    }

    // ---- SII -----------------------------------------------------------------------------------

    fn sii_control_written(&mut self, lo: Option<u8>, hi: Option<u8>, ctx: &Ctx, events: &mut Vec<SimEvent>) {
        if let Some(lo) = lo {
            self.sii.write_enable = lo & 0x01 != 0;
        }
        let Some(hi) = hi else { return };
        let command = hi & 0x07;
        if command == 0 {
            // Writing zeros to the error bits acknowledges them.
            self.sii.err_bits &= hi & 0x78;
            return;
        }
        if self.sii.busy_left > 0 {
            // Command while busy: ignored
            return;
        }
        self.sii.err_bits = 0;
        self.sii.cmd_bits = command;
        let owner_pdi = self.mem[0x500] & 0x01 != 0;
        if owner_pdi || command.count_ones() != 1 {
            self.sii.err_bits |= 0x20;
            self.sii.write_enable = false;
            return;
        }
        let word = self.reg_u32(reg::SII_ADDRESS) as usize;
        self.sii.busy_left = self.sii_busy_polls;
        match command {
            0x01 => {
                let n = if self.sii_read_8 { 8 } else { 4 };
                for i in 0..8 {
                    self.mem[0x508 + i] = if i < n {
                        *self.eeprom.get(word.wrapping_mul(2).wrapping_add(i)).unwrap_or(&0xFF)
                    } else {
                        0
                    };
                }
            }
            0x02 => {
                let data = [self.mem[0x508], self.mem[0x509]];
                let ok;
                if !self.sii.write_enable {
                    self.sii.err_bits |= 0x20;
                    ok = false;
                } else if self.sii_write_errors > 0 {
                    self.sii_write_errors -= 1;
                    self.sii.err_bits |= 0x20;
                    ok = false;
                } else if word * 2 + 1 < self.eeprom.len() {
                    self.eeprom[word * 2] = data[0];
                    self.eeprom[word * 2 + 1] = data[1];
                    self.sii_write_errors = self.sii_write_errors.max(self.sii_errors_after_write);
                    ok = true;
                } else {
                    self.sii.err_bits |= 0x20;
                    ok = false;
                }
                self.sii.write_enable = false;
                events.push(SimEvent::EepromWrite {
                    device: ctx.device,
                    word: word as u32,
                    data,
                    stored: ok,
                });
            }
            _ => {
                // Reload: station alias from word 4
                let alias = [
                    *self.eeprom.get(8).unwrap_or(&0),
                    *self.eeprom.get(9).unwrap_or(&0),
                ];
                self.mem[0x12..0x14].copy_from_slice(&alias);
            }
        }
    }

    // ---- DC ------------------------------------------------------------------------------------

    fn dc_latch(&mut self, ctx: &Ctx) {
        // Port register order in memory: 0x0900 port 0, 0x0904 port 1, 0x0908 port 2, 0x090C port 3
        for p in 0..4 {
            if let Some(forced) = self.port_times_override {
                let a = 0x900 + 4 * p;
                self.mem[a..a + 4].copy_from_slice(&forced[p].to_le_bytes());
            } else if self.ports_open[p] {
                let t = self.local_time(ctx.port_rx_ns[p]) as u32;
                let a = 0x900 + 4 * p;
                self.mem[a..a + 4].copy_from_slice(&t.to_le_bytes());
            }
        }
        if self.dc_kind.has_system_time() {
            let t = self.local_time(ctx.arrival_ns);
            let t = if self.dc_kind == DcKind::Bits32 { t & 0xFFFF_FFFF } else { t };
            self.mem[0x918..0x920].copy_from_slice(&t.to_le_bytes());
        }
    }

    fn dc_system_time_written(&mut self, ado: u16, data: &[u8], ctx: &Ctx) {
        // Assemble the written value from the bytes that hit 0x0910..0x0917
        let mut raw = [0u8; 8];
        for (i, r) in raw.iter_mut().enumerate() {
            if let Some(b) = byte_of(ado, data, reg::DC_SYSTEM_TIME + i as u16) {
                *r = b;
            }
        }
        let wide = self.dc_kind == DcKind::Bits64;
        let received = if wide {
            u64::from_le_bytes(raw)
        } else {
            u64::from(u32::from_le_bytes([raw[0], raw[1], raw[2], raw[3]]))
        };
        let delay = u64::from(self.reg_u32(reg::DC_DELAY));
        let local_sys = self.system_time(ctx.arrival_ns);
        let target = received.wrapping_add(delay);
        let diff: i64 = if wide {
            local_sys.wrapping_sub(target) as i64
        } else {
            i64::from((local_sys as u32).wrapping_sub(target as u32) as i32)
        };
        let mag = diff.unsigned_abs().min(0x7FFF_FFFF) as u32;
        let v = if diff < 0 { 0x8000_0000 | mag } else { mag };
        self.mem[0x92C..0x930].copy_from_slice(&v.to_le_bytes());
        let corr = diff >> self.dc_filter_shift.min(62);
        self.dc_sys_adjust = self.dc_sys_adjust.wrapping_sub(corr as u64);
    }

    // ---- logical addressing -------------------------------------------------------------------

    /// Apply this device's FMMUs to a logical access. `incoming` is the datagram data as received
    /// from the previous device, `outgoing` what is forwarded. Returns `(did_read, did_write)`.
    fn logical(&mut self, laddr: u32, incoming: &[u8], outgoing: &mut [u8], do_read: bool, do_write: bool) -> (bool, bool) {
        let mut did_read = false;
        let mut did_write = false;
        let lstart_dg = u64::from(laddr);
        let lend_dg = lstart_dg + incoming.len() as u64; // exclusive

        for i in 0..usize::from(self.info.fmmu_count).min(16) {
            let r = self.fmmu_raw(i);
            if r[12] & 1 == 0 {
                continue;
            }
            let lstart = u64::from(u32::from_le_bytes([r[0], r[1], r[2], r[3]]));
            let flen = u64::from(u16::from_le_bytes([r[4], r[5]]));
            if flen == 0 {
                continue;
            }
            let start_bit = u64::from(r[6] & 7);
            let stop_bit = u64::from(r[7] & 7);
            let pstart = usize::from(u16::from_le_bytes([r[8], r[9]]));
            let pbit = u64::from(r[10] & 7);
            let rd = r[11] & 1 != 0 && do_read;
            let wr = r[11] & 2 != 0 && do_write;
            if !rd && !wr {
                continue;
            }
            let lend = lstart + flen; // exclusive, in bytes
            let from = lstart.max(lstart_dg);
            let to = lend.min(lend_dg);
            if from >= to {
                continue;
            }

            if start_bit == 0 && stop_bit == 7 && pbit == 0 {
                // Byte aligned fast path
                for la in from..to {
                    let di = (la - lstart_dg) as usize;
                    let pa = pstart + (la - lstart) as usize;
                    if pa >= MEM_SIZE {
                        break;
                    }
                    if rd {
                        outgoing[di] = self.mem[pa];
                        did_read = true;
                    }
                    if wr {
                        self.mem[pa] = incoming[di];
                        did_write = true;
                    }
                }
            } else {
                // Bit granular: the FMMU maps the logical bit string
                // [lstart*8+start_bit, (lend-1)*8+stop_bit] onto physical bits from pstart*8+pbit.
                let first = lstart * 8 + start_bit;
                let last = (lend - 1) * 8 + stop_bit;
                if last < first {
                    continue;
                }
                let lo = first.max(lstart_dg * 8);
                let hi = (last + 1).min(lend_dg * 8);
                for lb in lo..hi {
                    let pb = pstart as u64 * 8 + pbit + (lb - first);
                    let pa = (pb / 8) as usize;
                    if pa >= MEM_SIZE {
                        break;
                    }
                    let pm = 1u8 << (pb % 8);
                    let di = (lb / 8 - lstart_dg) as usize;
                    let dm = 1u8 << (lb % 8);
                    if rd {
                        if self.mem[pa] & pm != 0 {
                            outgoing[di] |= dm;
                        } else {
                            outgoing[di] &= !dm;
                        }
                        did_read = true;
                    }
                    if wr {
                        if incoming[di] & dm != 0 {
                            self.mem[pa] |= pm;
                        } else {
                            self.mem[pa] &= !pm;
                        }
                        did_write = true;
                    }
                }
            }
        }
        (did_read, did_write)
    }
}

enum AlOutcome {
    Stalled,
    Refused(u16),
    Accepted,
}

fn copy_or(dst: &mut [u8], src: &[u8], or: bool) {
    for (d, s) in dst.iter_mut().zip(src) {
        if or {
            *d |= *s;
        } else {
            *d = *s;
        }
    }
}

/// The byte of `data` (written at `ado`) that lands on register address `addr`, if any.
fn byte_of(ado: u16, data: &[u8], addr: u16) -> Option<u8> {
    let off = usize::from(addr).checked_sub(usize::from(ado))?;
    data.get(off).copied()
}

// -------------------------------------------------------------------------------------------------
// Events, faults
// -------------------------------------------------------------------------------------------------

/// What the fault hook sees for every datagram before it is processed.
#[derive(Debug, Clone, Copy, PartialEq, Eq)]
pub struct DatagramInfo {
    /// Global datagram counter (starts at 0).
    pub seq: u64,
    /// Frame counter (starts at 0).
    pub frame_seq: u64,
    pub cmd: u8,
    pub adp: u16,
    pub ado: u16,
    pub len: u16,
}

impl DatagramInfo {
    /// Logical address for LRD/LWR/LRW.
    pub fn logical_address(&self) -> u32 {
        u32::from(self.adp) | (u32::from(self.ado) << 16)
    }
}

#[derive(Debug, Clone, Copy, PartialEq, Eq)]
pub enum FaultAction {
    None,
    /// The whole frame is lost: `process` returns `None`.
    LoseFrame,
    /// Device `n` (index into `Segment::devices`) does not see this datagram (it still forwards
    /// it and increments auto increment / broadcast address fields).
    SkipDevice(usize),
    /// Working counter of the response is overwritten.
    ForceWkc(u16),
    /// All data bytes of the response are inverted.
    CorruptData,
    /// Device `n` becomes absent (`present = false`) before this datagram is processed and stays
    /// absent; the datagram and the rest of the frame see the new topology.
    Unplug(usize),
}

#[derive(Debug, Clone, PartialEq, Eq)]
pub enum SimEvent {
    Datagram {
        frame_seq: u64,
        seq: u64,
        cmd: u8,
        adp: u16,
        ado: u16,
        len: u16,
        /// Working counter of the response as the MainDevice sees it.
        wkc: u16,
        /// Working counter the devices produced (differs from `wkc` only under `ForceWkc`).
        true_wkc: u16,
    },
    FrameLost {
        frame_seq: u64,
    },
    Fault {
        seq: u64,
        action: FaultAction,
    },
    StationAddress {
        device: usize,
        address: u16,
    },
    AlControl {
        device: usize,
        requested: u8,
        ack: bool,
        /// AL state right after handling the write (a delayed transition shows the old state).
        state: u8,
        error: bool,
        status_code: u16,
    },
    SmWrite {
        device: usize,
        index: u8,
        raw: [u8; 8],
    },
    FmmuWrite {
        device: usize,
        index: u8,
        raw: [u8; 16],
    },
    /// Write touching 0x0920, 0x0928, 0x0980/0x0981, 0x0990, 0x09A0 or 0x09A4.
    DcWrite {
        device: usize,
        ado: u16,
        data: Vec<u8>,
    },
    DcLatch {
        device: usize,
        /// Registers 0x0900, 0x0904, 0x0908, 0x090C (ports 0, 1, 2, 3).
        port_times: [u32; 4],
        receive_time: u64,
    },
    EepromWrite {
        device: usize,
        word: u32,
        data: [u8; 2],
        stored: bool,
    },
    MailboxIn {
        device: usize,
        data: Vec<u8>,
    },
    MailboxOut {
        device: usize,
        data: Vec<u8>,
    },
    /// The MainDevice has read the read mailbox completely.
    MailboxRead {
        device: usize,
    },
}

pub type FaultHook = Box<dyn FnMut(&DatagramInfo) -> FaultAction>;

// -------------------------------------------------------------------------------------------------
// Segment
// -------------------------------------------------------------------------------------------------

/// A simulated EtherCAT segment.
pub struct Segment {
    /// Devices in frame processing order (depth first: device, then its ports 3, 1, 2).
    pub devices: Vec<Device>,
    /// `parent[i] = Some((parent device, parent port))`; `None` for device 0 (on the MainDevice).
    pub parent: Vec<Option<(usize, u8)>>,
    /// Delay of the link between device `i` and its parent (or the MainDevice), one way.
    pub link_delay_ns: Vec<u64>,
    /// Simulated time at which the next frame leaves the MainDevice.
    pub now_ns: u64,
    pub fault: Option<FaultHook>,
    pub log: Vec<SimEvent>,
    pub log_capacity: usize,
    /// Events discarded because the log was full.
    pub log_dropped: u64,
    /// Record `SimEvent::Datagram` entries (the bulk of the log).
    pub log_datagrams: bool,
    /// Time the last frame needed for the complete round trip.
    pub last_round_trip_ns: u64,
    /// With no device connected, return the frame unprocessed instead of losing it.
    pub loopback_when_empty: bool,
    /// If `Some`, every frame handed to [`Segment::process`] is recorded here with its response
    /// (raw Ethernet frames). Unbounded: switch it on only around the calls of interest.
    pub capture: Option<Vec<CapturedFrame>>,
    frame_seq: u64,
    datagram_seq: u64,
}

/// One frame recorded by [`Segment::capture`].
#[derive(Debug, Clone, PartialEq, Eq)]
pub struct CapturedFrame {
    pub frame_seq: u64,
    /// `Segment::now_ns` when the frame was processed.
    pub now_ns: u64,
    pub request: Vec<u8>,
    /// `None`: the frame was lost.
    pub response: Option<Vec<u8>>,
}

/// One datagram of a raw EtherCAT frame, see [`parse_datagrams`].
#[derive(Debug, Clone, PartialEq, Eq)]
pub struct RawDatagram {
    pub cmd: u8,
    pub idx: u8,
    /// The four address bytes as on the wire (ADP low, ADP high, ADO low, ADO high).
    pub adr: [u8; 4],
    pub len: u16,
    pub data: Vec<u8>,
    pub wkc: u16,
}

impl RawDatagram {
    pub fn adp(&self) -> u16 {
        u16::from_le_bytes([self.adr[0], self.adr[1]])
    }
    pub fn ado(&self) -> u16 {
        u16::from_le_bytes([self.adr[2], self.adr[3]])
    }
    pub fn logical_address(&self) -> u32 {
        u32::from_le_bytes(self.adr)
    }
}

/// Split a raw Ethernet frame (request or response) into its EtherCAT datagrams. Anything that is
/// not a well formed EtherCAT frame yields an empty list; a truncated datagram ends the list.
pub fn parse_datagrams(frame: &[u8]) -> Vec<RawDatagram> {
    let mut out = Vec::new();
    if frame.len() < 16 || frame[12..14] != [0x88, 0xA4] {
        return out;
    }
    let hdr = u16::from_le_bytes([frame[14], frame[15]]);
    if hdr >> 12 != 1 {
        return out;
    }
    let end = (16 + usize::from(hdr & 0x07FF)).min(frame.len());
    let mut off = 16usize;
    while off + 12 <= end {
        let lf = u16::from_le_bytes([frame[off + 6], frame[off + 7]]);
        let len = usize::from(lf & 0x07FF);
        let data_off = off + 10;
        if data_off + len + 2 > end {
            break;
        }
        out.push(RawDatagram {
            cmd: frame[off],
            idx: frame[off + 1],
            adr: [frame[off + 2], frame[off + 3], frame[off + 4], frame[off + 5]],
            len: len as u16,
            data: frame[data_off..data_off + len].to_vec(),
            wkc: u16::from_le_bytes([frame[data_off + len], frame[data_off + len + 1]]),
        });
        off = data_off + len + 2;
        if lf & 0x8000 == 0 {
            break;
        }
    }
    out
}

impl Segment {
    /// A linear chain: every device hangs on port 1 of the previous one.
    pub fn line(devices: Vec<Device>) -> Self {
        let n = devices.len();
        let parent = (0..n).map(|i| if i == 0 { None } else { Some((i - 1, 1u8)) }).collect();
        Self::with_topology(devices, parent)
    }

    /// Explicit topology. Panics if the device order is not the frame processing order implied by
    /// the topology (a simulator configuration error).
    pub fn with_topology(devices: Vec<Device>, parent: Vec<Option<(usize, u8)>>) -> Self {
        assert_eq!(devices.len(), parent.len(), "one parent entry per device");
        let n = devices.len();
        let seg = Self {
            devices,
            parent,
            link_delay_ns: vec![0; n],
            now_ns: 0,
            fault: None,
            log: Vec::new(),
            log_capacity: 1 << 20,
            log_dropped: 0,
            log_datagrams: true,
            last_round_trip_ns: 0,
            loopback_when_empty: false,
            capture: None,
            frame_seq: 0,
            datagram_seq: 0,
        };
        seg.check_topology();
        seg
    }

    fn check_topology(&self) {
        let n = self.devices.len();
        if n == 0 {
            return;
        }
        assert!(self.parent[0].is_none(), "device 0 hangs on the MainDevice");
        for (i, p) in self.parent.iter().enumerate().skip(1) {
            let (pd, port) = p.expect("only device 0 has no parent");
            assert!(pd < i, "parent must come before child");
            assert!((1..=3).contains(&port), "children hang on ports 1..3");
        }
        // Depth first order check
        let mut order = Vec::new();
        self.dfs(0, &mut order, false);
        assert_eq!(
            order,
            (0..n).collect::<Vec<_>>(),
            "devices must be listed in processing order (device, then ports 3, 1, 2)"
        );
    }

    fn child_on(&self, d: usize, port: u8) -> Option<usize> {
        self.parent.iter().position(|p| *p == Some((d, port)))
    }

    fn dfs(&self, d: usize, order: &mut Vec<usize>, only_present: bool) {
        order.push(d);
        for port in [3u8, 1, 2] {
            if let Some(c) = self.child_on(d, port) {
                if !only_present || self.devices[c].present {
                    self.dfs(c, order, only_present);
                }
            }
        }
    }

    /// Walk the tree as the frame does. Fills processing order and timing.
    fn walk(&self, d: usize, t_in: u64, order: &mut Vec<usize>, ctxs: &mut Vec<Option<Ctx>>) -> u64 {
        order.push(d);
        let mut ctx = Ctx {
            device: d,
            arrival_ns: t_in,
            port_rx_ns: [t_in; 4],
        };
        let fwd = self.devices[d].fwd_delay_ns;
        let mut t = t_in.wrapping_add(fwd);
        for port in [3u8, 1, 2] {
            if let Some(c) = self.child_on(d, port) {
                if self.devices[c].present {
                    let l = self.link_delay_ns[c];
                    let t_ret = self.walk(c, t.wrapping_add(l), order, ctxs).wrapping_add(l);
                    ctx.port_rx_ns[usize::from(port)] = t_ret;
                    t = t_ret.wrapping_add(fwd);
                }
            }
        }
        ctxs[d] = Some(ctx);
        t
    }

    /// Walk the topology with the current `present` flags: processing order, per device timing,
    /// link state of all ports, round trip time. `None` if nothing is connected.
    fn survey(&mut self) -> Option<(Vec<usize>, Vec<Option<Ctx>>)> {
        let n = self.devices.len();
        let mut order = Vec::with_capacity(n);
        let mut ctxs: Vec<Option<Ctx>> = vec![None; n];
        if n == 0 || !self.devices[0].present {
            return None;
        }
        let t0 = self.now_ns.wrapping_add(self.link_delay_ns[0]);
        let t_end = self.walk(0, t0, &mut order, &mut ctxs);
        self.last_round_trip_ns = t_end.wrapping_add(self.link_delay_ns[0]).wrapping_sub(self.now_ns);
        for d in 0..n {
            let mut open = [false; 4];
            if ctxs[d].is_some() {
                open[0] = true;
                for port in 1..4u8 {
                    if let Some(c) = self.child_on(d, port) {
                        open[usize::from(port)] = self.devices[c].present;
                    }
                }
            }
            self.devices[d].ports_open = open;
        }
        Some((order, ctxs))
    }

    /// Devices reachable right now, in processing order.
    pub fn reachable(&self) -> Vec<usize> {
        let mut order = Vec::new();
        if !self.devices.is_empty() && self.devices[0].present {
            self.dfs(0, &mut order, true);
        }
        order
    }

    pub fn device(&self, i: usize) -> &Device {
        &self.devices[i]
    }

    pub fn device_mut(&mut self, i: usize) -> &mut Device {
        &mut self.devices[i]
    }

    /// Find a device by configured station address.
    pub fn device_by_address(&self, address: u16) -> Option<usize> {
        self.devices.iter().position(|d| d.station_address() == address)
    }

    pub fn drain_log(&mut self) -> Vec<SimEvent> {
        std::mem::take(&mut self.log)
    }

    pub fn frames_processed(&self) -> u64 {
        self.frame_seq
    }

    pub fn datagrams_processed(&self) -> u64 {
        self.datagram_seq
    }

    fn push_events(&mut self, events: &mut Vec<SimEvent>) {
        for e in events.drain(..) {
            self.push_event(e);
        }
    }

    fn push_event(&mut self, e: SimEvent) {
        if self.log.len() < self.log_capacity {
            self.log.push(e);
        } else {
            self.log_dropped += 1;
        }
    }

    /// Process one request Ethernet frame. `None` = the frame is lost.
    pub fn process(&mut self, frame: &[u8]) -> Option<Vec<u8>> {
        let frame_seq = self.frame_seq;
        let now_ns = self.now_ns;
        let response = self.process_frame(frame);
        if let Some(c) = self.capture.as_mut() {
            c.push(CapturedFrame {
                frame_seq,
                now_ns,
                request: frame.to_vec(),
                response: response.clone(),
            });
        }
        response
    }

    /// Sim time (relative to the moment a frame leaves the MainDevice) at which a frame reaches
    /// port 0 of each device on its outbound pass, with the current `present` flags. `None` for
    /// unreachable devices.
    pub fn outbound_arrival_ns(&self) -> Vec<Option<u64>> {
        let n = self.devices.len();
        let mut order = Vec::with_capacity(n);
        let mut ctxs: Vec<Option<Ctx>> = vec![None; n];
        if n == 0 || !self.devices[0].present {
            return vec![None; n];
        }
        self.walk(0, self.link_delay_ns[0], &mut order, &mut ctxs);
        ctxs.iter().map(|c| c.map(|c| c.arrival_ns)).collect()
    }

    fn process_frame(&mut self, frame: &[u8]) -> Option<Vec<u8>> {
        let frame_seq = self.frame_seq;
        self.frame_seq += 1;

        if frame.len() < 14 {
            return None;
        }
        let mut out = frame.to_vec();
        // The first device sets the locally administered bit of the source MAC.
        out[6] |= 0x02;

        // Topology walk: processing order, link state and timing for this frame.
        let Some((mut order, mut ctxs)) = self.survey() else {
            // Nothing connected: no response at all - unless the wire is configured to loop the
            // frame back unprocessed (a NIC whose link partner mirrors frames), which is how a
            // MainDevice gets to see "zero SubDevices".
            if self.loopback_when_empty {
                return Some(out);
            }
            self.push_event(SimEvent::FrameLost { frame_seq });
            return None;
        };

        if frame[12..14] != [0x88, 0xA4] || frame.len() < 16 {
            return Some(out);
        }
        let hdr = u16::from_le_bytes([frame[14], frame[15]]);
        if hdr >> 12 != 1 {
            return Some(out);
        }
        let total = usize::from(hdr & 0x07FF);
        let end = (16 + total).min(frame.len());

        let mut off = 16usize;
        let mut events = Vec::new();
        while off + 12 <= end {
            let c = frame[off];
            let adp = u16::from_le_bytes([frame[off + 2], frame[off + 3]]);
            let ado = u16::from_le_bytes([frame[off + 4], frame[off + 5]]);
            let lf = u16::from_le_bytes([frame[off + 6], frame[off + 7]]);
            let len = usize::from(lf & 0x07FF);
            let more = lf & 0x8000 != 0;
            let data_off = off + 10;
            if data_off + len + 2 > end {
                break; // malformed, leave the rest untouched
            }

            let seq = self.datagram_seq;
            self.datagram_seq += 1;
            let info = DatagramInfo {
                seq,
                frame_seq,
                cmd: c,
                adp,
                ado,
                len: len as u16,
            };
            let action = match self.fault.as_mut() {
                Some(f) => f(&info),
                None => FaultAction::None,
            };
            if action != FaultAction::None {
                self.push_event(SimEvent::Fault { seq, action });
            }
            if action == FaultAction::LoseFrame {
                self.push_event(SimEvent::FrameLost { frame_seq });
                return None;
            }
            if let FaultAction::Unplug(i) = action {
                if let Some(d) = self.devices.get_mut(i) {
                    d.present = false;
                }
                match self.survey() {
                    Some((o, c)) => {
                        order = o;
                        ctxs = c;
                    }
                    None => {
                        self.push_event(SimEvent::FrameLost { frame_seq });
                        return None;
                    }
                }
            }
            let skip = match action {
                FaultAction::SkipDevice(i) => Some(i),
                _ => None,
            };

            let mut adp_out = adp;
            let ado_out = ado;
            let mut wkc = u16::from_le_bytes([frame[data_off + len], frame[data_off + len + 1]]);
            let mut data = frame[data_off..data_off + len].to_vec();

            for &d in &order {
                let ctx = ctxs[d].unwrap();
                let skipped = skip == Some(d);
                let dev = &mut self.devices[d];
                match c {
                    cmd::APRD | cmd::APWR | cmd::APRW | cmd::ARMW => {
                        let selected = adp_out == 0 && !skipped;
                        adp_out = adp_out.wrapping_add(1);
                        Self::position_or_node(dev, c, selected, skipped, ado, &mut data, &mut wkc, &ctx, &mut events);
                    }
                    cmd::FPRD | cmd::FPWR | cmd::FPRW | cmd::FRMW => {
                        let alias_on = dev.mem[0x103] & 0x01 != 0;
                        let selected = !skipped
                            && (adp == dev.station_address() || (alias_on && adp == dev.station_alias()));
                        Self::position_or_node(dev, c, selected, skipped, ado, &mut data, &mut wkc, &ctx, &mut events);
                    }
                    cmd::BRD | cmd::BWR | cmd::BRW => {
                        adp_out = adp_out.wrapping_add(1);
                        if skipped {
                            continue;
                        }
                        if c == cmd::BRD || c == cmd::BRW {
                            if dev.read(ado, &mut data, true, &ctx, &mut events) {
                                wkc = wkc.wrapping_add(1);
                            }
                        }
                        if c == cmd::BWR || c == cmd::BRW {
                            // BRW writes what the device received (before OR-ing its own data is
                            // what hardware does; the difference is not observable for ethercrab).
                            let src = frame[data_off..data_off + len].to_vec();
                            if dev.write(ado, &src, &ctx, &mut events) {
                                wkc = wkc.wrapping_add(if c == cmd::BRW { 2 } else { 1 });
                            }
                        }
                    }
                    cmd::LRD | cmd::LWR | cmd::LRW => {
                        if skipped {
                            continue;
                        }
                        let laddr = u32::from(adp) | (u32::from(ado) << 16);
                        let incoming = data.clone();
                        let (r, w) = dev.logical(
                            laddr,
                            &incoming,
                            &mut data,
                            c != cmd::LWR,
                            c != cmd::LRD,
                        );
                        if r {
                            wkc = wkc.wrapping_add(1);
                        }
                        if w {
                            wkc = wkc.wrapping_add(if c == cmd::LRW { 2 } else { 1 });
                        }
                    }
                    _ => {}
                }
            }

            let true_wkc = wkc;
            match action {
                FaultAction::ForceWkc(w) => wkc = w,
                FaultAction::CorruptData => data.iter_mut().for_each(|b| *b = !*b),
                _ => {}
            }

            out[off + 2..off + 4].copy_from_slice(&adp_out.to_le_bytes());
            out[off + 4..off + 6].copy_from_slice(&ado_out.to_le_bytes());
            out[data_off..data_off + len].copy_from_slice(&data);
            out[data_off + len..data_off + len + 2].copy_from_slice(&wkc.to_le_bytes());

            if self.log_datagrams {
                self.push_event(SimEvent::Datagram {
                    frame_seq,
                    seq,
                    cmd: c,
                    adp,
                    ado,
                    len: len as u16,
                    wkc,
                    true_wkc,
                });
            }
            self.push_events(&mut events);

            off = data_off + len + 2;
            if !more {
                break;
            }
        }

        Some(out)
    }

    /// Auto increment and configured address commands at one device.
    #[allow(clippy::too_many_arguments)]
    fn position_or_node(
        dev: &mut Device,
        c: u8,
        selected: bool,
        skipped: bool,
        ado: u16,
        data: &mut Vec<u8>,
        wkc: &mut u16,
        ctx: &Ctx,
        events: &mut Vec<SimEvent>,
    ) {
        match c {
            cmd::APRD | cmd::FPRD => {
                if selected && dev.read(ado, data, false, ctx, events) {
                    *wkc = wkc.wrapping_add(1);
                }
            }
            cmd::APWR | cmd::FPWR => {
                if selected && dev.write(ado, &data.clone(), ctx, events) {
                    *wkc = wkc.wrapping_add(1);
                }
            }
            cmd::APRW | cmd::FPRW => {
                if selected {
                    let incoming = data.clone();
                    if dev.read(ado, data, false, ctx, events) {
                        *wkc = wkc.wrapping_add(1);
                    }
                    if dev.write(ado, &incoming, ctx, events) {
                        *wkc = wkc.wrapping_add(2);
                    }
                }
            }
            cmd::ARMW | cmd::FRMW => {
                if selected {
                    if dev.read(ado, data, false, ctx, events) {
                        *wkc = wkc.wrapping_add(1);
                    }
                } else if !skipped && dev.write(ado, &data.clone(), ctx, events) {
                    *wkc = wkc.wrapping_add(1);
                }
            }
            _ => {}
        }
    }
}

impl std::fmt::Debug for Segment {
    fn fmt(&self, f: &mut std::fmt::Formatter<'_>) -> std::fmt::Result {
        f.debug_struct("Segment")
            .field("devices", &self.devices)
            .field("parent", &self.parent)
            .field("now_ns", &self.now_ns)
            .finish()
    }
}

impl std::fmt::Display for SimEvent {
    fn fmt(&self, f: &mut std::fmt::Formatter<'_>) -> std::fmt::Result {
        match self {
            SimEvent::Datagram {
                frame_seq,
                seq,
                cmd: c,
                adp,
                ado,
                len,
                wkc,
                true_wkc,
            } => write!(
                f,
                "frame {frame_seq} dg {seq}: {} adp {adp:#06x} ado {ado:#06x} len {len} -> wkc {wkc}{}",
                cmd::name(*c),
                if wkc != true_wkc { format!(" (devices produced {true_wkc})") } else { String::new() }
            ),
            SimEvent::FrameLost { frame_seq } => write!(f, "frame {frame_seq} lost"),
            SimEvent::Fault { seq, action } => write!(f, "dg {seq}: fault {action:?}"),
            SimEvent::StationAddress { device, address } => {
                write!(f, "device {device}: station address {address:#06x}")
            }
            SimEvent::AlControl {
                device,
                requested,
                ack,
                state,
                error,
                status_code,
            } => write!(
                f,
                "device {device}: AL control request {requested:#x}{} -> state {state:#x}{} code {status_code:#06x}",
                if *ack { " +ack" } else { "" },
                if *error { " ERROR" } else { "" }
            ),
            SimEvent::SmWrite { device, index, raw } => write!(f, "device {device}: SM{index} = {raw:02x?}"),
            SimEvent::FmmuWrite { device, index, raw } => write!(f, "device {device}: FMMU{index} = {raw:02x?}"),
            SimEvent::DcWrite { device, ado, data } => write!(f, "device {device}: DC write {ado:#06x} = {data:02x?}"),
            SimEvent::DcLatch {
                device,
                port_times,
                receive_time,
            } => write!(f, "device {device}: DC latch ports {port_times:?} receive time {receive_time}"),
            SimEvent::EepromWrite {
                device,
                word,
                data,
                stored,
            } => write!(
                f,
                "device {device}: EEPROM word {word:#06x} = {data:02x?}{}",
                if *stored { "" } else { " (refused)" }
            ),
            SimEvent::MailboxIn { device, data } => write!(f, "device {device}: mailbox <- {data:02x?}"),
            SimEvent::MailboxOut { device, data } => write!(f, "device {device}: mailbox -> {data:02x?}"),
            SimEvent::MailboxRead { device } => write!(f, "device {device}: read mailbox emptied"),
        }
    }
}
