//! Demo: the real ethercrab MainDevice against a simulated segment, with a printed summary.
//!
//! `cargo run --offline --bin demo [-- --log]`

use ethercrab::{MainDevice, MainDeviceConfig, RetryBehaviour, Timeouts};
use simdev::devices::{self, BuildOptions};
use simdev::simnet::{DcKind, Segment, SimEvent};
use simdev::simrun::{self, Limits};
use std::time::Duration;

fn main() {
    let show_log = std::env::args().any(|a| a == "--log");
    let dc = BuildOptions {
        dc_kind: DcKind::Bits64,
        sii_busy_polls: 1,
        ..Default::default()
    };
    let mut seg = Segment::with_topology(
        vec![
            devices::build_device("EK1100", &devices::coupler("EK1100"), &dc),
            devices::build_device("EL1008", &devices::digital_in("EL1008", 8), &dc),
            devices::build_device("EL2008", &devices::digital_out("EL2008", 8), &dc),
            devices::build_coe_device("SIMDRIVE", &dc).0,
        ],
        vec![None, Some((0, 3)), Some((1, 1)), Some((0, 1))],
    );
    seg.link_delay_ns = vec![500, 50, 50, 300];
    seg.log_datagrams = show_log;

    let mut net = simrun::net_general();
    let md: &'static MainDevice<'static> = Box::leak(Box::new(MainDevice::new(
        net.take_loop(),
        Timeouts {
            wait_loop_delay: Duration::from_micros(200),
            ..Timeouts::default()
        },
        MainDeviceConfig {
            dc_static_sync_iterations: 1000,
            retry_behaviour: RetryBehaviour::None,
        },
    )));

    let out = simrun::block_on(
        async {
            let group = md.init_single_group::<8, 64>(simrun::now_ns).await?;
            let names: Vec<String> = group.iter(md).map(|s| format!("{} @{:#06x}", s.name(), s.configured_address())).collect();
            let drive = group.subdevice(md, 3)?;
            let vendor: u32 = drive.sdo_read(0x1018, 1).await?;
            let name: heapless::String<32> = drive.sdo_read(0x1008, 0).await?;
            let group = group.into_op(md).await?;
            let mut wkc = 0;
            for i in 0..100u8 {
                group.subdevice(md, 2)?.outputs_raw_mut()[0] = i;
                wkc = group.tx_rx(md).await?.working_counter;
            }
            Ok::<_, ethercrab::error::Error>((names, vendor, name, wkc))
        },
        &mut net.tx,
        &mut net.rx,
        &mut seg,
        Limits::default(),
    );
    let stats = out.stats();
    match out.done() {
        Some(Ok((names, vendor, name, wkc))) => {
            println!("devices: {names:?}");
            println!("drive: vendor {vendor:#x}, name {name:?}; last LRW working counter {wkc}");
        }
        other => println!("run did not finish: {other:?}"),
    }
    println!("{stats:?}");
    println!(
        "EL2008 outputs: {:#04x}; AL states {:?}; DC delays {:?}",
        seg.device(2).mem_read(0x0F00, 1)[0],
        seg.devices.iter().map(|d| d.al_state).collect::<Vec<_>>(),
        seg.devices.iter().map(|d| d.reg_u32(0x0928)).collect::<Vec<_>>()
    );
    let n = seg.log.len();
    println!("{n} events logged ({} dropped)", seg.log_dropped);
    // Skip datagrams and the all-zero FMMU/SM clears of the MainDevice's reset phase
    let interesting = seg.log.iter().filter(|e| match e {
        SimEvent::Datagram { .. } => false,
        SimEvent::FmmuWrite { raw, .. } => raw.iter().any(|b| *b != 0),
        SimEvent::SmWrite { raw, .. } => raw.iter().any(|b| *b != 0),
        SimEvent::DcWrite { data, .. } => data.iter().any(|b| *b != 0),
        _ => true,
    });
    for e in interesting.take(if show_log { usize::MAX } else { 40 }) {
        println!("  {e}");
    }
}
