//! Debug aid: decode an EEPROM dump, re-encode it and show the differing bytes.
use simdev::sii_image;

fn main() {
    for path in std::env::args().skip(1) {
        let img = std::fs::read(&path).expect("read");
        let mut d = sii_image::decode(&img);
        d.size_kbit = (img.len() / 128) as u32;
        let re = sii_image::encode(&d);
        let cats = sii_image::walk_categories(&img);
        println!("{path}: {} bytes, categories {:?}", img.len(), cats.iter().map(|(t, w, d)| (*t, *w, d.len())).collect::<Vec<_>>());
        let mut n = 0;
        for i in 0..img.len().min(re.len()) {
            if img[i] != re[i] {
                if n < 40 {
                    println!("  @{i:#06x} (word {:#06x}): dump {:02x} re-encoded {:02x}", i / 2, img[i], re[i]);
                }
                n += 1;
            }
        }
        println!("  {n} differing bytes");
    }
}
