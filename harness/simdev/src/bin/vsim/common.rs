//! Shared helpers of the `vsim` engines: case parsing, device construction, JSON conventions,
//! guarded execution of code under test.
//!
//! JSON conventions (see ENGINES1.md): no `null`, numbers fit into i32, wider values are arrays of
//! 16 bit limbs (least significant first), bytes are arrays of 0..255, errors are `"err:<Variant>"`.

use ethercrab::{MainDevice, MainDeviceConfig, RetryBehaviour, Timeouts, error::Error};
use serde_json::{Map, Value, json};
use simdev::coe::CoeServer;
use simdev::devices::{self, BuildOptions};
use simdev::rng::Rng;
use simdev::sii_image::{DeviceDescription, PdoDesc, PdoEntryDesc, SmDesc, fmmu_usage, sm_usage};
use simdev::simnet::{DcKind, Device, Segment, SimEvent, cmd};
use simdev::simrun::{self, Limits, Net, RunOutcome};
use std::future::Future;
use std::panic::{AssertUnwindSafe, catch_unwind};
use std::sync::Mutex;
use std::time::Duration;

pub type Obj = Map<String, Value>;

static LAST_PANIC: Mutex<String> = Mutex::new(String::new());

/// Silence the default panic output and remember message + location of the last panic.
pub fn install_panic_hook() {
    std::panic::set_hook(Box::new(|info| {
        let msg = info
            .payload()
            .downcast_ref::<String>()
            .cloned()
            .or_else(|| info.payload().downcast_ref::<&str>().map(|s| s.to_string()))
            .unwrap_or_else(|| "panic".to_string());
        let loc = info
            .location()
            .map(|l| format!(" @ {}:{}", l.file(), l.line()))
            .unwrap_or_default();
        if let Ok(mut g) = LAST_PANIC.lock() {
            *g = format!("{msg}{loc}");
        }
    }));
}

pub fn take_panic_message() -> String {
    LAST_PANIC.lock().map(|mut g| std::mem::take(&mut *g)).unwrap_or_default()
}

/// Outcome of one guarded phase.
pub enum Phase<T> {
    Done(T),
    Hang,
    Budget,
    Panic(String),
}

impl<T> Phase<T> {
    /// Result string for a phase that did not produce a value.
    pub fn failure(&self) -> Option<(&'static str, String)> {
        match self {
            Phase::Done(_) => None,
            Phase::Hang => Some(("hang", String::new())),
            Phase::Budget => Some(("budget", String::new())),
            Phase::Panic(m) => Some(("panic", m.clone())),
        }
    }
}

pub fn limits() -> Limits {
    Limits {
        max_frames: 400_000,
        max_virtual_us: 120_000_000,
    }
}

/// Everything a case runs against.
pub struct Env {
    pub seg: Segment,
    pub net: Net,
    pub md: &'static MainDevice<'static>,
}

impl Env {
    /// Run a future of the code under test: panics, hangs and exhausted budgets are reported.
    pub fn run<F: Future>(&mut self, fut: F) -> Phase<F::Output> {
        let Env { seg, net, .. } = self;
        let r = catch_unwind(AssertUnwindSafe(|| {
            simrun::block_on(fut, &mut net.tx, &mut net.rx, seg, limits())
        }));
        match r {
            Ok(RunOutcome::Done(v, _)) => Phase::Done(v),
            Ok(RunOutcome::Hang(_)) => Phase::Hang,
            Ok(RunOutcome::Budget(_)) => Phase::Budget,
            Err(_) => Phase::Panic(take_panic_message()),
        }
    }
}

pub fn default_timeouts(transition_ms: u64) -> Timeouts {
    Timeouts {
        state_transition: Duration::from_millis(transition_ms),
        pdu: Duration::from_millis(2),
        eeprom: Duration::from_millis(10),
        wait_loop_delay: Duration::from_micros(100),
        mailbox_echo: Duration::from_millis(20),
        mailbox_response: Duration::from_millis(50),
    }
}

/// Leaked storage with 16 frames of the given payload size (1100, 64 or 48; anything else = 1100).
pub fn make_net(frame_data: u64) -> Net {
    match frame_data {
        // (a frame takes (data + 12) / 14 AL status reads)
        24 => simrun::leak_storage::<16, { simrun::element(24) }>(),
        32 => simrun::leak_storage::<16, { simrun::element(32) }>(),
        48 => simrun::leak_storage::<16, { simrun::element(48) }>(),
        64 => simrun::leak_storage::<16, { simrun::element(64) }>(),
        _ => simrun::leak_storage::<16, { simrun::element(1100) }>(),
    }
}

pub fn make_env(devices: Vec<Device>, frame_data: u64, timeouts: Timeouts, seed: u64, id: &str) -> Env {
    make_env_seg(Segment::line(devices), frame_data, timeouts, seed, id)
}

/// `"parent": [[device, port] ..]` (`[-1, -1]` for device 0): a tree instead of a line. `None` if the
/// simulator rejects the topology.
pub fn segment_from_case(case: &Value, devices: Vec<Device>) -> Option<Segment> {
    let Some(list) = case.get("parent").and_then(|p| p.as_array()) else {
        return Some(Segment::line(devices));
    };
    if list.len() != devices.len() {
        return None;
    }
    let parent: Vec<Option<(usize, u8)>> = list
        .iter()
        .map(|p| {
            let a = p.get(0).and_then(|x| x.as_i64()).unwrap_or(-1);
            let b = p.get(1).and_then(|x| x.as_i64()).unwrap_or(-1);
            (a >= 0 && b >= 0).then_some((a as usize, b as u8))
        })
        .collect();
    std::panic::catch_unwind(std::panic::AssertUnwindSafe(|| Segment::with_topology(devices, parent))).ok()
}

pub fn make_env_seg(mut seg: Segment, frame_data: u64, timeouts: Timeouts, seed: u64, id: &str) -> Env {
    simrun::reset_clock();
    seg.loopback_when_empty = true;
    // Seeded, case specific clock offsets and link delays (only visible through DC registers).
    let mut h = seed ^ 0x9E37_79B9_7F4A_7C15;
    for b in id.bytes() {
        h = h.wrapping_mul(0x100_0000_01B3) ^ u64::from(b);
    }
    let mut rng = Rng::new(h);
    for i in 0..seg.devices.len() {
        seg.devices[i].clock_offset_ns = rng.below(1_000_000_000_000);
        seg.link_delay_ns[i] = 20 + rng.below(500);
        seg.devices[i].fwd_delay_ns = rng.below(300);
    }
    let mut net = make_net(frame_data);
    let md: &'static MainDevice<'static> = Box::leak(Box::new(MainDevice::new(
        net.take_loop(),
        timeouts,
        MainDeviceConfig {
            dc_static_sync_iterations: 10,
            retry_behaviour: RetryBehaviour::None,
        },
    )));
    Env { seg, net, md }
}

// ---- JSON helpers -------------------------------------------------------------------------------

pub fn limbs32(v: u32) -> Value {
    json!([v & 0xFFFF, v >> 16])
}

#[allow(dead_code)]
pub fn limbs64(v: u64) -> Value {
    json!([v & 0xFFFF, (v >> 16) & 0xFFFF, (v >> 32) & 0xFFFF, v >> 48])
}

pub fn bytes(b: &[u8]) -> Value {
    Value::Array(b.iter().map(|x| json!(*x)).collect())
}

pub fn get_u64(v: &Value, key: &str, default: u64) -> u64 {
    v.get(key).and_then(|x| x.as_u64()).unwrap_or(default)
}

pub fn get_str<'a>(v: &'a Value, key: &str, default: &'a str) -> &'a str {
    v.get(key).and_then(|x| x.as_str()).unwrap_or(default)
}

pub fn get_bool(v: &Value, key: &str, default: bool) -> bool {
    v.get(key).and_then(|x| x.as_bool()).unwrap_or(default)
}

/// Debug name of the outermost variant: `Timeout(Pdu)` -> `Timeout`.
pub fn variant_name(dbg: &str) -> String {
    dbg.chars().take_while(|c| c.is_ascii_alphanumeric() || *c == '_').collect()
}

/// Write `"result": "err:<Variant>"` plus structured extras into `out` (keys prefixed by `prefix`).
pub fn put_error(out: &mut Obj, prefix: &str, e: &Error) {
    let dbg = format!("{e:?}");
    out.insert(format!("{prefix}result"), json!(format!("err:{}", variant_name(&dbg))));
    out.insert(format!("{prefix}detail"), json!(dbg));
    match e {
        Error::WorkingCounter { expected, received } => {
            out.insert(format!("{prefix}expected"), json!(expected));
            out.insert(format!("{prefix}received"), json!(received));
        }
        Error::Timeout(k) => {
            out.insert(format!("{prefix}timeout"), json!(variant_name(&format!("{k:?}"))));
        }
        Error::Mailbox(m) => {
            out.insert(format!("{prefix}mailbox"), json!(variant_name(&format!("{m:?}"))));
        }
        Error::Pdu(p) => {
            out.insert(format!("{prefix}pdu"), json!(variant_name(&format!("{p:?}"))));
        }
        Error::Capacity(i) => {
            out.insert(format!("{prefix}item"), json!(variant_name(&format!("{i:?}"))));
        }
        Error::SubDevice(c) => {
            out.insert(format!("{prefix}al_status_code"), json!(variant_name(&format!("{c:?}"))));
        }
        Error::InvalidState { expected, actual, configured_address } => {
            out.insert(format!("{prefix}expected_state"), json!(format!("{expected:?}")));
            out.insert(format!("{prefix}actual_state"), json!(format!("{actual:?}")));
            out.insert(format!("{prefix}addr"), json!(configured_address));
        }
        _ => {}
    }
}

/// Write the result of a phase that returned `Result<T, Error>`; returns the value on success.
pub fn put_phase<T>(out: &mut Obj, prefix: &str, p: Phase<Result<T, Error>>) -> Option<T> {
    match p {
        Phase::Done(Ok(v)) => {
            out.insert(format!("{prefix}result"), json!("ok"));
            Some(v)
        }
        Phase::Done(Err(e)) => {
            put_error(out, prefix, &e);
            None
        }
        other => {
            let (r, msg) = other.failure().unwrap();
            out.insert(format!("{prefix}result"), json!(r));
            if r == "panic" {
                out.insert(format!("{prefix}panic"), json!(msg));
            }
            None
        }
    }
}

// ---- devices ------------------------------------------------------------------------------------

fn pdos(base: u16, sm: u8, bits: u32, obj_base: u16) -> Vec<PdoDesc> {
    // One PDO per 8 bits, one bit per entry
    let mut out = Vec::new();
    let mut left = bits;
    let mut n = 0u16;
    while left > 0 {
        let take = left.min(8);
        out.push(PdoDesc {
            index: base + n,
            sm,
            sync: 0,
            name_idx: 0,
            flags: 0,
            entries: (0..take)
                .map(|b| PdoEntryDesc {
                    index: obj_base + n,
                    sub: b as u8 + 1,
                    name_idx: 0,
                    data_type: 1,
                    bit_len: 1,
                    flags: 0,
                })
                .collect(),
        });
        left -= take;
        n += 1;
    }
    out
}

fn mapping(bits: u32, obj: u16) -> Vec<(u16, u8, u8)> {
    let mut out = Vec::new();
    let mut left = bits;
    let mut sub = 1u8;
    while left > 0 && sub < 250 {
        let take = if left >= 32 { 32 } else if left >= 16 { 16 } else if left >= 8 { 8 } else { left };
        out.push((obj, sub, take as u8));
        left -= take;
        sub += 1;
    }
    out
}

/// Build a simulated device from the JSON device description of a case.
pub fn device_from_json(v: &Value, position: usize) -> Device {
    let kind = get_str(v, "kind", "dio");
    let tag = get_u64(v, "tag", position as u64) as u32;
    let named = get_bool(v, "named", true);
    // "ref32" / "ref64": distributed clocks without the enhanced sync unit (ESC feature bit 8 clear)
    let dc_name = get_str(v, "dc", "none");
    let dc = match dc_name {
        "dc32" | "ref32" => DcKind::Bits32,
        "dc64" | "ref64" => DcKind::Bits64,
        _ => DcKind::None,
    };
    let mut opts = BuildOptions {
        dc_kind: dc,
        sii_read_8: get_bool(v, "sii8", false),
        ..Default::default()
    };
    if dc_name.starts_with("ref") {
        opts.features &= !0x0100;
    }
    let (def_in, def_out) = match kind {
        "coupler" => (0, 0),
        "coe" => (64, 48),
        _ => (8, 8),
    };
    let in_bits = (get_u64(v, "in_bits", def_in) as u32).min(512);
    let out_bits = (get_u64(v, "out_bits", def_out) as u32).min(512);

    let mut desc: DeviceDescription = match kind {
        "coupler" => devices::coupler("X"),
        "coe" => devices::coe_device("X"),
        _ => devices::digital_io("X", 0, 0),
    };
    desc.strings.clear();
    desc.order_idx = 0;
    desc.name_idx = 0;
    desc.group_idx = 0;
    desc.image_idx = 0;
    if named {
        // "name": the string ethercrab reports as the device's name (default DEV<tag>)
        let name = get_str(v, "name", "");
        desc.order_idx = desc.add_string(&if name.is_empty() { format!("DEV{tag}") } else { name.to_string() });
        desc.name_idx = desc.add_string(&format!("Device number {tag}"));
    }
    desc.vendor_id = 0x0000_0A00u32.wrapping_add(tag);
    desc.product_id = 0x1000u32.wrapping_add(tag);
    desc.revision = tag;
    desc.serial = 0x5000u32.wrapping_add(tag);
    desc.alias = get_u64(v, "alias", 0) as u16;

    if kind == "coe" {
        // "mbx_recv" / "mbx_send": mailbox sizes (16..=128 each) other than the stock 128 / 128
        let recv = get_u64(v, "mbx_recv", 128).clamp(16, 128) as u16;
        let send = get_u64(v, "mbx_send", 128).clamp(16, 128) as u16;
        if let Some(m) = desc.mailbox.as_mut() {
            m.recv_size = recv;
            m.send_size = send;
            m.bootstrap[1] = recv;
            m.bootstrap[3] = send;
        }
        desc.sync_managers[0].length = recv;
        desc.sync_managers[1].length = send;
    }
    if kind != "coupler" && kind != "coe" {
        // dio: SM/FMMU indices line up (ethercrab's EEPROM path uses FMMU[sm index])
        desc.sync_managers.clear();
        desc.fmmu_usage.clear();
        desc.rx_pdos.clear();
        desc.tx_pdos.clear();
        if out_bits > 0 {
            let sm = desc.sync_managers.len() as u8;
            desc.sync_managers.push(SmDesc {
                start: 0x0F00,
                length: out_bits.div_ceil(8) as u16,
                control: 0x44,
                status: 0,
                enable: 0x01,
                usage: sm_usage::PD_OUT,
            });
            desc.fmmu_usage.push(fmmu_usage::OUTPUTS);
            desc.rx_pdos = pdos(0x1600, sm, out_bits, 0x7000);
        }
        if in_bits > 0 {
            let sm = desc.sync_managers.len() as u8;
            desc.sync_managers.push(SmDesc {
                start: 0x1000,
                length: in_bits.div_ceil(8) as u16,
                control: 0x00,
                status: 0,
                enable: 0x01,
                usage: sm_usage::PD_IN,
            });
            desc.fmmu_usage.push(fmmu_usage::INPUTS);
            desc.tx_pdos = pdos(0x1A00, sm, in_bits, 0x6000);
        }
    }

    let label = format!("dev{position}/tag{tag}");
    let mut dev = devices::build_device(&label, &desc, &opts);
    if kind == "coe" {
        let coe: &mut CoeServer = dev.mailbox_mut().coe_mut();
        devices::coe_default_od(coe, &desc, &format!("DEV{tag}"));
        coe.set_pdo_mapping(0x1A00, &mapping(in_bits, 0x6000));
        coe.set_pdo_mapping(0x1600, &mapping(out_bits, 0x7000));
        coe.set_array_u16(0x1C13, if in_bits > 0 { &[0x1A00] } else { &[] });
        coe.set_array_u16(0x1C12, if out_bits > 0 { &[0x1600] } else { &[] });
    }
    let prior = get_u64(v, "prior_addr", 0) as u16;
    dev.mem_write(0x0010, &prior.to_le_bytes());
    dev
}

pub fn devices_from_case(case: &Value, default_count: usize) -> Vec<Device> {
    match case.get("devices").and_then(|d| d.as_array()) {
        Some(list) => list.iter().enumerate().map(|(i, v)| device_from_json(v, i)).collect(),
        None => (0..default_count).map(|i| device_from_json(&json!({"kind": "dio"}), i)).collect(),
    }
}

// ---- log evaluation -----------------------------------------------------------------------------

pub fn is_write_cmd(c: u8) -> bool {
    matches!(
        c,
        cmd::APWR | cmd::FPWR | cmd::BWR | cmd::APRW | cmd::FPRW | cmd::BRW | cmd::ARMW | cmd::FRMW
    )
}

pub fn is_read_cmd(c: u8) -> bool {
    matches!(
        c,
        cmd::APRD | cmd::FPRD | cmd::BRD | cmd::APRW | cmd::FPRW | cmd::BRW | cmd::ARMW | cmd::FRMW
    )
}

/// Does a register datagram (not logical) cover `reg`?
pub fn covers(ado: u16, len: u16, reg: u16) -> bool {
    let a = u32::from(ado);
    let r = u32::from(reg);
    a <= r && r < a + u32::from(len)
}

/// AL state, error flag per device.
pub fn al_states(seg: &Segment) -> (Value, Value) {
    (
        Value::Array(seg.devices.iter().map(|d| json!(d.al_state & 0x0F)).collect()),
        Value::Array(seg.devices.iter().map(|d| json!(d.al_error)).collect()),
    )
}

/// Events of kind `Datagram` from `from` on.
pub fn datagrams_since(seg: &Segment, from: usize) -> impl Iterator<Item = &SimEvent> {
    seg.log[from.min(seg.log.len())..]
        .iter()
        .filter(|e| matches!(e, SimEvent::Datagram { .. }))
}
