//! Engine `alstate`: a group's typestate never claims a state its SubDevices are not in.
//!
//! Case: `{"id", "devices": [..], "groups": 1|2, "target": "safe_op"|"op"|"request_op"|"pre_op"|"init",
//! "scripts": [{"accept_after_polls", "refuse_with", "stall", "fall_back_after", "fall_back_to"}, ..],
//! "script_state": "safeop"|"op"|"preop"|"init"|"all", "frame_data": 1100|64|48,
//! "transition_timeout_ms": 500}`.

use crate::common::*;
use ethercrab::{
    DefaultLock, SubDevice, SubDeviceGroup, SubDeviceGroupHandle, SubDeviceState,
    error::Error,
    subdevice_group::{Op, PreOp},
};
use serde_json::{Value, json};
use simdev::simnet::{AlScript, SimEvent, al};
use simdev::simrun;

const MAX: usize = 16;
const PDI: usize = 64;

type Group<S> = SubDeviceGroup<MAX, PDI, DefaultLock, S>;

#[derive(Default)]
struct Groups {
    g: [SubDeviceGroup<MAX, PDI>; 3],
}

fn install_scripts(env: &mut Env, case: &Value) {
    let state = match get_str(case, "script_state", "all") {
        "safeop" | "safe_op" => Some(al::SAFEOP),
        "op" => Some(al::OP),
        "preop" | "pre_op" => Some(al::PREOP),
        "init" => Some(al::INIT),
        _ => None,
    };
    let Some(scripts) = case.get("scripts").and_then(|s| s.as_array()) else {
        return;
    };
    for (i, s) in scripts.iter().enumerate() {
        let Some(dev) = env.seg.devices.get_mut(i) else { break };
        let refuse = get_u64(s, "refuse_with", 0) as u16;
        let fb_after = get_u64(s, "fall_back_after", 0) as u32;
        let script = AlScript {
            accept_after_polls: get_u64(s, "accept_after_polls", 0) as u32,
            refuse_with: (refuse != 0).then_some(refuse),
            stall: get_bool(s, "stall", false),
            fall_back: (fb_after != 0).then_some((fb_after, get_u64(s, "fall_back_to", 4) as u8)),
            silent: get_bool(s, "silent", false),
        };
        match state {
            Some(st) => {
                dev.al_script_for.insert(st, script);
            }
            None => dev.al_script = script,
        }
    }
}

fn state_name(s: &SubDeviceState) -> String {
    format!("{s:?}")
}

pub fn run(case: &Value, seed: u64) -> Obj {
    let mut out = Obj::new();
    out.insert("case".into(), case.clone());
    let id = get_str(case, "id", "");
    let devices = devices_from_case(case, 3);
    let n_dev = devices.len();
    let frame_data = get_u64(case, "frame_data", 1100);
    let tt = get_u64(case, "transition_timeout_ms", 500);
    let mut env = make_env(devices, frame_data, default_timeouts(tt), seed, id);
    let md = env.md;
    let n_groups = (get_u64(case, "groups", 1) as usize).clamp(1, 3);
    let target = get_str(case, "target", "op").to_string();

    // ---- setup: init, round robin into groups ----
    let mut position = 0usize;
    let p = env.run(md.init::<MAX, _>(
        simrun::now_ns,
        Groups::default(),
        move |g: &Groups, _sd: &SubDevice| {
            let i = position;
            position += 1;
            let h: &dyn SubDeviceGroupHandle = &g.g[i % n_groups];
            Ok(h)
        },
    ));
    let groups = put_phase(&mut out, "setup_", p);

    let mut op_group: Option<Group<Op>> = None;
    let mut call_start_log = env.seg.log.len();
    let mut t0 = simrun::now_us();
    let mut called = false;
    let mut read_seq0 = 0u64;

    if let Some(groups) = groups {
        let [g0, _g1, _g2]: [Group<PreOp>; 3] = groups.g;
        let members: Vec<Value> = g0
            .iter(md)
            .map(|sd| json!(i64::from(sd.configured_address()) - 0x1000))
            .collect();
        out.insert("group0".into(), Value::Array(members));

        macro_rules! begin_call {
            () => {{
                install_scripts(&mut env, case);
                call_start_log = env.seg.log.len();
                read_seq0 = simdev::simnet::al_read_seq();
                t0 = simrun::now_us();
                called = true;
            }};
        }

        match target.as_str() {
            "safe_op" | "op" | "request_op" => {
                let p = env.run(g0.into_pre_op_pdi(md));
                if let Some(pdi) = put_phase(&mut out, "setup_", p) {
                    begin_call!();
                    match target.as_str() {
                        "safe_op" => {
                            let p = env.run(async { pdi.into_safe_op(md).await.map(|_| ()) });
                            put_phase(&mut out, "", p);
                        }
                        "op" => {
                            let p = env.run(pdi.into_op(md));
                            op_group = put_phase(&mut out, "", p);
                        }
                        _ => {
                            let p = env.run(pdi.request_into_op(md));
                            op_group = put_phase(&mut out, "", p);
                        }
                    }
                }
            }
            "pre_op" | "init" => {
                let p = env.run(g0.into_op(md));
                if let Some(op) = put_phase(&mut out, "setup_", p) {
                    begin_call!();
                    let to_init = target == "init";
                    let p = env.run(async {
                        let g = op.into_safe_op(md).await?.into_pre_op(md).await?;
                        if to_init {
                            g.into_init(md).await.map(|_| ())
                        } else {
                            Ok::<(), Error>(())
                        }
                    });
                    put_phase(&mut out, "", p);
                }
            }
            other => {
                out.insert("result".into(), json!("badcase"));
                out.insert("detail".into(), json!(format!("unknown target {other}")));
            }
        }
    }

    if !out.contains_key("result") {
        out.insert("result".into(), json!("setup_failed"));
    }

    // ---- observations of the call under test ----
    out.insert("elapsed_us".into(), json!(if called { (simrun::now_us() - t0).min(i32::MAX as u64) } else { 0 }));
    let mut al_writes: Vec<Vec<Value>> = vec![Vec::new(); n_dev];
    let mut polls = 0u64;
    if called {
        for e in &env.seg.log[call_start_log.min(env.seg.log.len())..] {
            match e {
                SimEvent::AlControl { device, requested, ack, .. } => {
                    if let Some(l) = al_writes.get_mut(*device) {
                        l.push(json!(u16::from(*requested) | if *ack { 0x10 } else { 0 }));
                    }
                }
                SimEvent::Datagram { cmd: c, ado, len, .. } => {
                    if is_read_cmd(*c) && covers(*ado, *len, 0x0130) {
                        polls += 1;
                    }
                }
                _ => {}
            }
        }
    }
    out.insert(
        "al_writes".into(),
        Value::Array(al_writes.into_iter().map(Value::Array).collect()),
    );
    out.insert("polls".into(), json!(polls));
    // every AL status read during the call, in the order the devices answered them: [device, byte at 0x0130]
    let mut reads: Vec<(u64, usize, u8)> = Vec::new();
    if called {
        for d in 0..n_dev {
            for (seq, v) in &env.seg.device(d).al_read_log {
                if *seq >= read_seq0 {
                    reads.push((*seq, d, *v));
                }
            }
        }
    }
    reads.sort();
    let skip = reads.len().saturating_sub(64);
    out.insert(
        "al_reads_tail".into(),
        Value::Array(reads[skip..].iter().map(|(_, d, v)| json!([d, v])).collect()),
    );
    out.insert("al_reads".into(), json!(reads.len()));
    out.insert(
        "al_reads_head".into(),
        Value::Array(reads.iter().take(32).map(|(_, d, v)| json!([d, v])).collect()),
    );
    let (al_after, err_after) = al_states(&env.seg);
    out.insert("al_after".into(), al_after);
    out.insert("al_error_after".into(), err_after);
    if !out.contains_key("group0") {
        out.insert("group0".into(), json!([]));
    }

    // ---- one process data cycle if the typestate says OP ----
    if let Some(group) = op_group {
        let mut t = Obj::new();
        let p = env.run(group.tx_rx(md));
        if let Some(r) = put_phase(&mut t, "", p) {
            t.insert("wkc".into(), json!(r.working_counter));
            t.insert(
                "states".into(),
                Value::Array(r.subdevice_states.iter().map(|s| json!(state_name(s))).collect()),
            );
            t.insert("all_op".into(), json!(r.all_op()));
            t.insert(
                "single_state".into(),
                json!(r.group_in_single_state().map(|s| state_name(&s)).unwrap_or_default()),
            );
            t.insert("group_state_bits".into(), json!(r.group_state().bits()));
            t.insert("is_in_state_op".into(), json!(r.is_in_state(SubDeviceState::Op)));
        }
        out.insert("txrx".into(), Value::Object(t));
        // what a status read gets to see: a device that does not answer shows as 0 (None)
        out.insert(
            "al_at_txrx".into(),
            Value::Array(
                env.seg.devices.iter().map(|d| json!(if d.al_silent { 0 } else { d.al_state & 0x0F })).collect(),
            ),
        );
    }
    out.insert("frames".into(), json!(env.seg.frames_processed()));
    out
}
