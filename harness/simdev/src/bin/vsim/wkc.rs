//! Engine `wkc`: a device that did not answer is never mistaken for one that did.
//!
//! Case: `{"id", "entry": .., "wkc_mode": "default"|"ignore"|"with", "with": 0..3,
//! "fault": {"kind": "none"|"force_wkc"|"skip_device"|"absent_from", "k": n, "w": 0..3},
//! "network": 2|3}`. Device 0 is a coupler, device 1 (0x1001) a CoE device with I/O, device 2 a
//! digital I/O terminal.

use crate::common::*;
use ethercrab::{Command, SubDeviceGroup, SubDeviceState, WrappedRead, WrappedWrite, error::Error};
use serde_json::{Value, json};
use simdev::simnet::{FaultAction, SimEvent, cmd};
use simdev::simrun;
use std::cell::RefCell;
use std::rc::Rc;

const TARGET: u16 = 0x1001;
/// Scratch register for write entries (user RAM of the ESC register area).
const SCRATCH: u16 = 0x0F80;

fn read_mode(r: WrappedRead, case: &Value) -> WrappedRead {
    match get_str(case, "wkc_mode", "default") {
        "ignore" => r.ignore_wkc(),
        "with" => r.with_wkc(get_u64(case, "with", 1) as u16),
        _ => r,
    }
}

/// `"len_override"`: `"before"` / `"after"` = `with_len(4)` is applied before / after the working
/// counter mode is chosen (the builder calls commute).
fn write_mode(w: WrappedWrite, case: &Value) -> WrappedWrite {
    let lo = get_str(case, "len_override", "none");
    let w = if lo == "before" { w.with_len(4u16) } else { w };
    let w = match get_str(case, "wkc_mode", "default") {
        "ignore" => w.ignore_wkc(),
        "with" => w.with_wkc(get_u64(case, "with", 1) as u16),
        _ => w,
    };
    if lo == "after" { w.with_len(4u16) } else { w }
}

/// What an entry point returned, normalised.
struct Returned {
    value: Vec<u8>,
    extra: Obj,
}

fn plain(value: Vec<u8>) -> Returned {
    Returned {
        value,
        extra: Obj::new(),
    }
}

pub fn run(case: &Value, seed: u64) -> Obj {
    let mut out = Obj::new();
    out.insert("case".into(), case.clone());
    let id = get_str(case, "id", "");
    let entry = get_str(case, "entry", "receive_u16").to_string();
    let network = get_u64(case, "network", 2).clamp(2, 3) as usize;

    let mut descs = vec![
        json!({"kind": "coupler", "tag": 0}),
        json!({"kind": "coe", "tag": 1, "alias": 0x0A11}),
    ];
    if network == 3 {
        descs.push(json!({"kind": "dio", "tag": 2, "in_bits": 8, "out_bits": 8}));
    }
    let devices = descs.iter().enumerate().map(|(i, d)| device_from_json(d, i)).collect();
    let mut env = make_env(devices, 1100, default_timeouts(500), seed, id);
    let md = env.md;

    // ---- setup ----
    let p = env.run(md.init_single_group::<4, 64>(simrun::now_ns));
    let Some(group) = put_phase(&mut out, "setup_", p) else {
        out.insert("result".into(), json!("setup_failed"));
        out.insert("datagrams".into(), json!([]));
        return out;
    };

    // ---- fault hook, counted over the datagrams of the call under test ----
    let fault = case.get("fault").cloned().unwrap_or(json!({"kind": "none"}));
    let kind = get_str(&fault, "kind", "none").to_string();
    let k = get_u64(&fault, "k", 1);
    let w = get_u64(&fault, "w", 0) as u16;
    let faulted: Rc<RefCell<Vec<u64>>> = Rc::new(RefCell::new(Vec::new()));
    let install = |env: &mut Env| -> usize {
        let faulted = faulted.clone();
        let kind = kind.clone();
        let mut n = 0u64;
        env.seg.fault = Some(Box::new(move |info| {
            n += 1;
            let action = match kind.as_str() {
                "force_wkc" if n == k => FaultAction::ForceWkc(w),
                "skip_device" if n == k => FaultAction::SkipDevice(1),
                "absent_from" if n == k => FaultAction::Unplug(1),
                _ => FaultAction::None,
            };
            if action != FaultAction::None || (kind == "absent_from" && n > k) {
                faulted.borrow_mut().push(info.seq);
            }
            action
        }));
        env.seg.log.len()
    };

    let mark;
    let result: Phase<Result<Returned, Error>>;

    macro_rules! on_target {
        (|$sd:ident| $body:expr) => {{
            match group.subdevice(md, 1) {
                Ok($sd) => {
                    mark = install(&mut env);
                    result = env.run(async { $body });
                }
                Err(e) => {
                    mark = env.seg.log.len();
                    result = Phase::Done(Err(e));
                }
            }
        }};
    }

    match entry.as_str() {
        "receive_u16" => {
            mark = install(&mut env);
            let c = read_mode(Command::fprd(TARGET, 0x0012), case);
            result = env.run(async { c.receive::<u16>(md).await.map(|v| plain(v.to_le_bytes().to_vec())) });
        }
        "receive_slice" => {
            mark = install(&mut env);
            // "slice_len": 4 (registers) or a read of plain RAM of any length up to what a frame takes (1100: the
            // response then fills its slot to the last byte)
            let n = get_u64(case, "slice_len", 4).clamp(1, 1100) as u16;
            let c = read_mode(Command::fprd(TARGET, if n > 4 { 0x2000 } else { 0x0010 }), case);
            result = env.run(async { c.receive_slice(md, n).await.map(|v| plain(v.to_vec())) });
        }
        "brd_receive_u16" => {
            mark = install(&mut env);
            let c = read_mode(Command::brd(0x0130), case);
            result = env.run(async { c.receive::<u16>(md).await.map(|v| plain(v.to_le_bytes().to_vec())) });
        }
        "send_receive_u16" => {
            mark = install(&mut env);
            let c = write_mode(Command::fpwr(TARGET, SCRATCH), case);
            result = env.run(async {
                c.send_receive::<u16>(md, 0xBEEFu16)
                    .await
                    .map(|v| plain(v.to_le_bytes().to_vec()))
            });
        }
        "send_receive_slice" => {
            mark = install(&mut env);
            let c = write_mode(Command::fpwr(TARGET, SCRATCH), case);
            result = env.run(async {
                c.send_receive_slice(md, [1u8, 2, 3, 4])
                    .await
                    .map(|v| plain(v.to_vec()))
            });
        }
        "register_read" => on_target!(|sd| sd
            .register_read::<u16>(0x0012u16)
            .await
            .map(|v| plain(v.to_le_bytes().to_vec()))),
        "register_write" => on_target!(|sd| sd
            .register_write::<u16>(SCRATCH, 0xBEEFu16)
            .await
            .map(|v| plain(v.to_le_bytes().to_vec()))),
        "status" => on_target!(|sd| sd.status().await.map(|(state, code)| {
            let mut r = plain(Vec::new());
            r.extra.insert("state".into(), json!(format!("{state:?}")));
            r.extra.insert("status_code".into(), json!(variant_name(&format!("{code:?}"))));
            r
        })),
        "eeprom_read" => on_target!(|sd| sd
            .eeprom_read::<u32>(md, 0x0008)
            .await
            .map(|v| plain(v.to_le_bytes().to_vec()))),
        "eeprom_read_raw" => on_target!(|sd| {
            let mut buf = [0u8; 8];
            sd.eeprom_read_raw(md, 0x0040, &mut buf).await.map(|n| {
                let mut r = plain(buf.to_vec());
                r.extra.insert("read_len".into(), json!(n));
                r
            })
        }),
        "sdo_read" => on_target!(|sd| sd
            .sdo_read::<u32>(0x2000, 0)
            .await
            .map(|v| plain(v.to_le_bytes().to_vec()))),
        "sdo_write" => on_target!(|sd| sd.sdo_write(0x2001, 0, 0x4321u16).await.map(|()| plain(Vec::new()))),
        "into_op" => {
            mark = install(&mut env);
            result = env.run(async { group.into_op(md).await.map(|_| plain(Vec::new())) });
        }
        "lrw_tx_rx" => {
            let p = env.run(group.into_op(md));
            match put_phase(&mut out, "setup_", p) {
                Some(op) => {
                    // recognisable process data
                    env.seg.device_mut(1).mem_write(simdev::devices::COE_PD_IN, &[0xA1, 0xA2, 0xA3, 0xA4, 0xA5, 0xA6, 0xA7, 0xA8]);
                    mark = install(&mut env);
                    result = env.run(async {
                        let r = op.tx_rx(md).await?;
                        let mut ret = plain(op.subdevice(md, 1)?.inputs_raw().to_vec());
                        ret.extra.insert("lrw_wkc".into(), json!(r.working_counter));
                        ret.extra.insert(
                            "states".into(),
                            Value::Array(r.subdevice_states.iter().map(|s| json!(format!("{s:?}"))).collect()),
                        );
                        ret.extra.insert("all_op".into(), json!(r.all_op()));
                        ret.extra.insert("is_in_state_op".into(), json!(r.is_in_state(SubDeviceState::Op)));
                        Ok(ret)
                    });
                }
                None => {
                    mark = env.seg.log.len();
                    result = Phase::Done(Err(Error::Internal));
                    out.insert("result".into(), json!("setup_failed"));
                }
            }
        }
        other => {
            out.insert("result".into(), json!("badcase"));
            out.insert("detail".into(), json!(format!("unknown entry {other}")));
            out.insert("datagrams".into(), json!([]));
            return out;
        }
    }
    env.seg.fault = None;

    if !out.contains_key("result") {
        if let Some(r) = put_phase(&mut out, "", result) {
            out.insert("value".into(), bytes(&r.value));
            for (k, v) in r.extra {
                out.insert(k, v);
            }
        }
    }

    // ---- datagrams of the call under test ----
    let faulted = faulted.borrow();
    let mut list = Vec::new();
    for (n, e) in datagrams_since(&env.seg, mark).enumerate() {
        if let SimEvent::Datagram {
            seq,
            cmd: c,
            adp,
            ado,
            len,
            wkc,
            true_wkc,
            ..
        } = e
        {
            list.push(json!({
                "n": n + 1,
                "cmd": cmd::name(*c),
                "adp": adp,
                "ado": ado,
                "len": len,
                "wkc": wkc,
                "true_wkc": true_wkc,
                "faulted": faulted.contains(seq),
            }));
        }
    }
    out.insert("datagrams".into(), Value::Array(list));
    out.insert(
        "target_present".into(),
        json!(env.seg.devices.get(1).map(|d| d.present).unwrap_or(false)),
    );
    let (al_after, _) = al_states(&env.seg);
    out.insert("al_after".into(), al_after);
    out
}

#[allow(dead_code)]
type _Unused = SubDeviceGroup<4, 64>;
