//! Engine `init`: initialisation finds every SubDevice once and addresses each distinctly.
//!
//! Case: `{"id", "max_subdevices": 2|4|8|16, "devices": [..], "groups": 1|2|3,
//! "filter": "single"|"roundrobin"|"bytag"|"error_at", "error_at": k}`.

use crate::common::*;
use ethercrab::{SubDevice, SubDeviceGroup, SubDeviceGroupHandle, SubDeviceRef, error::Error};
use serde_json::{Value, json};
use simdev::simnet::{SimEvent, cmd};
use simdev::simrun;

const PDI: usize = 64;

#[derive(Default)]
struct Groups<const M: usize> {
    g: [SubDeviceGroup<M, PDI>; 3],
}

/// The link flags `init` recorded, by port number. `SubDevice` has no public accessor for them, its
/// `Debug` output shows them.
fn recorded_ports(sd: &SubDevice) -> Value {
    let dbg = format!("{sd:?}");
    let mut out = [-1i64; 4];
    if let Some(ports) = dbg.split("ports: Ports(").nth(1) {
        for chunk in ports.split("Port { active: ").skip(1).take(4) {
            let number = chunk
                .split("number: ")
                .nth(1)
                .and_then(|rest| rest.split(',').next())
                .and_then(|n| n.trim().parse::<usize>().ok());
            if let Some(n) = number.filter(|n| *n < 4) {
                out[n] = i64::from(chunk.starts_with("true"));
            }
        }
    }
    json!(out)
}

fn describe(sd: &SubDeviceRef<'_, &SubDevice>) -> Value {
    let id = sd.identity();
    let inner: &SubDevice = sd;
    json!({
        "ports": recorded_ports(inner),
        "addr": sd.configured_address(),
        "name": sd.name(),
        "vendor": limbs32(id.vendor_id),
        "product": limbs32(id.product_id),
        "revision": limbs32(id.revision),
        "serial": limbs32(id.serial),
        "alias": sd.alias_address(),
        "dc": format!("{:?}", sd.dc_support()),
        // SubDevice::index is crate private
        "index": -1,
    })
}

fn run_sized<const M: usize>(env: &mut Env, case: &Value, out: &mut Obj) {
    let md = env.md;
    let filter = get_str(case, "filter", "single").to_string();
    let n_groups = (get_u64(case, "groups", 1) as usize).clamp(1, 3);
    let error_at = get_u64(case, "error_at", u64::MAX);

    if filter == "single" {
        let p = env.run(md.init_single_group::<M, PDI>(simrun::now_ns));
        if let Some(group) = put_phase(out, "", p) {
            let list: Vec<Value> = group.iter(md).map(|sd| describe(&sd)).collect();
            out.insert("groups".into(), json!([list]));
        }
        return;
    }

    let mut position = 0usize;
    let p = env.run(md.init::<M, _>(
        simrun::now_ns,
        Groups::<M>::default(),
        move |g: &Groups<M>, sd: &SubDevice| {
            let i = position;
            position += 1;
            let idx = match filter.as_str() {
                "roundrobin" => i % n_groups,
                "bytag" => (sd.identity().serial.wrapping_sub(0x5000) as usize) % n_groups,
                "error_at" => {
                    if i as u64 == error_at {
                        return Err(Error::UnknownSubDevice);
                    }
                    0
                }
                _ => 0,
            };
            let h: &dyn SubDeviceGroupHandle = &g.g[idx];
            Ok(h)
        },
    ));
    if let Some(groups) = put_phase(out, "", p) {
        let lists: Vec<Value> = groups
            .g
            .iter()
            .take(n_groups)
            .map(|g| Value::Array(g.iter(md).map(|sd| describe(&sd)).collect()))
            .collect();
        out.insert("groups".into(), Value::Array(lists));
    }
}

pub fn run(case: &Value, seed: u64) -> Obj {
    let mut out = Obj::new();
    out.insert("case".into(), case.clone());
    let id = get_str(case, "id", "");
    let devices = devices_from_case(case, 2);
    let Some(seg) = segment_from_case(case, devices) else {
        out.insert("result".into(), json!("badcase"));
        out.insert("detail".into(), json!("topology rejected by the simulator"));
        return out;
    };
    let mut env = make_env_seg(seg, 1100, default_timeouts(500), seed, id);

    match get_u64(case, "max_subdevices", 8) {
        2 => run_sized::<2>(&mut env, case, &mut out),
        4 => run_sized::<4>(&mut env, case, &mut out),
        8 => run_sized::<8>(&mut env, case, &mut out),
        16 => run_sized::<16>(&mut env, case, &mut out),
        other => {
            out.insert("result".into(), json!("badcase"));
            out.insert("detail".into(), json!(format!("max_subdevices {other} not supported")));
        }
    }

    out.insert("num_subdevices".into(), json!(env.md.num_subdevices()));
    let after: Vec<Value> = env
        .seg
        .devices
        .iter()
        .map(|d| {
            json!({
                "station": d.station_address(),
                "al": d.al_state & 0x0F,
                "alias_reg": d.station_alias(),
                "ports_open": d.ports_open.iter().map(|b| i64::from(*b)).collect::<Vec<i64>>(),
            })
        })
        .collect();
    out.insert("devices_after".into(), Value::Array(after));

    let mut last_station_write: i64 = -1;
    let mut first_fp: i64 = -1;
    for e in datagrams_since(&env.seg, 0) {
        if let SimEvent::Datagram { seq, cmd: c, ado, len, .. } = e {
            if is_write_cmd(*c) && (covers(*ado, *len, 0x0010) || covers(*ado, *len, 0x0011)) {
                last_station_write = *seq as i64;
            }
            if first_fp < 0 && matches!(*c, cmd::FPRD | cmd::FPWR | cmd::FPRW) {
                first_fp = *seq as i64;
            }
        }
    }
    out.insert(
        "order".into(),
        json!({"last_station_write": last_station_write, "first_fp_access": first_fp}),
    );
    out.insert("frames".into(), json!(env.seg.frames_processed()));
    if env.seg.log_dropped > 0 {
        out.insert("log_dropped".into(), json!(env.seg.log_dropped));
    }
    out
}
