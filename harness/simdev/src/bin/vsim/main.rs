//! `vsim <engine> <cases.ndjson> <trace.ndjson> [seed]`
//!
//! Executes one JSON case per input line against a fresh simulated segment and a fresh ethercrab
//! `MainDevice` and writes one JSON line per case. Engines: `init`, `alstate`, `wkc`
//! (see /tmp/simnet/ENGINES1.md for the formats).

mod alstate;
mod common;
mod init;
mod wkc;

use serde_json::{Value, json};
use std::io::{BufRead, BufReader, BufWriter, Write};
use std::panic::{AssertUnwindSafe, catch_unwind};

fn contains_null(v: &Value) -> bool {
    match v {
        Value::Null => true,
        Value::Array(a) => a.iter().any(contains_null),
        Value::Object(o) => o.values().any(contains_null),
        _ => false,
    }
}

fn strip_nulls(v: &mut Value) {
    match v {
        Value::Array(a) => {
            for x in a.iter_mut() {
                if x.is_null() {
                    *x = json!("");
                }
                strip_nulls(x);
            }
        }
        Value::Object(o) => {
            o.retain(|_, x| !x.is_null());
            for x in o.values_mut() {
                strip_nulls(x);
            }
        }
        _ => {}
    }
}

fn real_main() -> i32 {
    let args: Vec<String> = std::env::args().collect();
    if args.len() < 4 {
        eprintln!("usage: vsim <init|alstate|wkc> <cases.ndjson> <trace.ndjson> [seed]");
        return 2;
    }
    let engine: fn(&Value, u64) -> common::Obj = match args[1].as_str() {
        "init" => init::run,
        "alstate" => alstate::run,
        "wkc" => wkc::run,
        other => {
            eprintln!("unknown engine {other}");
            return 2;
        }
    };
    let seed: u64 = args.get(4).and_then(|s| s.parse().ok()).unwrap_or(1);
    let input = match std::fs::File::open(&args[2]) {
        Ok(f) => BufReader::new(f),
        Err(e) => {
            eprintln!("cannot open {}: {e}", args[2]);
            return 2;
        }
    };
    let mut output = match std::fs::File::create(&args[3]) {
        Ok(f) => BufWriter::new(f),
        Err(e) => {
            eprintln!("cannot create {}: {e}", args[3]);
            return 2;
        }
    };

    common::install_panic_hook();
    let mut n = 0usize;
    for line in input.lines() {
        let Ok(line) = line else { break };
        if line.trim().is_empty() {
            continue;
        }
        n += 1;
        let mut result: Value = match serde_json::from_str::<Value>(&line) {
            Err(e) => json!({"case": line, "result": "badcase", "detail": e.to_string()}),
            Ok(mut case) => {
                strip_nulls(&mut case);
                // Last line of defence; the engines guard the code under test themselves.
                match catch_unwind(AssertUnwindSafe(|| engine(&case, seed))) {
                    Ok(obj) => Value::Object(obj),
                    Err(_) => json!({"case": case, "result": "panic", "panic": common::take_panic_message()}),
                }
            }
        };
        if contains_null(&result) {
            strip_nulls(&mut result);
        }
        if writeln!(output, "{result}").is_err() {
            return 1;
        }
    }
    let _ = output.flush();
    eprintln!("vsim {}: {n} cases", args[1]);
    0
}

fn main() {
    // ethercrab's futures can be large (SDO information needs ~400 KiB): run on a big stack.
    let code = std::thread::Builder::new()
        .stack_size(512 << 20)
        .spawn(real_main)
        .expect("spawn worker")
        .join()
        .unwrap_or(1);
    std::process::exit(code);
}
