//! Engine `coe`: SDO transfers against the simulated CoE server and scripted hostile replies.
//! See ENGINES2.md. Network: device 0 = coupler, device 1 = CoE device (address 0x1001) in PRE-OP.
//!
//! Output fields:
//!
//! * `"op": "transfer"`: `"result"` (+ error extras: `"abort_code"` limbs, `"abort_name"`,
//!   `"address"`, `"sub_index"`, `"error_code"`, `"error_register"`, `"mailbox"`, `"detail"`),
//!   `"value"` (returned bytes; reads only), `"value_len"`, `"server_od_after": [{"sub", "bytes"}]`
//!   (writes: every sub-index of the object), `"mailbox_log": [{"dir": "in"|"out", "bytes"}]`,
//!   `"counters"` (mailbox counter of each request), `"reply_counters"`, `"frames"`, `"virtual_us"`,
//!   `"stage": "init"` if the network could not be initialised.
//! * `"op": "hostile"`: `"result"`, `"value"`, `"frames"`, `"virtual_us"`, `"canary_seen"`,
//!   `"replies_used"`, `"mailbox_log"`.

use crate::common::*;
use ethercrab::{ObjectDescriptionListQuery, SubIndex, error::Error};
use serde_json::{Value, json};
use simdev::coe::{MbxDir, SdoInject, SegmentQuirks, UploadMode};
use simdev::devices;
use simdev::sii_image::DeviceDescription;
use simdev::simnet::{DcKind, Segment};
use simdev::simrun;

const MBX_OUT: u16 = 0x1000;
const MBX_IN: u16 = 0x1400;

/// `mailbox_size`: the device's send mailbox (responses); `write_size`: its receive mailbox (requests).
fn coe_desc(mailbox_size: u16, write_size: u16) -> DeviceDescription {
    let mut d = devices::coe_device("X");
    apply_tag(&mut d, 1, true);
    if let Some(m) = d.mailbox.as_mut() {
        m.recv_offset = MBX_OUT;
        m.recv_size = write_size;
        m.send_offset = MBX_IN;
        m.send_size = mailbox_size;
        m.bootstrap = [MBX_OUT, write_size, MBX_IN, mailbox_size];
    }
    d.sync_managers[0].start = MBX_OUT;
    d.sync_managers[0].length = write_size;
    d.sync_managers[1].start = MBX_IN;
    d.sync_managers[1].length = mailbox_size;
    d.sync_managers[2].start = 0x1800;
    d.sync_managers[3].start = 0x1880;
    d
}

fn make(case: &Value) -> Result<Env, Obj> {
    let size = get_u64(case, "mailbox_size", 128);
    // scripted (hostile) replies need no working CoE server: any mailbox that can hold a header will do
    let min = if get_str(case, "op", "") == "hostile" { 6 } else { 16 };
    if !(min..=1024).contains(&size) {
        return Err(unsupported(case, "mailbox_size must be 16..=1024 (6..=1024 for scripted replies)"));
    }
    // "write_mailbox_size": the receive mailbox may have another size than the send mailbox
    let wsize = get_u64(case, "write_mailbox_size", size).clamp(16, 1024);
    let desc = coe_desc(size as u16, wsize as u16);
    let dut = build_device("dut", &desc, DcKind::None, false);
    let seg = Segment::line(vec![coupler_device(), dut]);
    make_env(seg, 8, 1100, default_timeouts()).ok_or_else(|| unsupported(case, "storage"))
}

fn mailbox_log(env: &Env, out: &mut Obj) {
    let Some(mb) = env.seg.device(1).mailbox.as_ref() else { return };
    out.insert(
        "mailbox_log".into(),
        Value::Array(
            mb.log
                .iter()
                .map(|(d, m)| json!({"dir": if *d == MbxDir::In { "in" } else { "out" }, "bytes": bytes(m)}))
                .collect(),
        ),
    );
    let cnt = |dir: MbxDir| -> Vec<u8> {
        mb.log
            .iter()
            .filter(|(d, _)| *d == dir)
            .map(|(_, m)| m.get(5).map(|b| b >> 4).unwrap_or(0))
            .collect()
    };
    out.insert("counters".into(), json!(cnt(MbxDir::In)));
    out.insert("reply_counters".into(), json!(cnt(MbxDir::Out)));
}

/// Record the outcome of a call that returns bytes on success.
fn put_value(out: &mut Obj, p: Phase<Result<Vec<u8>, Error>>) -> Option<Vec<u8>> {
    let v = put_phase(out, "", p);
    if let Some(v) = &v {
        out.insert("value".into(), bytes(v));
        out.insert("value_len".into(), json!(v.len()));
    }
    v
}

macro_rules! read_int {
    ($env:expr, $sd:expr, $t:ty, $index:expr, $sub:expr) => {
        $env.run(async { $sd.sdo_read::<$t>($index, $sub).await.map(|v| v.to_le_bytes().to_vec()) })
    };
}
macro_rules! read_arr {
    ($env:expr, $sd:expr, $n:literal, $index:expr, $sub:expr) => {
        $env.run(async { $sd.sdo_read::<[u8; $n]>($index, $sub).await.map(|v| v.to_vec()) })
    };
}
macro_rules! read_str {
    ($env:expr, $sd:expr, $n:literal, $index:expr, $sub:expr) => {
        $env.run(async { $sd.sdo_read::<heapless::String<$n>>($index, $sub).await.map(|v| v.as_bytes().to_vec()) })
    };
}
macro_rules! read_array {
    ($env:expr, $sd:expr, $t:ty, $index:expr) => {
        $env.run(async {
            $sd.sdo_read_array::<$t, 16>($index)
                .await
                .map(|v| v.iter().flat_map(|x| x.to_le_bytes()).collect::<Vec<u8>>())
        })
    };
}

fn od_object(env: &Env, index: u16) -> Value {
    let coe = env.seg.device(1).mailbox.as_ref().and_then(|m| m.coe.as_ref());
    match coe {
        Some(c) => Value::Array(
            c.od.range((index, 0)..=(index, 255))
                .map(|((_, s), v)| json!({"sub": s, "bytes": bytes(v)}))
                .collect(),
        ),
        None => json!([]),
    }
}

fn transfer(case: &Value, out: &mut Obj) -> Result<(), Obj> {
    let mut env = make(case)?;
    let md = env.md;
    let p = env.run(md.init_single_group::<16, 64>(simrun::now_ns));
    let Some(group) = put_phase(out, "", p) else {
        out.insert("stage".into(), json!("init"));
        return Ok(());
    };
    let Ok(sd) = group.subdevice(md, 1) else {
        out.insert("result".into(), json!("err:NotFound"));
        out.insert("stage".into(), json!("init"));
        return Ok(());
    };

    let index = get_u64(case, "index", 0x2100) as u16;
    let sub = get_u64(case, "sub", 0) as u8;
    let object = get_bytes(case, "object").unwrap_or_default();
    if object.len() > 512 {
        return Err(unsupported(case, "object longer than 512 bytes"));
    }
    let dir = get_str(case, "dir", "read");
    let read_as = get_str(case, "read_as", "raw_vec");
    let complete = get_bool(case, "complete", false);
    let elem = match read_as {
        "u8" => 1usize,
        "u32" => 4,
        "u64" => 8,
        _ => 2,
    };

    // Server side set-up
    {
        let mb = env.seg.device_mut(1).mailbox_mut();
        mb.log.clear();
        let coe = mb.coe_mut();
        coe.od.retain(|(i, _), _| *i != index);
        if dir == "read_array" || dir == "write_array" {
            let n = object.len() / elem;
            coe.set_u8(index, 0, n.min(255) as u8);
            for (k, c) in object.chunks_exact(elem).enumerate().take(255) {
                coe.set(index, (k + 1) as u8, c.to_vec());
            }
        } else if complete {
            coe.set_u8(index, 0, 1);
            coe.set(index, 1, object.clone());
        } else {
            // "object_sub": store the object under another sub-index than the one accessed
            coe.set(index, get_u64(case, "object_sub", u64::from(sub)) as u8, object.clone());
        }
        coe.upload_mode = match get_str(case, "mode", "auto") {
            "normal" => UploadMode::ForceNormal,
            "segmented" => UploadMode::ForceSegmented {
                seg_sizes: get_array(case, "seg_sizes").iter().map(|x| num(x).unwrap_or(7) as usize).collect(),
            },
            _ => UploadMode::Auto,
        };
        coe.segment_quirks =
            if get_bool(case, "compat", false) { SegmentQuirks::ethercrab_compat() } else { SegmentQuirks::default() };
        let inject = get_str(case, "inject", "none");
        if let Some(code) = inject.strip_prefix("abort:") {
            let code = code.trim();
            let code = code
                .strip_prefix("0x")
                .map(|h| u32::from_str_radix(h, 16).unwrap_or(0x0800_0000))
                .unwrap_or_else(|| code.parse().unwrap_or(0x0800_0000));
            coe.inject = Some(SdoInject::Abort(code));
        } else {
            match inject {
                "wrong_index" => coe.inject = Some(SdoInject::WrongIndex),
                "wrong_sub" => coe.inject = Some(SdoInject::WrongSub),
                "emergency" => {
                    mb.pending_emergency = Some((
                        get_u64(case, "emergency_code", 0x8130) as u16,
                        get_u64(case, "emergency_register", 0x11) as u8,
                        [1, 2, 3, 4, 5],
                    ));
                    mb.emergency_replaces_reply = false;
                }
                "emergency_only" => {
                    mb.pending_emergency = Some((0x8130, 0x11, [1, 2, 3, 4, 5]));
                    mb.emergency_replaces_reply = true;
                }
                _ => {}
            }
        }
        if get_bool(case, "stale_out_mailbox", false) {
            // An old, never fetched expedited upload response of another object (0x1018:01).
            let stale = vec![0x0A, 0, 0, 0, 0, 0x73, 0x00, 0x30, 0x43, 0x18, 0x10, 0x01, 0xDE, 0xC0, 0xAD, 0x0B];
            mb.out_queue.push_back(stale);
        }
    }

    let sub_arg: SubIndex = if complete { SubIndex::Complete } else { SubIndex::Index(sub) };
    let frames0 = env.frames;
    let log0 = env.seg.log.len();
    let t0 = simrun::now_us();
    match dir {
        "read" => {
            let p = match read_as {
                "u8" => read_int!(env, sd, u8, index, sub_arg),
                "u16" => read_int!(env, sd, u16, index, sub_arg),
                "u32" => read_int!(env, sd, u32, index, sub_arg),
                "u64" => read_int!(env, sd, u64, index, sub_arg),
                "arr4" => read_arr!(env, sd, 4, index, sub_arg),
                "arr16" => read_arr!(env, sd, 16, index, sub_arg),
                "arr64" => read_arr!(env, sd, 64, index, sub_arg),
                // fixed arrays of multi-byte items (destination of items * width bytes)
                "a16x4" => env.run(async {
                    sd.sdo_read::<[u16; 4]>(index, sub_arg).await.map(|v| v.iter().flat_map(|x| x.to_le_bytes()).collect::<Vec<u8>>())
                }),
                "a32x3" => env.run(async {
                    sd.sdo_read::<[u32; 3]>(index, sub_arg).await.map(|v| v.iter().flat_map(|x| x.to_le_bytes()).collect::<Vec<u8>>())
                }),
                "a64x2" => env.run(async {
                    sd.sdo_read::<[u64; 2]>(index, sub_arg).await.map(|v| v.iter().flat_map(|x| x.to_le_bytes()).collect::<Vec<u8>>())
                }),
                "str32" => read_str!(env, sd, 32, index, sub_arg),
                "str128" => read_str!(env, sd, 128, index, sub_arg),
                "raw_vec" => env.run(async {
                    sd.sdo_read::<heapless::Vec<u8, 512>>(index, sub_arg).await.map(|v| v.to_vec())
                }),
                _ => return Err(unsupported(case, "unknown read_as")),
            };
            put_value(out, p);
        }
        "read_array" if get_u64(case, "array_cap", 16) == 255 => {
            // the largest list a sub-index 0 can announce
            let p = match read_as {
                "u8" => env.run(async { sd.sdo_read_array::<u8, 255>(index).await.map(|v| v.to_vec()) }),
                _ => env.run(async {
                    sd.sdo_read_array::<u16, 255>(index)
                        .await
                        .map(|v| v.iter().flat_map(|x| x.to_le_bytes()).collect::<Vec<u8>>())
                }),
            };
            put_value(out, p);
        }
        "read_array" => {
            let p = match read_as {
                "u8" => read_array!(env, sd, u8, index),
                "u32" => read_array!(env, sd, u32, index),
                "u64" => read_array!(env, sd, u64, index),
                _ => read_array!(env, sd, u16, index),
            };
            put_value(out, p);
        }
        "write" => {
            let value = get_bytes(case, "value").unwrap_or_default();
            let p = env.run(sd.sdo_write(index, sub_arg, value.as_slice()));
            put_phase(out, "", p);
            out.insert("server_od_after".into(), od_object(&env, index));
        }
        "write_array" => {
            let value = get_bytes(case, "value").unwrap_or_default();
            let p = match elem {
                1 => env.run(sd.sdo_write_array(index, value.clone())),
                4 => {
                    let v: Vec<u32> = value.chunks_exact(4).map(|c| u32::from_le_bytes([c[0], c[1], c[2], c[3]])).collect();
                    env.run(sd.sdo_write_array(index, v))
                }
                8 => {
                    let v: Vec<u64> =
                        value.chunks_exact(8).map(|c| u64::from_le_bytes(c.try_into().unwrap_or([0; 8]))).collect();
                    env.run(sd.sdo_write_array(index, v))
                }
                _ => {
                    let v: Vec<u16> = value.chunks_exact(2).map(|c| u16::from_le_bytes([c[0], c[1]])).collect();
                    env.run(sd.sdo_write_array(index, v))
                }
            };
            put_phase(out, "", p);
            out.insert("server_od_after".into(), od_object(&env, index));
        }
        _ => return Err(unsupported(case, "dir must be read, write, read_array or write_array")),
    }
    out.insert("frames".into(), json!(env.frames - frames0));
    out.insert("virtual_us".into(), json!((simrun::now_us() - t0).min(0x7FFF_FFFF)));
    mailbox_log(&env, out);
    wire_log(&env, log0, out);
    Ok(())
}

/// Datagrams addressed to the device under test since `from`: `[cmd, ado, len, wkc]`.
fn wire_log(env: &Env, from: usize, out: &mut Obj) {
    let dut = env.seg.device(1).station_address();
    let wire: Vec<Value> = env
        .seg
        .log
        .iter()
        .skip(from)
        .filter_map(|e| match e {
            simdev::simnet::SimEvent::Datagram { cmd, adp, ado, len, wkc, .. } if *adp == dut => {
                Some(json!([cmd, ado, len, wkc]))
            }
            _ => None,
        })
        .take(4000)
        .collect();
    out.insert("wire".into(), Value::Array(wire));
}

fn has_run(data: &[u8], byte: u8, n: usize) -> bool {
    let mut run = 0;
    for b in data {
        if *b == byte {
            run += 1;
            if run >= n {
                return true;
            }
        } else {
            run = 0;
        }
    }
    false
}

/// `"op": "info_list"`: the object dictionary list of a conforming server with `"objects"` entries
/// (indices 0x2000 ..), fetched with `sdo_info_object_description_list(All)`; `"value"` = the indices
/// returned (little endian), `"od_indices"` = what the server holds, `"mailbox_log"`.
fn info_list(case: &Value, out: &mut Obj) -> Result<(), Obj> {
    let mut env = make(case)?;
    let md = env.md;
    let p = env.run(md.init_single_group::<16, 64>(simrun::now_ns));
    let Some(group) = put_phase(out, "", p) else {
        out.insert("stage".into(), json!("init"));
        return Ok(());
    };
    let Ok(sd) = group.subdevice(md, 1) else {
        out.insert("result".into(), json!("err:NotFound"));
        return Ok(());
    };
    let n = get_u64(case, "objects", 10).min(2000) as u16;
    {
        let mb = env.seg.device_mut(1).mailbox_mut();
        let coe = mb.coe_mut();
        for k in 0..n {
            coe.set(0x2000 + k, 0, vec![k as u8]);
        }
        mb.log.clear();
    }
    let p = env.run(async {
        sd.sdo_info_object_description_list(ObjectDescriptionListQuery::All)
            .await
            .map(|v| v.map(|v| v.iter().flat_map(|x| x.to_le_bytes()).collect::<Vec<u8>>()).unwrap_or_default())
    });
    put_value(out, p);
    let mut all: Vec<u16> = env.seg.device(1).mailbox.as_ref().and_then(|m| m.coe.as_ref()).map(|c| c.od.keys().map(|(i, _)| *i).collect()).unwrap_or_default();
    all.dedup();
    out.insert("od_indices".into(), json!(all));
    mailbox_log(&env, out);
    Ok(())
}

fn hostile(case: &Value, out: &mut Obj) -> Result<(), Obj> {
    let mut env = make(case)?;
    let md = env.md;
    let p = env.run(md.init_single_group::<16, 64>(simrun::now_ns));
    let Some(group) = put_phase(out, "", p) else {
        out.insert("stage".into(), json!("init"));
        return Ok(());
    };
    let Ok(sd) = group.subdevice(md, 1) else {
        out.insert("result".into(), json!("err:NotFound"));
        out.insert("stage".into(), json!("init"));
        return Ok(());
    };
    let fill = get_u64(case, "fill", 0xA5) as u8;
    let replies: Vec<Vec<u8>> = get_array(case, "replies")
        .iter()
        .map(|r| r.as_array().map(|a| a.iter().map(|x| x.as_u64().unwrap_or(0) as u8).collect()).unwrap_or_default())
        .collect();
    {
        let mb = env.seg.device_mut(1).mailbox_mut();
        mb.log.clear();
        mb.fill_byte = fill;
        mb.scripted_replies = replies.iter().cloned().collect();
        mb.scripted_repeat_last = get_bool(case, "repeat_last", false);
        mb.scripted_burst = get_bool(case, "burst", false);
        mb.scripted_endless = get_bool(case, "endless", false);
    }
    let frames0 = env.frames;
    let t0 = simrun::now_us();
    let entry = get_str(case, "entry", "sdo_read_u32");
    let p: Phase<Result<Vec<u8>, Error>> = match entry {
        "sdo_read_u32" => read_int!(env, sd, u32, 0x2000, 0u8),
        "sdo_read_arr16" => read_arr!(env, sd, 16, 0x1008, 0u8),
        "sdo_read_str" => read_str!(env, sd, 32, 0x1008, 0u8),
        "sdo_read_array" => read_array!(env, sd, u16, 0x1C13),
        "sdo_write" => env.run(async { sd.sdo_write(0x2001, 0u8, 0xBEEFu16).await.map(|_| Vec::new()) }),
        "sdo_info_list" => env.run(async {
            sd.sdo_info_object_description_list(ObjectDescriptionListQuery::All)
                .await
                .map(|v| v.map(|v| v.iter().flat_map(|x| x.to_le_bytes()).collect::<Vec<u8>>()).unwrap_or_default())
        }),
        "sdo_info_quantities" => env.run(async {
            sd.sdo_info_object_quantities().await.map(|v| v.map(|q| format!("{q:?}").into_bytes()).unwrap_or_default())
        }),
        "sdo_write_array" => {
            env.run(async { sd.sdo_write_array(0x1C12, [0x1600u16, 0x1601, 0x1602]).await.map(|_| Vec::new()) })
        }
        "sdo_read_array255" => env.run(async {
            sd.sdo_read_array::<u16, 255>(0x1C13)
                .await
                .map(|v| v.iter().flat_map(|x| x.to_le_bytes()).collect::<Vec<u8>>())
        }),
        _ => return Err(unsupported(case, "unknown entry")),
    };
    let value = put_value(out, p);
    out.insert("frames".into(), json!(env.frames - frames0));
    out.insert("virtual_us".into(), json!((simrun::now_us() - t0).min(0x7FFF_FFFF)));
    let left = env.seg.device(1).mailbox.as_ref().map(|m| m.scripted_replies.len()).unwrap_or(0);
    out.insert("replies_used".into(), json!(replies.len() - left.min(replies.len())));
    // A run of >= 4 fill bytes in the returned value that no reply contains within its declared
    // length (mailbox header length field + 6) means bytes from behind the message leaked out.
    let mbx_size = get_u64(case, "mailbox_size", 128) as usize;
    let declared_has_run = replies.iter().any(|r| {
        // What the read mailbox holds: the reply, then fill bytes up to the mailbox size.
        let mut full = r.clone();
        full.truncate(mbx_size);
        full.resize(mbx_size, fill);
        let declared = full.get(0..2).map(|l| usize::from(u16::from_le_bytes([l[0], l[1]])) + 6).unwrap_or(0);
        has_run(&full[..declared.min(full.len())], fill, 4)
    });
    let canary = value.as_deref().is_some_and(|v| has_run(v, fill, 4)) && !declared_has_run;
    out.insert("canary_seen".into(), json!(canary));
    mailbox_log(&env, out);
    Ok(())
}

pub fn run(case: &Value, _seed: u64) -> Obj {
    let mut out = Obj::new();
    out.insert("case".into(), case.clone());
    let r = match get_str(case, "op", "") {
        "transfer" => transfer(case, &mut out),
        "hostile" => hostile(case, &mut out),
        "info_list" => info_list(case, &mut out),
        _ => Err(unsupported(case, "op must be transfer, hostile or info_list")),
    };
    match r {
        Ok(()) => out,
        Err(o) => o,
    }
}
