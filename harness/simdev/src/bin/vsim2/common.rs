#![allow(dead_code)]
//! Shared helpers of the `vsim2` engines: JSON conventions, guarded execution of code under test,
//! storage shape table, device construction from case descriptions.
//!
//! JSON conventions (ENGINES1.md / ENGINES2.md): no `null`, numbers fit into i32, wider values are
//! arrays of 16 bit limbs (least significant first), bytes are arrays of 0..255, errors are
//! `"err:<Variant>"`. Every numeric input may be given either as a plain number or as limbs.

use ethercrab::{MainDevice, MainDeviceConfig, RetryBehaviour, Timeouts, error::Error};
use serde_json::{Map, Value, json};
use simdev::coe::{CoeServer, Mailbox};
use simdev::devices::{self, BuildOptions};
use simdev::sii_image::{
    self, DeviceDescription, MailboxDesc, PdoDesc, PdoEntryDesc, SmDesc, coe_details, fmmu_usage, proto, sm_usage,
};
use simdev::simnet::{CapturedFrame, DcKind, Device, EscInfo, Segment, cmd, parse_datagrams};
use simdev::simrun::{self, Limits, MultiConfig, MultiOutcome, Net, RunOutcome, SimConfig, Task};
use std::future::Future;
use std::panic::{AssertUnwindSafe, catch_unwind};
use std::sync::Mutex;
use std::time::Duration;

pub type Obj = Map<String, Value>;

static LAST_PANIC: Mutex<String> = Mutex::new(String::new());

/// Silence the default panic output and remember message + location of the last panic.
pub fn install_panic_hook() {
    std::panic::set_hook(Box::new(|info| {
        let msg = info
            .payload()
            .downcast_ref::<String>()
            .cloned()
            .or_else(|| info.payload().downcast_ref::<&str>().map(|s| s.to_string()))
            .unwrap_or_else(|| "panic".to_string());
        let loc = info
            .location()
            .map(|l| format!(" @ {}:{}", l.file(), l.line()))
            .unwrap_or_default();
        if let Ok(mut g) = LAST_PANIC.lock() {
            *g = format!("{msg}{loc}");
        }
    }));
}

pub fn take_panic_message() -> String {
    LAST_PANIC.lock().map(|mut g| std::mem::take(&mut *g)).unwrap_or_default()
}

/// Outcome of one guarded phase.
pub enum Phase<T> {
    Done(T),
    Hang,
    Budget,
    Panic(String),
}

impl<T> Phase<T> {
    pub fn failure(&self) -> Option<(&'static str, String)> {
        match self {
            Phase::Done(_) => None,
            Phase::Hang => Some(("hang", String::new())),
            Phase::Budget => Some(("budget", String::new())),
            Phase::Panic(m) => Some(("panic", m.clone())),
        }
    }
}

pub fn limits() -> Limits {
    Limits {
        max_frames: 400_000,
        max_virtual_us: 120_000_000,
    }
}

/// Everything a case runs against.
pub struct Env {
    pub seg: Segment,
    pub net: Net,
    pub md: &'static MainDevice<'static>,
    pub sim: SimConfig,
    /// Frames sent by all `run` calls so far.
    pub frames: u64,
}

impl Env {
    /// Run a future of the code under test: panics, hangs and exhausted budgets are reported.
    pub fn run<F: Future>(&mut self, fut: F) -> Phase<F::Output> {
        self.run_with(fut, limits())
    }

    pub fn run_with<F: Future>(&mut self, fut: F, limits: Limits) -> Phase<F::Output> {
        let Env { seg, net, sim, .. } = self;
        let before = seg.frames_processed();
        let r = catch_unwind(AssertUnwindSafe(|| {
            simrun::block_on_with(fut, &mut net.tx, &mut net.rx, seg, limits, *sim)
        }));
        self.frames += self.seg.frames_processed() - before;
        match r {
            Ok(RunOutcome::Done(v, _)) => Phase::Done(v),
            Ok(RunOutcome::Hang(_)) => Phase::Hang,
            Ok(RunOutcome::Budget(_)) => Phase::Budget,
            Err(_) => Phase::Panic(take_panic_message()),
        }
    }

    /// Run several tasks with the multi task executor.
    pub fn run_tasks(&mut self, tasks: Vec<Task<'_>>, cfg: MultiConfig) -> Phase<MultiOutcome> {
        let Env { seg, net, .. } = self;
        let r = catch_unwind(AssertUnwindSafe(|| {
            simrun::run_tasks(tasks, &mut net.tx, &mut net.rx, seg, limits(), cfg)
        }));
        match r {
            Ok(o) => Phase::Done(o),
            Err(_) => Phase::Panic(take_panic_message()),
        }
    }

    /// Start recording raw frames.
    pub fn capture_start(&mut self) {
        self.seg.capture = Some(Vec::new());
    }

    /// Stop recording and return what was recorded.
    pub fn capture_take(&mut self) -> Vec<CapturedFrame> {
        self.seg.capture.take().unwrap_or_default()
    }
}

pub fn default_timeouts() -> Timeouts {
    Timeouts {
        state_transition: Duration::from_millis(500),
        pdu: Duration::from_millis(2),
        eeprom: Duration::from_millis(10),
        wait_loop_delay: Duration::from_micros(100),
        mailbox_echo: Duration::from_millis(20),
        mailbox_response: Duration::from_millis(50),
    }
}

/// PDU payload sizes (`frame_data`) the storage table supports.
pub const DATA_TABLE: [u64; 20] = [
    30, 31, 32, 33, 34, 36, 40, 44, 48, 50, 52, 56, 60, 64, 96, 128, 256, 512, 1100, 1514,
];
pub const FRAMES_TABLE: [u64; 5] = [1, 2, 4, 8, 16];

macro_rules! storage_table {
    ($frames:expr, $data:expr; [$($n:literal),*]; $datas:tt) => {
        match $frames {
            $( $n => storage_table!(@data $n, $data; $datas), )*
            _ => None,
        }
    };
    (@data $n:literal, $data:expr; [$($d:literal),*]) => {
        match $data {
            $( $d => Some(simrun::leak_storage::<$n, { simrun::element($d) }>()), )*
            _ => None,
        }
    };
}

/// Leaked `PduStorage<frames, PduStorage::element_size(data)>`; `None` if the shape is not in the
/// table.
pub fn make_net(frames: u64, data: u64) -> Option<Net> {
    storage_table!(frames, data; [1, 2, 4, 8, 16];
        [16, 17, 18, 20, 22, 24, 26, 28, 30, 31, 32, 33, 34, 36, 40, 44, 48, 50, 52, 56, 60, 64, 96, 128, 256, 512, 1100, 1514])
}

/// Fresh clock, fresh storage, fresh MainDevice around `seg`. `None`: storage shape not supported.
pub fn make_env(seg: Segment, frames: u64, data: u64, timeouts: Timeouts) -> Option<Env> {
    simrun::reset_clock();
    let mut net = make_net(frames, data)?;
    let md: &'static MainDevice<'static> = Box::leak(Box::new(MainDevice::new(
        net.take_loop(),
        timeouts,
        MainDeviceConfig {
            dc_static_sync_iterations: 10,
            retry_behaviour: RetryBehaviour::None,
        },
    )));
    Some(Env {
        seg,
        net,
        md,
        sim: SimConfig::default(),
        frames: 0,
    })
}

pub fn unsupported(case: &Value, why: &str) -> Obj {
    let mut out = Obj::new();
    out.insert("case".into(), case.clone());
    out.insert("result".into(), json!("unsupported"));
    out.insert("why".into(), json!(why));
    out
}

pub fn badcase(case: &Value, why: &str) -> Obj {
    let mut out = Obj::new();
    out.insert("case".into(), case.clone());
    out.insert("result".into(), json!("badcase"));
    out.insert("why".into(), json!(why));
    out
}

// ---- JSON helpers -------------------------------------------------------------------------------

pub fn limbs16(v: u16) -> Value {
    json!([v])
}

pub fn limbs32(v: u32) -> Value {
    json!([v & 0xFFFF, v >> 16])
}

pub fn limbs64(v: u64) -> Value {
    json!([v & 0xFFFF, (v >> 16) & 0xFFFF, (v >> 32) & 0xFFFF, v >> 48])
}

/// Little endian bytes as 16 bit limbs (an odd trailing byte becomes its own limb).
pub fn limbs_of_bytes(b: &[u8]) -> Value {
    Value::Array(
        b.chunks(2)
            .map(|c| json!(u16::from(c[0]) | (u16::from(*c.get(1).unwrap_or(&0)) << 8)))
            .collect(),
    )
}

pub fn bytes(b: &[u8]) -> Value {
    Value::Array(b.iter().map(|x| json!(*x)).collect())
}

/// A number given as a plain JSON number or as an array of 16 bit limbs (LSB first).
pub fn num(v: &Value) -> Option<u64> {
    match v {
        Value::Number(n) => n.as_u64().or_else(|| n.as_i64().map(|x| x as u64)),
        Value::Array(a) => {
            let mut out = 0u64;
            for (i, l) in a.iter().enumerate().take(4) {
                out |= (l.as_u64()? & 0xFFFF) << (16 * i);
            }
            Some(out)
        }
        Value::Bool(b) => Some(u64::from(*b)),
        _ => None,
    }
}

pub fn get_u64(v: &Value, key: &str, default: u64) -> u64 {
    v.get(key).and_then(num).unwrap_or(default)
}

pub fn get_i64(v: &Value, key: &str, default: i64) -> i64 {
    v.get(key).and_then(|x| x.as_i64()).unwrap_or(default)
}

pub fn get_str<'a>(v: &'a Value, key: &str, default: &'a str) -> &'a str {
    v.get(key).and_then(|x| x.as_str()).unwrap_or(default)
}

pub fn get_bool(v: &Value, key: &str, default: bool) -> bool {
    v.get(key).and_then(|x| x.as_bool()).unwrap_or(default)
}

pub fn get_bytes(v: &Value, key: &str) -> Option<Vec<u8>> {
    let a = v.get(key)?.as_array()?;
    Some(a.iter().map(|x| x.as_u64().unwrap_or(0) as u8).collect())
}

pub fn get_array<'a>(v: &'a Value, key: &str) -> &'a [Value] {
    v.get(key).and_then(|x| x.as_array()).map(|a| a.as_slice()).unwrap_or(&[])
}

/// Debug name of the outermost variant: `Timeout(Pdu)` -> `Timeout`.
pub fn variant_name(dbg: &str) -> String {
    dbg.chars().take_while(|c| c.is_ascii_alphanumeric() || *c == '_').collect()
}

/// Write `"<prefix>result": "err:<Variant>"` plus structured extras.
pub fn put_error(out: &mut Obj, prefix: &str, e: &Error) {
    let dbg = format!("{e:?}");
    out.insert(format!("{prefix}result"), json!(format!("err:{}", variant_name(&dbg))));
    out.insert(format!("{prefix}detail"), json!(dbg));
    match e {
        Error::WorkingCounter { expected, received } => {
            out.insert(format!("{prefix}expected"), json!(expected));
            out.insert(format!("{prefix}received"), json!(received));
        }
        Error::Timeout(k) => {
            out.insert(format!("{prefix}timeout"), json!(variant_name(&format!("{k:?}"))));
        }
        Error::Mailbox(m) => {
            out.insert(format!("{prefix}mailbox"), json!(variant_name(&format!("{m:?}"))));
            use ethercrab::error::MailboxError as M;
            match m {
                M::Aborted { code, address, sub_index } => {
                    out.insert(format!("{prefix}abort_code"), limbs32(u32::from(*code)));
                    out.insert(format!("{prefix}abort_name"), json!(variant_name(&format!("{code:?}"))));
                    out.insert(format!("{prefix}address"), json!(address));
                    out.insert(format!("{prefix}sub_index"), json!(sub_index));
                }
                M::Emergency { error_code, error_register } => {
                    out.insert(format!("{prefix}error_code"), json!(error_code));
                    out.insert(format!("{prefix}error_register"), json!(error_register));
                }
                M::TooLong { address, sub_index } | M::SdoResponseInvalid { address, sub_index } => {
                    out.insert(format!("{prefix}address"), json!(address));
                    out.insert(format!("{prefix}sub_index"), json!(sub_index));
                }
                _ => {}
            }
        }
        Error::Pdu(p) => {
            out.insert(format!("{prefix}pdu"), json!(variant_name(&format!("{p:?}"))));
        }
        Error::Capacity(i) => {
            out.insert(format!("{prefix}item"), json!(variant_name(&format!("{i:?}"))));
        }
        Error::Eeprom(i) => {
            out.insert(format!("{prefix}eeprom"), json!(variant_name(&format!("{i:?}"))));
        }
        Error::SubDevice(c) => {
            out.insert(format!("{prefix}al_status_code"), json!(variant_name(&format!("{c:?}"))));
        }
        Error::PdiTooLong { max_length, desired_length } => {
            out.insert(format!("{prefix}max_length"), json!(*max_length as u64 & 0x7FFF_FFFF));
            out.insert(format!("{prefix}desired_length"), json!(*desired_length as u64 & 0x7FFF_FFFF));
        }
        Error::InvalidState { expected, actual, configured_address } => {
            out.insert(format!("{prefix}expected_state"), json!(format!("{expected:?}")));
            out.insert(format!("{prefix}actual_state"), json!(format!("{actual:?}")));
            out.insert(format!("{prefix}addr"), json!(configured_address));
        }
        _ => {}
    }
}

/// Short result string of a `Result<_, Error>`.
pub fn result_str<T>(r: &Result<T, Error>) -> String {
    match r {
        Ok(_) => "ok".to_string(),
        Err(e) => format!("err:{}", variant_name(&format!("{e:?}"))),
    }
}

/// Write the result of a phase that returned `Result<T, Error>`; returns the value on success.
pub fn put_phase<T>(out: &mut Obj, prefix: &str, p: Phase<Result<T, Error>>) -> Option<T> {
    match p {
        Phase::Done(Ok(v)) => {
            out.insert(format!("{prefix}result"), json!("ok"));
            Some(v)
        }
        Phase::Done(Err(e)) => {
            put_error(out, prefix, &e);
            None
        }
        other => {
            put_failure(out, prefix, &other);
            None
        }
    }
}

/// Write hang / budget / panic of a phase that did not complete.
pub fn put_failure<T>(out: &mut Obj, prefix: &str, p: &Phase<T>) {
    if let Some((r, msg)) = p.failure() {
        out.insert(format!("{prefix}result"), json!(r));
        if r == "panic" {
            out.insert(format!("{prefix}panic"), json!(msg));
        }
    }
}

// ---- frames -------------------------------------------------------------------------------------

/// `{"cmd", "adr", "len", "data_out", "data_in", "wkc"}` for every datagram of a captured frame.
/// A lost frame has `"data_in": []` and `"wkc": -1`.
pub fn frame_json(f: &CapturedFrame) -> Value {
    let req = parse_datagrams(&f.request);
    let resp = f.response.as_deref().map(parse_datagrams);
    Value::Array(
        req.iter()
            .enumerate()
            .map(|(i, d)| {
                let r = resp.as_ref().and_then(|r| r.get(i));
                json!({
                    "cmd": cmd::name(d.cmd),
                    "adr": bytes(&d.adr),
                    "len": d.len,
                    "data_out": bytes(&d.data),
                    "data_in": r.map(|r| bytes(&r.data)).unwrap_or_else(|| json!([])),
                    "wkc": r.map(|r| i64::from(r.wkc)).unwrap_or(-1),
                })
            })
            .collect(),
    )
}

// ---- devices ------------------------------------------------------------------------------------

pub fn dc_kind(s: &str) -> DcKind {
    match s {
        "dc32" => DcKind::Bits32,
        "dc64" => DcKind::Bits64,
        "rxonly" => DcKind::ReceiveTimesOnly,
        _ => DcKind::None,
    }
}

/// Identity and names derived from `tag` as in ENGINES1.md.
pub fn apply_tag(desc: &mut DeviceDescription, tag: u32, named: bool) {
    desc.strings.clear();
    desc.order_idx = 0;
    desc.name_idx = 0;
    desc.group_idx = 0;
    desc.image_idx = 0;
    if named {
        desc.order_idx = desc.add_string(&format!("DEV{tag}"));
        desc.name_idx = desc.add_string(&format!("Device number {tag}"));
    }
    desc.vendor_id = 0x0000_0A00u32.wrapping_add(tag);
    desc.product_id = 0x1000u32.wrapping_add(tag);
    desc.revision = tag;
    desc.serial = 0x5000u32.wrapping_add(tag);
}

/// Split `bits` into entries of 32/16/8/rest bits.
fn split_bits(bits: u64) -> Vec<u8> {
    let mut out = Vec::new();
    let mut left = bits.min(60_000);
    while left > 0 && out.len() < 250 {
        let take = if left >= 32 { 32 } else if left >= 16 { 16 } else if left >= 8 { 8 } else { left };
        out.push(take as u8);
        left -= take;
    }
    out
}

/// `(sm, entry bit lengths)` per PDO from `"tx_pdos"`/`"rx_pdos"` (preferred) or the shorthand
/// `"in_bits"`/`"out_bits"` (a number = total bits split into 32/16/8 bit entries, or a list of entry
/// bit lengths; one PDO on the default sync manager).
fn pdo_specs(v: &Value, list_key: &str, bits_key: &str, default_sm: u8) -> Vec<(u8, Vec<u8>)> {
    if let Some(list) = v.get(list_key).and_then(|x| x.as_array()) {
        return list
            .iter()
            .map(|p| {
                let sm = get_u64(p, "sm", u64::from(default_sm)) as u8;
                let entries = get_array(p, "entries")
                    .iter()
                    .map(|e| num(e).unwrap_or(0).min(255) as u8)
                    .collect();
                (sm, entries)
            })
            .collect();
    }
    match v.get(bits_key) {
        Some(Value::Array(a)) if !a.is_empty() => {
            vec![(default_sm, a.iter().map(|e| num(e).unwrap_or(0).min(255) as u8).collect())]
        }
        Some(x) => match num(x) {
            Some(n) if n > 0 => vec![(default_sm, split_bits(n))],
            _ => vec![],
        },
        None => vec![],
    }
}

/// What a case device looks like on the wire, derived from its description only.
#[derive(Debug, Clone)]
pub struct DeviceLayout {
    pub desc: DeviceDescription,
    pub coe: bool,
    /// `(sm index, physical start, byte length implied by the PDO bit lengths)`.
    pub in_sms: Vec<(u8, u16, u16)>,
    pub out_sms: Vec<(u8, u16, u16)>,
    pub dc: DcKind,
    pub sii8: bool,
    /// `(PDO index, multiplier)` to hand to `set_oversampling` (lengths above already include it).
    pub oversampling: Vec<(u16, u16)>,
}

impl DeviceLayout {
    pub fn expected_in_bytes(&self) -> u32 {
        self.in_sms.iter().map(|s| u32::from(s.2)).sum()
    }
    pub fn expected_out_bytes(&self) -> u32 {
        self.out_sms.iter().map(|s| u32::from(s.2)).sum()
    }
}

/// Build the description of a `pdi`/`tasks` style case device:
/// `{"kind": "dio"|"coe"|"coupler", "tx_pdos": [{"sm", "entries": [bits..]}], "rx_pdos": [..],
///   "in_bits"/"out_bits": shorthand, "fmmu_ex": bool, "dc": "none"|"dc32"|"dc64", "tag", "named",
///   "sii8", "sm_spacing": "spaced"|"packed", "alias"}`.
///
/// Sync managers: `coe` devices have the mailbox on SM0/SM1 (128 bytes each at 0x1000/0x1080);
/// `dio` devices list unused (disabled, zero length) sync managers for the indices no PDO refers to.
/// Every sync manager index named by an RxPDO becomes an output SM, by a TxPDO an input SM; physical
/// areas are allocated from 0x1100 upwards in sync manager index order, each area on the next 0x80
/// boundary behind the previous one (`"spaced"`, default) or directly behind it (`"packed"`).
pub fn device_layout(v: &Value, position: usize) -> Result<DeviceLayout, String> {
    let kind = get_str(v, "kind", "dio");
    let tag = get_u64(v, "tag", position as u64) as u32;
    let coe = kind == "coe";
    let mut desc: DeviceDescription = match kind {
        "coupler" => devices::coupler("X"),
        "coe" => devices::coe_device("X"),
        "dio" => devices::digital_io("X", 0, 0),
        other => return Err(format!("unknown device kind {other}")),
    };
    apply_tag(&mut desc, tag, get_bool(v, "named", true));
    desc.alias = get_u64(v, "alias", 0) as u16;
    let dc = dc_kind(get_str(v, "dc", "none"));
    let sii8 = get_bool(v, "sii8", false);
    if kind == "coupler" {
        return Ok(DeviceLayout { desc, coe: false, in_sms: vec![], out_sms: vec![], dc, sii8, oversampling: vec![] });
    }

    let (def_out, def_in) = (2u8, 3u8);
    let rx = pdo_specs(v, "rx_pdos", "out_bits", def_out);
    let tx = pdo_specs(v, "tx_pdos", "in_bits", def_in);
    let out_set: std::collections::BTreeSet<u8> = rx.iter().map(|p| p.0).collect();
    let in_set: std::collections::BTreeSet<u8> = tx.iter().map(|p| p.0).collect();
    if let Some(both) = out_set.intersection(&in_set).next() {
        return Err(format!("sync manager {both} is used by RxPDOs and TxPDOs"));
    }
    if coe && out_set.iter().chain(in_set.iter()).any(|s| *s < 2) {
        return Err("coe devices use SM0/SM1 for the mailbox; PDOs must name sync managers >= 2".into());
    }
    let max_sm = out_set.iter().chain(in_set.iter()).copied().max();
    if max_sm.is_some_and(|m| m > 15) {
        return Err("sync manager index > 15".into());
    }
    let sm_count = max_sm.map(|m| usize::from(m) + 1).unwrap_or(0).max(if coe { 4 } else { 0 });

    // PDOs
    let mk = |specs: &[(u8, Vec<u8>)], base: u16, obj: u16| -> Vec<PdoDesc> {
        specs
            .iter()
            .enumerate()
            .map(|(n, (sm, entries))| PdoDesc {
                index: base + n as u16,
                sm: *sm,
                sync: 0,
                name_idx: 0,
                flags: 0,
                entries: entries
                    .iter()
                    .enumerate()
                    .map(|(e, bits)| PdoEntryDesc {
                        index: obj + 0x10 * n as u16,
                        sub: (e + 1).min(255) as u8,
                        name_idx: 0,
                        data_type: if *bits == 1 { 0x01 } else { 0x00 },
                        bit_len: *bits,
                        flags: 0,
                    })
                    .collect(),
            })
            .collect()
    };
    desc.rx_pdos = mk(&rx, 0x1600, 0x7000);
    desc.tx_pdos = mk(&tx, 0x1A00, 0x6000);

    // "oversampling": [[pdo index or position ("rx0", "tx1"), multiplier], ..]
    let oversampling: Vec<(u16, u16)> = get_array(v, "oversampling")
        .iter()
        .filter_map(|o| {
            let a = o.as_array()?;
            let mul = num(a.get(1)?)? as u16;
            let idx = match a.first()? {
                Value::String(s) => {
                    let (list, base) = if let Some(n) = s.strip_prefix("rx") { (n, 0x1600u16) } else { (s.strip_prefix("tx")?, 0x1A00u16) };
                    base + list.parse::<u16>().ok()?
                }
                other => num(other)? as u16,
            };
            Some((idx, mul))
        })
        .collect();

    // Sync managers and physical layout
    let packed = get_str(v, "sm_spacing", "spaced") == "packed";
    let mut next: u32 = 0x1100;
    let mut sms = Vec::new();
    let mut in_sms = Vec::new();
    let mut out_sms = Vec::new();
    for k in 0..sm_count {
        let k8 = k as u8;
        if coe && k < 2 {
            sms.push(desc.sync_managers[k].clone());
            continue;
        }
        let is_out = out_set.contains(&k8);
        let is_in = in_set.contains(&k8);
        if !is_out && !is_in {
            sms.push(if coe && k < 4 {
                // keep the stock PD entries of the drive (zero length, never mapped)
                SmDesc { start: next as u16, length: 0, control: if k == 2 { 0x64 } else { 0x20 }, status: 0, enable: 0x01, usage: if k == 2 { sm_usage::PD_OUT } else { sm_usage::PD_IN } }
            } else {
                SmDesc { start: 0, length: 0, control: 0, status: 0, enable: 0, usage: sm_usage::UNUSED }
            });
            continue;
        }
        let bits: u32 = (if is_out { &desc.rx_pdos } else { &desc.tx_pdos })
            .iter()
            .filter(|p| p.sm == k8)
            .map(|p| {
                let mul = oversampling.iter().find(|(i, _)| *i == p.index).map(|(_, m)| u32::from(*m)).unwrap_or(1);
                p.bit_len() * mul
            })
            .sum();
        let len = bits.div_ceil(8).min(0x2000) as u16;
        if next + u32::from(len) > 0x9000 {
            return Err("process data does not fit into the simulated device RAM".into());
        }
        let start = next as u16;
        sms.push(SmDesc {
            start,
            length: len,
            control: if is_out { 0x64 } else { 0x20 },
            status: 0,
            enable: 0x01,
            usage: if is_out { sm_usage::PD_OUT } else { sm_usage::PD_IN },
        });
        if is_out {
            out_sms.push((k8, start, len));
        } else {
            in_sms.push((k8, start, len));
        }
        next += u32::from(len);
        if !packed {
            next = (next + 1).div_ceil(0x80) * 0x80;
        }
    }
    desc.sync_managers = sms;

    // FMMU usage
    if coe {
        let explicit = get_str(v, "fmmus", "single")
            .split_once(',')
            .and_then(|(a, b)| Some((a.trim().parse::<usize>().ok()?, b.trim().parse::<usize>().ok()?)));
        desc.fmmu_usage = if let Some((n_out, n_in)) = explicit {
            // "fmmus": "<outputs>,<inputs>": that many FMMUs per direction, outputs first
            let mut u = vec![fmmu_usage::OUTPUTS; n_out];
            u.extend(std::iter::repeat_n(fmmu_usage::INPUTS, n_in));
            u.push(fmmu_usage::SM_STATUS);
            u
        } else if get_str(v, "fmmus", "single") == "per_sm" {
            // one FMMU per process data sync manager, outputs first
            let mut u = vec![fmmu_usage::OUTPUTS; out_sms.len().max(1)];
            u.extend(std::iter::repeat_n(fmmu_usage::INPUTS, in_sms.len().max(1)));
            u.push(fmmu_usage::SM_STATUS);
            u
        } else {
            vec![fmmu_usage::OUTPUTS, fmmu_usage::INPUTS, fmmu_usage::SM_STATUS]
        };
    } else {
        // ethercrab's EEPROM path uses FMMU[sync manager index]: describe them that way
        desc.fmmu_usage = desc
            .sync_managers
            .iter()
            .map(|s| match s.usage {
                sm_usage::PD_OUT => fmmu_usage::OUTPUTS,
                sm_usage::PD_IN => fmmu_usage::INPUTS,
                _ => fmmu_usage::UNUSED,
            })
            .collect();
    }
    if get_bool(v, "fmmu_ex", false) {
        desc.fmmu_ex = out_sms.iter().chain(in_sms.iter()).map(|s| [0u8, s.0, 0u8]).collect();
    } else {
        desc.fmmu_ex.clear();
    }
    Ok(DeviceLayout { desc, coe, in_sms, out_sms, dc, sii8, oversampling })
}

/// Turn a description into a simulated device (mailbox + CoE server with an object dictionary that
/// matches the description if it lists CoE).
pub fn build_device(label: &str, desc: &DeviceDescription, dc: DcKind, sii8: bool) -> Device {
    let opts = BuildOptions {
        dc_kind: dc,
        sii_read_8: sii8,
        fmmu_count: Some(8),
        sm_count: Some((desc.sync_managers.len() as u8).clamp(8, 16)),
        ram_kb: 32,
        ..Default::default()
    };
    let mut dev = devices::build_device(label, desc, &opts);
    if let Some(mb) = dev.mailbox.as_mut() {
        if let Some(coe) = mb.coe.as_mut() {
            devices::coe_default_od(coe, desc, label);
            devices::od_from_description(coe, desc);
        }
    }
    dev
}

/// A device around an arbitrary EEPROM image. The image is decoded leniently to decide whether the
/// device gets a mailbox / CoE server (so that a plausible image can be taken to OP).
pub fn build_device_from_image(label: &str, image: Vec<u8>, sii8: bool, dc: DcKind) -> Device {
    let decoded = catch_unwind(AssertUnwindSafe(|| sii_image::decode(&image))).ok();
    let info = EscInfo {
        fmmu_count: 8,
        sm_count: 8,
        ram_kb: 32,
        ..EscInfo::default()
    };
    let mut dev = Device::new(label, image, info, dc);
    dev.sii_read_8 = sii8;
    if let Some(desc) = decoded {
        if let Some(mb) = &desc.mailbox {
            if mb.recv_size > 0 || mb.send_size > 0 {
                let coe = (mb.protocols & proto::COE != 0).then(|| {
                    let mut c = CoeServer::new();
                    devices::coe_default_od(&mut c, &desc, label);
                    devices::od_from_description(&mut c, &desc);
                    c
                });
                dev.mailbox = Some(Mailbox::new(coe));
            }
        }
    }
    dev
}

/// Plain coupler used as device 0 of small networks.
pub fn coupler_device() -> Device {
    let mut desc = devices::coupler("EK1100");
    apply_tag(&mut desc, 0, true);
    build_device("coupler", &desc, DcKind::None, false)
}

// ---- DeviceDescription from / to JSON -----------------------------------------------------------

fn strings_idx(desc: &mut DeviceDescription, v: &Value, key: &str) -> u8 {
    match v.get(key) {
        Some(Value::String(s)) => {
            desc.strings.push(s.as_bytes().to_vec());
            desc.strings.len().min(255) as u8
        }
        Some(Value::Array(a)) => {
            desc.strings.push(a.iter().map(|x| x.as_u64().unwrap_or(0) as u8).collect());
            desc.strings.len().min(255) as u8
        }
        _ => 0,
    }
}

fn pdo_from_json(p: &Value, default_index: u16, default_sm: u8, obj: u16) -> PdoDesc {
    let entries = get_array(p, "entries")
        .iter()
        .enumerate()
        .map(|(i, e)| match e {
            Value::Object(_) => PdoEntryDesc {
                index: get_u64(e, "index", u64::from(obj)) as u16,
                sub: get_u64(e, "sub", i as u64 + 1) as u8,
                name_idx: get_u64(e, "name_idx", 0) as u8,
                data_type: get_u64(e, "data_type", 0) as u8,
                bit_len: get_u64(e, "bit_len", 8) as u8,
                flags: get_u64(e, "flags", 0) as u16,
            },
            other => PdoEntryDesc {
                index: obj,
                sub: (i + 1).min(255) as u8,
                name_idx: 0,
                data_type: 0,
                bit_len: num(other).unwrap_or(0).min(255) as u8,
                flags: 0,
            },
        })
        .collect();
    PdoDesc {
        index: get_u64(p, "index", u64::from(default_index)) as u16,
        sm: get_u64(p, "sm", u64::from(default_sm)) as u8,
        sync: get_u64(p, "sync", 0) as u8,
        name_idx: get_u64(p, "name_idx", 0) as u8,
        flags: get_u64(p, "flags", 0) as u16,
        entries,
    }
}

/// `DeviceDescription` from the JSON subset used by the `eeprom` engine. All keys are optional:
///
/// `vendor_id, product_id, revision, serial` (number or limbs), `alias`, `pdi_control`,
/// `order` / `name` / `group` / `image` (strings; order = short name, name = long description),
/// `strings: [extra strings]`, explicit `order_idx, name_idx, group_idx, image_idx` (override),
/// `mailbox: {recv_offset, recv_size, send_offset, send_size, protocols, coe_details}`,
/// `sync_managers: [{start, length, control, enable, usage}]`, `fmmu_usage: [u8]`,
/// `fmmu_ex: [[b0, sm, b2]] or [sm, ..]`, `tx_pdos` / `rx_pdos: [{index, sm, name_idx, entries:
/// [bit_len | {index, sub, bit_len, data_type, name_idx}]}]`, `dc: bool`, `size_kbit`, `version`,
/// `has_general: bool`, `pad_byte`, `extra_categories: [[type, [bytes]]]`,
/// `category_order: ["strings"|"general"|"fmmu"|"syncm"|"fmmu_ex"|"txpdo"|"rxpdo"|"dc"|"extra<i>"]`.
pub fn desc_from_json(v: &Value) -> DeviceDescription {
    let mut d = DeviceDescription {
        vendor_id: get_u64(v, "vendor_id", 0x0A01) as u32,
        product_id: get_u64(v, "product_id", 0x1001) as u32,
        revision: get_u64(v, "revision", 1) as u32,
        serial: get_u64(v, "serial", 0x5001) as u32,
        alias: get_u64(v, "alias", 0) as u16,
        pdi_control: get_u64(v, "pdi_control", 0x0104) as u16,
        pdi_config: get_u64(v, "pdi_config", 0) as u16,
        sync_impulse_len: get_u64(v, "sync_impulse_len", 0) as u16,
        pdi_config2: get_u64(v, "pdi_config2", 0) as u16,
        header_words_5_6: {
            let a = get_array(v, "reserved_words");
            [a.first().and_then(num).unwrap_or(0) as u16, a.get(1).and_then(num).unwrap_or(0) as u16]
        },
        version: get_u64(v, "version", 1) as u16,
        size_kbit: get_u64(v, "size_kbit", 16).clamp(1, 4096) as u32,
        has_general: get_bool(v, "has_general", true),
        pad_byte: get_u64(v, "pad_byte", 0) as u8,
        physical_ports: 0x0033,
        ..Default::default()
    };
    d.order_idx = strings_idx(&mut d, v, "order");
    d.name_idx = strings_idx(&mut d, v, "name");
    d.group_idx = strings_idx(&mut d, v, "group");
    d.image_idx = strings_idx(&mut d, v, "image");
    for s in get_array(v, "strings") {
        match s {
            Value::String(s) => d.strings.push(s.as_bytes().to_vec()),
            Value::Array(a) => d.strings.push(a.iter().map(|x| x.as_u64().unwrap_or(0) as u8).collect()),
            _ => {}
        }
    }
    for (key, field) in [("order_idx", 0usize), ("name_idx", 1), ("group_idx", 2), ("image_idx", 3)] {
        if let Some(x) = v.get(key).and_then(num) {
            match field {
                0 => d.order_idx = x as u8,
                1 => d.name_idx = x as u8,
                2 => d.group_idx = x as u8,
                _ => d.image_idx = x as u8,
            }
        }
    }
    if let Some(m) = v.get("mailbox").filter(|m| m.is_object()) {
        let recv_offset = get_u64(m, "recv_offset", 0x1000) as u16;
        let recv_size = get_u64(m, "recv_size", 128) as u16;
        let send_offset = get_u64(m, "send_offset", 0x1080) as u16;
        let send_size = get_u64(m, "send_size", 128) as u16;
        d.mailbox = Some(MailboxDesc {
            recv_offset,
            recv_size,
            send_offset,
            send_size,
            protocols: get_u64(m, "protocols", u64::from(proto::COE)) as u16,
            coe_details: get_u64(
                m,
                "coe_details",
                u64::from(coe_details::ENABLE_SDO | coe_details::ENABLE_PDO_ASSIGN | coe_details::ENABLE_PDO_CONFIG),
            ) as u8,
            bootstrap: [recv_offset, recv_size, send_offset, send_size],
            ..Default::default()
        });
    }
    d.sync_managers = get_array(v, "sync_managers")
        .iter()
        .map(|s| SmDesc {
            start: get_u64(s, "start", 0x1000) as u16,
            length: get_u64(s, "length", 0) as u16,
            control: get_u64(s, "control", 0) as u8,
            status: get_u64(s, "status", 0) as u8,
            enable: get_u64(s, "enable", 1) as u8,
            usage: get_u64(s, "usage", 0) as u8,
        })
        .collect();
    d.fmmu_usage = get_array(v, "fmmu_usage").iter().map(|x| num(x).unwrap_or(0) as u8).collect();
    d.fmmu_ex = get_array(v, "fmmu_ex")
        .iter()
        .map(|x| match x {
            Value::Array(a) => [
                a.first().and_then(num).unwrap_or(0) as u8,
                a.get(1).and_then(num).unwrap_or(0) as u8,
                a.get(2).and_then(num).unwrap_or(0) as u8,
            ],
            other => [0, num(other).unwrap_or(0) as u8, 0],
        })
        .collect();
    d.tx_pdos = get_array(v, "tx_pdos")
        .iter()
        .enumerate()
        .map(|(n, p)| pdo_from_json(p, 0x1A00 + n as u16, 3, 0x6000 + 0x10 * n as u16))
        .collect();
    d.rx_pdos = get_array(v, "rx_pdos")
        .iter()
        .enumerate()
        .map(|(n, p)| pdo_from_json(p, 0x1600 + n as u16, 2, 0x7000 + 0x10 * n as u16))
        .collect();
    if get_bool(v, "dc", false) {
        d.dc = Some(vec![sii_image::DcDesc {
            assign_activate: 0x0300,
            sync0_cycle_factor: 1,
            ..Default::default()
        }]);
    }
    d.extra_categories = get_array(v, "extra_categories")
        .iter()
        .filter_map(|c| {
            let a = c.as_array()?;
            let ty = num(a.first()?)? as u16;
            let data = a.get(1)?.as_array()?.iter().map(|x| x.as_u64().unwrap_or(0) as u8).collect();
            Some((ty, data))
        })
        .collect();
    if let Some(order) = v.get("category_order").and_then(|o| o.as_array()) {
        use sii_image::CategoryKind as K;
        d.category_order = Some(
            order
                .iter()
                .filter_map(|o| {
                    let s = o.as_str()?;
                    Some(match s {
                        "strings" => K::Strings,
                        "general" => K::General,
                        "fmmu" => K::Fmmu,
                        "syncm" => K::SyncManager,
                        "fmmu_ex" => K::FmmuEx,
                        "txpdo" => K::TxPdo,
                        "rxpdo" => K::RxPdo,
                        "dc" => K::Dc,
                        other => K::Extra(other.strip_prefix("extra")?.parse().ok()?),
                    })
                })
                .collect(),
        );
    }
    d
}

fn string_at(d: &DeviceDescription, idx: u8) -> Value {
    if idx == 0 {
        return json!("");
    }
    match d.strings.get(usize::from(idx) - 1) {
        Some(s) => json!(String::from_utf8_lossy(s)),
        None => json!(""),
    }
}

fn pdo_echo(p: &PdoDesc) -> Value {
    json!({
        "index": p.index,
        "sm": p.sm,
        "name_idx": p.name_idx,
        "num_entries": p.entries.len(),
        "bit_len": p.bit_len(),
        "entries": p.entries.iter().map(|e| json!({
            "index": e.index, "sub": e.sub, "name_idx": e.name_idx, "data_type": e.data_type, "bit_len": e.bit_len,
        })).collect::<Vec<_>>(),
    })
}

/// Canonical values of a description for comparison with a parsed view.
pub fn desc_echo(d: &DeviceDescription) -> Value {
    let mb = d.mailbox.clone().unwrap_or_default();
    json!({
        "vendor_id": limbs32(d.vendor_id),
        "product_id": limbs32(d.product_id),
        "revision": limbs32(d.revision),
        "serial": limbs32(d.serial),
        "alias": d.alias,
        "name": string_at(d, d.order_idx),
        "description": string_at(d, d.name_idx),
        "group": string_at(d, d.group_idx),
        "order_idx": d.order_idx,
        "name_idx": d.name_idx,
        "group_idx": d.group_idx,
        "image_idx": d.image_idx,
        "strings": d.strings.iter().map(|s| json!(String::from_utf8_lossy(s))).collect::<Vec<_>>(),
        "has_general": d.has_general,
        "mailbox": {
            "present": d.mailbox.is_some(),
            "recv_offset": mb.recv_offset, "recv_size": mb.recv_size,
            "send_offset": mb.send_offset, "send_size": mb.send_size,
            "protocols": mb.protocols, "coe_details": mb.coe_details,
        },
        "sync_managers": d.sync_managers.iter().map(|s| json!({
            "start": s.start, "length": s.length, "control": s.control, "enable": s.enable, "usage": s.usage,
        })).collect::<Vec<_>>(),
        "fmmu_usage": d.fmmu_usage,
        "fmmu_ex": d.fmmu_ex.iter().map(|e| json!({"raw": [e[0], e[1], e[2]], "sm": e[1]})).collect::<Vec<_>>(),
        "tx_pdos": d.tx_pdos.iter().map(pdo_echo).collect::<Vec<_>>(),
        "rx_pdos": d.rx_pdos.iter().map(pdo_echo).collect::<Vec<_>>(),
        "size_kbit": d.size_kbit,
        "size_bytes": d.size_kbit * 128,
        "dc": d.dc.is_some(),
    })
}

/// `"image": [bytes]` or `"desc": {..}` of an `eeprom` case: `(image, description if given)`.
pub fn image_of_case(case: &Value) -> Result<(Vec<u8>, Option<DeviceDescription>), String> {
    if let Some(img) = case.get("image") {
        if let Some(a) = img.as_array() {
            return Ok((a.iter().map(|x| x.as_u64().unwrap_or(0) as u8).collect(), None));
        }
        if let Some(d) = img.get("desc") {
            let desc = desc_from_json(d);
            return Ok((sii_image::encode(&desc), Some(desc)));
        }
        // sparse form: {"len": bytes, "fill": byte, "words": [[word address, value], ..], "bytes": [[offset, [..]], ..]}
        if let Some(len) = img.get("len").and_then(|x| x.as_u64()) {
            let fill = img.get("fill").and_then(|x| x.as_u64()).unwrap_or(0xFF) as u8;
            let mut image = vec![fill; len as usize];
            if let Some(ws) = img.get("words").and_then(|x| x.as_array()) {
                for w in ws {
                    let a = w.get(0).and_then(|x| x.as_u64()).unwrap_or(0) as usize * 2;
                    let v = w.get(1).and_then(|x| x.as_u64()).unwrap_or(0) as u16;
                    if a + 1 < image.len() {
                        image[a..a + 2].copy_from_slice(&v.to_le_bytes());
                    }
                }
            }
            if let Some(bs) = img.get("bytes").and_then(|x| x.as_array()) {
                for b in bs {
                    let off = b.get(0).and_then(|x| x.as_u64()).unwrap_or(0) as usize;
                    if let Some(data) = b.get(1).and_then(|x| x.as_array()) {
                        for (i, x) in data.iter().enumerate() {
                            if off + i < image.len() {
                                image[off + i] = x.as_u64().unwrap_or(0) as u8;
                            }
                        }
                    }
                }
            }
            return Ok((image, None));
        }
    }
    if let Some(d) = case.get("desc") {
        let desc = desc_from_json(d);
        return Ok((sii_image::encode(&desc), Some(desc)));
    }
    Err("case has neither \"image\" nor \"desc\"".into())
}
