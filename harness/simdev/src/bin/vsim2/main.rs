//! `vsim2 <engine> <cases.ndjson> <trace.ndjson> [seed]`
//!
//! Executes one JSON case per input line against a fresh simulated segment and a fresh ethercrab
//! `MainDevice` and writes one JSON line per case. Engines: `pdi`, `eeprom`, `coe`, `dc`, `tasks`
//! (see /tmp/simnet2/ENGINES2.md for the formats; common rules in ENGINES1.md).

mod coe;
mod common;
mod dc;
mod eeprom;
mod pdi;
mod tasks;

use serde_json::{Value, json};
use std::io::{BufRead, BufReader, BufWriter, Write};
use std::panic::{AssertUnwindSafe, catch_unwind};

fn contains_null(v: &Value) -> bool {
    match v {
        Value::Null => true,
        Value::Array(a) => a.iter().any(contains_null),
        Value::Object(o) => o.values().any(contains_null),
        _ => false,
    }
}

fn strip_nulls(v: &mut Value) {
    match v {
        Value::Array(a) => {
            for x in a.iter_mut() {
                if x.is_null() {
                    *x = json!("");
                }
                strip_nulls(x);
            }
        }
        Value::Object(o) => {
            o.retain(|_, x| !x.is_null());
            for x in o.values_mut() {
                strip_nulls(x);
            }
        }
        _ => {}
    }
}

type Engine = fn(&Value, u64) -> common::Obj;

/// A worker thread that executes cases. Code under test that spins forever inside a single poll
/// (e.g. a spin lock taken twice on one thread) cannot be interrupted, so the main thread only
/// waits a bounded wall clock time for each case, reports `"result": "hang", "hang_kind": "spin"`
/// and abandons the worker (it keeps spinning until the process exits) for a fresh one.
struct Worker {
    to: std::sync::mpsc::Sender<Value>,
    from: std::sync::mpsc::Receiver<Value>,
}

fn spawn_worker(engine: Engine, seed: u64) -> Worker {
    let (to, rx_case) = std::sync::mpsc::channel::<Value>();
    let (tx_result, from) = std::sync::mpsc::channel::<Value>();
    // ethercrab's futures can be large (SDO information needs ~400 KiB): run on a big stack.
    std::thread::Builder::new()
        .stack_size(1 << 30)
        .spawn(move || {
            while let Ok(case) = rx_case.recv() {
                // Last line of defence; the engines guard the code under test themselves.
                let result = match catch_unwind(AssertUnwindSafe(|| engine(&case, seed))) {
                    Ok(obj) => Value::Object(obj),
                    Err(_) => {
                        json!({"case": case, "result": "panic", "panic": common::take_panic_message(), "where": "engine"})
                    }
                };
                if tx_result.send(result).is_err() {
                    break;
                }
            }
        })
        .expect("spawn worker");
    Worker { to, from }
}

fn real_main() -> i32 {
    let args: Vec<String> = std::env::args().collect();
    if args.len() < 4 {
        eprintln!("usage: vsim2 <pdi|eeprom|coe|dc|tasks> <cases.ndjson> <trace.ndjson> [seed]");
        return 2;
    }
    let engine: Engine = match args[1].as_str() {
        "pdi" => pdi::run,
        "eeprom" => eeprom::run,
        "coe" => coe::run,
        "dc" => dc::run,
        "tasks" => tasks::run,
        other => {
            eprintln!("unknown engine {other}");
            return 2;
        }
    };
    let seed: u64 = args.get(4).and_then(|s| s.parse().ok()).unwrap_or(1);
    let stuck_after = std::time::Duration::from_secs(
        std::env::var("VSIM_STUCK_SECS").ok().and_then(|s| s.parse().ok()).unwrap_or(60),
    );
    let input = match std::fs::File::open(&args[2]) {
        Ok(f) => BufReader::new(f),
        Err(e) => {
            eprintln!("cannot open {}: {e}", args[2]);
            return 2;
        }
    };
    let mut output = match std::fs::File::create(&args[3]) {
        Ok(f) => BufWriter::new(f),
        Err(e) => {
            eprintln!("cannot create {}: {e}", args[3]);
            return 2;
        }
    };

    common::install_panic_hook();
    let mut worker = spawn_worker(engine, seed);
    let mut n = 0usize;
    let mut stuck = 0usize;
    for line in input.lines() {
        let Ok(line) = line else { break };
        if line.trim().is_empty() {
            continue;
        }
        n += 1;
        let mut result: Value = match serde_json::from_str::<Value>(&line) {
            Err(e) => json!({"case": line, "result": "badcase", "why": e.to_string()}),
            Ok(mut case) => {
                strip_nulls(&mut case);
                if worker.to.send(case.clone()).is_err() {
                    worker = spawn_worker(engine, seed);
                    let _ = worker.to.send(case.clone());
                }
                match worker.from.recv_timeout(stuck_after) {
                    Ok(v) => v,
                    Err(_) => {
                        stuck += 1;
                        worker = spawn_worker(engine, seed);
                        json!({
                            "case": case,
                            "result": "hang",
                            "hang_kind": "spin",
                            "why": format!(
                                "no result within {} s of wall clock time: the code under test loops inside a single poll without yielding",
                                stuck_after.as_secs()
                            ),
                        })
                    }
                }
            }
        };
        if contains_null(&result) {
            strip_nulls(&mut result);
        }
        if writeln!(output, "{result}").is_err() {
            return 1;
        }
        let _ = output.flush();
    }
    let _ = output.flush();
    eprintln!("vsim2 {}: {n} cases, {stuck} stuck", args[1]);
    0
}

fn main() {
    // Abandoned (spinning) workers must not keep the process alive.
    std::process::exit(real_main());
}
