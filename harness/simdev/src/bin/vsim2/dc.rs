//! Engine `dc`: topology discovery and propagation delays during `init`. See ENGINES2.md.
//!
//! Case (default kind): `{"devices": [{"dc": "none"|"dc32"|"dc64", "fwd_delay_ns", "tag", "kind"}],
//! "parent": [[-1,-1], [parent index, parent port], ..] (optional: a line on port 1),
//! "link_delay_ns": [..], "now_ns": limbs, "clock_offsets_ns": [limbs ..], "epoch_ns": limbs}`.
//! `"op": "raw_ports"` additionally carries `"dl_status"` and `"port_times"` per device.
//!
//! Output: `"result"` of `init_single_group::<16, 64>`, `"dc_ref"` (configured address of the
//! device the static drift compensation FRMWs were addressed to, -1 if there were none),
//! `"latch_wkc"` (working counter of the BWR to 0x0900, -1 if not sent), `"frames"`, and
//! `"devices"`: per device `{"index", "station", "dc_kind", "dl_status" (register 0x0110 as the
//! device reports it), "reg_0920" (limbs 4), "reg_0928" (limbs 2), "latched": [p0, p1, p2, p3]
//! (limbs 2 each), "rx_time_0918" (limbs 4), "reg_092c" (limbs 2), "propagation_delay" (limbs 2, from
//! `SubDevice::propagation_delay()`, only if init succeeded), "dc_support" (Debug), "true_delay_ns"
//! (limbs 2), "before_ref": bool, "true_parent", "true_parent_port", "ports_open": [bool; 4]}`.
//! For `raw_ports` only `"result"` (+ `"panic"`) and the per device registers are meaningful.

use crate::common::*;
use serde_json::{Value, json};
use simdev::simnet::{DcKind, Segment, SimEvent, cmd};
use std::panic::{AssertUnwindSafe, catch_unwind};

fn kind_name(k: DcKind) -> &'static str {
    match k {
        DcKind::None => "none",
        DcKind::ReceiveTimesOnly => "rxonly",
        DcKind::Bits32 => "dc32",
        DcKind::Bits64 => "dc64",
    }
}

pub fn run(case: &Value, _seed: u64) -> Obj {
    let devs = get_array(case, "devices");
    if devs.is_empty() || devs.len() > 32 {
        return unsupported(case, "1..32 devices are supported (MAX_SUBDEVICES is 32)");
    }
    let raw_ports = get_str(case, "op", "") == "raw_ports";
    let n = devs.len();

    let mut devices = Vec::new();
    for (i, v) in devs.iter().enumerate() {
        let mut spec = v.clone();
        if spec.get("kind").is_none() {
            spec["kind"] = json!("dio");
            if spec.get("in_bits").is_none() && spec.get("tx_pdos").is_none() {
                spec["in_bits"] = json!(8);
            }
            if spec.get("out_bits").is_none() && spec.get("rx_pdos").is_none() {
                spec["out_bits"] = json!(8);
            }
        }
        let layout = match device_layout(&spec, i) {
            Ok(l) => l,
            Err(why) => return unsupported(case, &format!("device {i}: {why}")),
        };
        let mut dev = build_device(&format!("dev{i}"), &layout.desc, layout.dc, layout.sii8);
        dev.fwd_delay_ns = get_u64(v, "fwd_delay_ns", 0);
        if let Some(s) = v.get("dl_status").and_then(num) {
            dev.dl_status_override = Some(s as u16);
        }
        if let Some(t) = v.get("port_times").and_then(|t| t.as_array()) {
            let mut pt = [0u32; 4];
            for (k, x) in t.iter().enumerate().take(4) {
                pt[k] = num(x).unwrap_or(0) as u32;
            }
            dev.port_times_override = Some(pt);
        }
        devices.push(dev);
    }

    // Topology
    let parent: Vec<Option<(usize, u8)>> = match case.get("parent").and_then(|p| p.as_array()) {
        Some(list) => {
            if list.len() != n {
                return badcase(case, "\"parent\" needs one entry per device");
            }
            list.iter()
                .map(|p| {
                    let a = p.get(0).and_then(|x| x.as_i64()).unwrap_or(-1);
                    let b = p.get(1).and_then(|x| x.as_i64()).unwrap_or(-1);
                    (a >= 0 && b >= 0).then_some((a as usize, b as u8))
                })
                .collect()
        }
        None => (0..n).map(|i| if i == 0 { None } else { Some((i - 1, 1u8)) }).collect(),
    };
    let seg = catch_unwind(AssertUnwindSafe(|| Segment::with_topology(devices, parent.clone())));
    let mut seg = match seg {
        Ok(s) => s,
        Err(_) => {
            return badcase(
                case,
                &format!(
                    "topology rejected by the simulator: {} (devices must be listed in frame processing order: a device, then what hangs on its ports 3, 1, 2)",
                    take_panic_message()
                ),
            );
        }
    };
    for i in 0..n {
        seg.link_delay_ns[i] = get_array(case, "link_delay_ns").get(i).and_then(num).unwrap_or(100);
        seg.devices[i].clock_offset_ns = get_array(case, "clock_offsets_ns").get(i).and_then(num).unwrap_or(0);
    }
    let arrivals = seg.outbound_arrival_ns();

    let Some(mut env) = make_env(seg, 8, 1100, default_timeouts()) else {
        return unsupported(case, "storage");
    };
    env.sim.segment_epoch_ns = get_u64(case, "epoch_ns", 0);
    let now_ns = get_u64(case, "now_ns", 0);

    let mut out = Obj::new();
    out.insert("case".into(), case.clone());
    let md = env.md;
    let p = env.run(md.init_single_group::<32, 64>(move || now_ns));
    let group = put_phase(&mut out, "", p);

    // Reference clock as ethercrab chose it, latch working counter
    let mut dc_ref: i64 = -1;
    let mut latch_wkc: i64 = -1;
    for e in &env.seg.log {
        if let SimEvent::Datagram { cmd: c, adp, ado, wkc, .. } = e {
            if *c == cmd::FRMW && *ado == 0x0910 && dc_ref < 0 {
                dc_ref = i64::from(*adp);
            }
            if *c == cmd::BWR && *ado == 0x0900 && latch_wkc < 0 {
                latch_wkc = i64::from(*wkc);
            }
        }
    }
    out.insert("dc_ref".into(), json!(dc_ref));
    out.insert("latch_wkc".into(), json!(latch_wkc));

    let delays: Vec<Option<(u32, String)>> = match &group {
        Some(g) => {
            let mut v: Vec<Option<(u32, String)>> = vec![None; n];
            for sd in g.iter(md) {
                let idx = usize::from(sd.configured_address().wrapping_sub(0x1000));
                if idx < n {
                    v[idx] = Some((sd.propagation_delay(), format!("{:?}", sd.dc_support())));
                }
            }
            v
        }
        None => vec![None; n],
    };

    let first_dc = env.seg.devices.iter().position(|d| d.dc_kind != DcKind::None);
    let t_ref = first_dc.and_then(|r| arrivals[r]);
    let mut dj = Vec::new();
    for i in 0..n {
        let dev = env.seg.device(i);
        let mut o = Obj::new();
        o.insert("index".into(), json!(i));
        o.insert("station".into(), json!(dev.station_address()));
        o.insert("dc_kind".into(), json!(kind_name(dev.dc_kind)));
        o.insert("dl_status".into(), json!(dev.reg_u16(0x0110)));
        o.insert("reg_0920".into(), limbs64(dev.reg_u64(0x0920)));
        o.insert("reg_0928".into(), limbs32(dev.reg_u32(0x0928)));
        o.insert(
            "latched".into(),
            json!([
                limbs32(dev.reg_u32(0x0900)),
                limbs32(dev.reg_u32(0x0904)),
                limbs32(dev.reg_u32(0x0908)),
                limbs32(dev.reg_u32(0x090C))
            ]),
        );
        o.insert("rx_time_0918".into(), limbs64(dev.reg_u64(0x0918)));
        o.insert("reg_092c".into(), limbs32(dev.reg_u32(0x092C)));
        if let Some((d, support)) = &delays[i] {
            o.insert("propagation_delay".into(), limbs32(*d));
            o.insert("dc_support".into(), json!(support));
        }
        let (true_delay, before) = match (arrivals[i], t_ref) {
            (Some(a), Some(r)) if a >= r => ((a - r).min(u64::from(u32::MAX)) as u32, false),
            (Some(_), Some(_)) => (0, true),
            _ => (0, first_dc.is_none_or(|r| i < r)),
        };
        o.insert("true_delay_ns".into(), limbs32(true_delay));
        o.insert("before_ref".into(), json!(before));
        o.insert("true_parent".into(), json!(parent[i].map(|p| p.0 as i64).unwrap_or(-1)));
        o.insert("true_parent_port".into(), json!(parent[i].map(|p| i64::from(p.1)).unwrap_or(-1)));
        o.insert("ports_open".into(), json!(dev.ports_open));
        dj.push(Value::Object(o));
    }
    out.insert("devices".into(), Value::Array(dj));
    out.insert("raw_ports".into(), json!(raw_ports));
    out.insert("frames".into(), json!(env.frames));
    out
}
