//! Engine `tasks`: several tasks share one `MainDevice` on one thread, see ENGINES2.md.
//!
//! The network is initialised (devices as in the `pdi` engine, round robin into `groups` groups of
//! `SubDeviceGroup<16, 256>`), every group is taken to OP, the input process data of every device is
//! set to seeded bytes, then the tasks run under `simrun::run_tasks` (seeded scheduler, seeded
//! response latency, out of order delivery). The same is repeated from scratch with the tasks run
//! alone one after the other (`"solo"`).
//!
//! Output: `"result"` (`"ok"` = executor finished: all tasks done; `"hang"`, `"budget"`, `"panic"`;
//! or the set-up failure with `"stage"`), `"tasks": [{"op", "done": bool, "results": [digest ..]}]`,
//! `"solo": {"result", "tasks": [..same shape..]}`, `"max_in_flight"`, `"frames"`, `"overtakes"`,
//! `"rx_errors"`, `"polls"`, `"virtual_us"`, `"panic"`. A digest is `{"r": result string, "wkc"
//! (tx_rx only), "bytes": returned bytes (tx_rx: the inputs of all SubDevices of the group),
//! "detail": Debug of the error (errors only)}`.

use crate::common::*;
use ethercrab::subdevice_group::Op;
use ethercrab::{DefaultLock, MainDevice, SubDeviceGroup, error::Error};
use serde_json::{Value, json};
use simdev::rng::Rng;
use simdev::simnet::Segment;
use simdev::simrun::{self, MultiConfig, MultiOutcome, Task};
use std::cell::RefCell;
use std::rc::Rc;

const MAX_SD: usize = 16;
const MAX_PDI: usize = 256;
type Md = &'static MainDevice<'static>;
type OpGroup = SubDeviceGroup<MAX_SD, MAX_PDI, DefaultLock, Op>;

fn err_str(e: &Error) -> String {
    format!("err:{}", variant_name(&format!("{e:?}")))
}

struct Setup {
    env: Env,
    groups: Vec<OpGroup>,
    /// ring index -> (group, index within group)
    place: Vec<(usize, usize)>,
    /// the input process data the devices of each group hold (ground truth of the simulator)
    group_inputs: Vec<Vec<u8>>,
}

fn setup(case: &Value, seed: u64) -> Result<Setup, Obj> {
    let devs = get_array(case, "devices");
    if devs.is_empty() || devs.len() > MAX_SD {
        return Err(unsupported(case, "1..16 devices are supported"));
    }
    let mut layouts = Vec::new();
    for (i, v) in devs.iter().enumerate() {
        match device_layout(v, i) {
            Ok(mut l) => {
                // "mailbox_size": a CoE device with smaller mailboxes (long objects then take many segments)
                let mbx = get_u64(v, "mailbox_size", 0) as u16;
                if l.coe && (16..=128).contains(&mbx) {
                    if let Some(m) = l.desc.mailbox.as_mut() {
                        m.recv_size = mbx;
                        m.send_size = mbx;
                        m.bootstrap[1] = mbx;
                        m.bootstrap[3] = mbx;
                    }
                    l.desc.sync_managers[0].length = mbx;
                    l.desc.sync_managers[1].length = mbx;
                }
                layouts.push(l)
            }
            Err(why) => return Err(unsupported(case, &format!("device {i}: {why}"))),
        }
    }
    let ngroups = get_u64(case, "groups", 2) as usize;
    if !(1..=3).contains(&ngroups) {
        return Err(unsupported(case, "groups must be 1, 2 or 3"));
    }
    let mut rng = Rng::new(seed ^ 0x7461_736B_7321);
    let devices = layouts
        .iter()
        .enumerate()
        .map(|(i, l)| {
            let mut dev = build_device(&format!("dev{i}"), &l.desc, l.dc, l.sii8);
            // "big_object": N printable bytes at 0x2100:0 (read with "read_as": "str1024")
            let n = get_u64(&devs[i], "big_object", 0) as usize;
            if n > 0 {
                if let Some(coe) = dev.mailbox.as_mut().and_then(|m| m.coe.as_mut()) {
                    coe.od.insert((0x2100, 0), (0..n.min(1024)).map(|k| b'A' + ((k * 7 + i) % 26) as u8).collect());
                }
            }
            dev
        })
        .collect();
    let mut seg = Segment::line(devices);
    for i in 0..seg.devices.len() {
        seg.devices[i].clock_offset_ns = rng.below(1_000_000_000_000);
        seg.link_delay_ns[i] = 20 + rng.below(500);
        seg.devices[i].fwd_delay_ns = rng.below(300);
    }
    let Some(mut env) = make_env(seg, get_u64(case, "frames", 8), get_u64(case, "frame_data", 1100), default_timeouts())
    else {
        return Err(unsupported(case, "frame_data / frames not in the storage table"));
    };
    let md = env.md;

    let fail = |stage: &str, mut o: Obj| -> Obj {
        o.insert("case".into(), case.clone());
        o.insert("stage".into(), json!(stage));
        o
    };
    let mut counter = 0usize;
    let p = env.run(md.init::<MAX_SD, _>(
        simrun::now_ns,
        <[SubDeviceGroup<MAX_SD, MAX_PDI>; 3]>::default(),
        |g: &[SubDeviceGroup<MAX_SD, MAX_PDI>; 3], _sd| {
            let k = counter % ngroups;
            counter += 1;
            Ok(&g[k])
        },
    ));
    let mut o = Obj::new();
    let Some(all) = put_phase(&mut o, "", p) else {
        return Err(fail("init", o));
    };
    let mut groups = Vec::new();
    for (gi, g) in all.into_iter().enumerate() {
        if gi >= ngroups {
            break;
        }
        let p = env.run(g.into_op(md));
        let mut o = Obj::new();
        match put_phase(&mut o, "", p) {
            Some(g) => groups.push(g),
            None => return Err(fail("op", o)),
        }
    }
    let n = layouts.len();
    let place = (0..n).map(|i| (i % ngroups, i / ngroups)).collect();
    // Static, seeded input process data; what every group's inputs must therefore read (devices in group order)
    let mut group_inputs: Vec<Vec<u8>> = vec![Vec::new(); ngroups];
    for (d, l) in layouts.iter().enumerate() {
        for (_, start, len) in &l.in_sms {
            let data = rng.bytes(usize::from(*len));
            env.seg.device_mut(d).mem_write(*start, &data);
            group_inputs[d % ngroups].extend_from_slice(&data);
        }
    }
    Ok(Setup { env, groups, place, group_inputs })
}

type Results = Rc<RefCell<Vec<Vec<Value>>>>;

fn push(results: &Results, t: usize, v: Value) {
    results.borrow_mut()[t].push(v);
}

/// Build the future of task `t`. `Err` = the case asks for something that cannot be done.
fn make_task<'a>(
    spec: &'a Value,
    t: usize,
    md: Md,
    groups: &'a [OpGroup],
    place: &'a [(usize, usize)],
    results: &Results,
) -> Result<Task<'a>, String> {
    let results = results.clone();
    let op = get_str(spec, "op", "");
    let count = get_u64(spec, "count", get_u64(spec, "cycles", 1)).min(1000);
    let device = get_u64(spec, "device", 0) as usize;
    let locate = |d: usize| -> Result<(usize, usize), String> {
        place.get(d).copied().ok_or_else(|| format!("task {t}: no device {d}"))
    };
    match op {
        "tx_rx" => {
            let g = get_u64(spec, "group", 0) as usize;
            let group = groups.get(g).ok_or_else(|| format!("task {t}: no group {g}"))?;
            Ok(Box::pin(async move {
                for c in 0..count {
                    for sd in group.iter(md) {
                        let mut o = sd.outputs_raw_mut();
                        for (k, b) in o.iter_mut().enumerate() {
                            *b = (c as u8).wrapping_mul(16).wrapping_add(k as u8).wrapping_add(1);
                        }
                    }
                    let v = match group.tx_rx(md).await {
                        Ok(r) => {
                            let mut inputs = Vec::new();
                            for sd in group.iter(md) {
                                inputs.extend_from_slice(&sd.inputs_raw());
                            }
                            json!({"r": "ok", "wkc": r.working_counter, "bytes": bytes(&inputs)})
                        }
                        Err(e) => json!({"r": err_str(&e), "detail": format!("{e:?}"), "bytes": []}),
                    };
                    push(&results, t, v);
                }
            }))
        }
        "register_read" => {
            let (g, i) = locate(device)?;
            let reg = get_u64(spec, "reg", 0x0130) as u16;
            let group = &groups[g];
            Ok(Box::pin(async move {
                let Ok(sd) = group.subdevice(md, i) else { return };
                for _ in 0..count {
                    let v = match sd.register_read::<u16>(reg).await {
                        Ok(v) => json!({"r": "ok", "bytes": bytes(&v.to_le_bytes())}),
                        Err(e) => json!({"r": err_str(&e), "detail": format!("{e:?}"), "bytes": []}),
                    };
                    push(&results, t, v);
                }
            }))
        }
        // A register read that is given up as soon as the task is woken again (the response has arrived and
        // sits in the slot, or the deadline passed) without being looked at, followed by a normal read.
        "register_read_cancel" => {
            let (g, i) = locate(device)?;
            let reg = get_u64(spec, "reg", 0x0130) as u16;
            let group = &groups[g];
            Ok(Box::pin(async move {
                let Ok(sd) = group.subdevice(md, i) else { return };
                for _ in 0..count {
                    let mut fut = Box::pin(sd.register_read::<u16>(reg));
                    let mut polls = 0;
                    let early = std::future::poll_fn(|cx| {
                        polls += 1;
                        if polls == 1 {
                            match fut.as_mut().poll(cx) {
                                std::task::Poll::Ready(r) => std::task::Poll::Ready(Some(r)),
                                std::task::Poll::Pending => std::task::Poll::Pending,
                            }
                        } else {
                            std::task::Poll::Ready(None)
                        }
                    })
                    .await;
                    drop(fut);
                    // an operation that ended at its first poll (no frame slot) has a result like any other
                    let v = match early {
                        None => json!({"r": "cancelled", "bytes": []}),
                        Some(Ok(v)) => json!({"r": "ok", "bytes": bytes(&v.to_le_bytes())}),
                        Some(Err(e)) => json!({"r": err_str(&e), "detail": format!("{e:?}"), "bytes": []}),
                    };
                    push(&results, t, v);
                    let v = match sd.register_read::<u16>(reg).await {
                        Ok(v) => json!({"r": "ok", "bytes": bytes(&v.to_le_bytes())}),
                        Err(e) => json!({"r": err_str(&e), "detail": format!("{e:?}"), "bytes": []}),
                    };
                    push(&results, t, v);
                }
            }))
        }
        // An application that keeps the response view of a raw read (`receive_slice`) while it goes on with other
        // operations, and looks at it again afterwards: the bytes must still be the ones it was given.
        "slice_hold" => {
            let (g, i) = locate(device)?;
            let reg = get_u64(spec, "reg", 0x0010) as u16;
            let hold = get_u64(spec, "hold", 3).min(20);
            let group = &groups[g];
            Ok(Box::pin(async move {
                let Ok(sd) = group.subdevice(md, i) else { return };
                let addr = sd.configured_address();
                for _ in 0..count {
                    let v = match ethercrab::Command::fprd(addr, reg).receive_slice(md, 2u16).await {
                        Ok(view) => {
                            let first = view.to_vec();
                            for _ in 0..hold {
                                let _ = sd.register_read::<u16>(0x0130u16).await;
                            }
                            let again = view.to_vec();
                            if again == first {
                                json!({"r": "ok", "bytes": bytes(&first)})
                            } else {
                                json!({"r": "ViewChangedWhileHeld", "bytes": bytes(&again), "detail": format!("{first:?} -> {again:?}")})
                            }
                        }
                        Err(e) => json!({"r": err_str(&e), "detail": format!("{e:?}"), "bytes": []}),
                    };
                    push(&results, t, v);
                }
            }))
        }
        "sdo_read" => {
            let (g, i) = locate(device)?;
            let index = get_u64(spec, "index", 0x2000) as u16;
            let sub = get_u64(spec, "sub", 0) as u8;
            let read_as = get_str(spec, "read_as", "u32");
            let group = &groups[g];
            Ok(Box::pin(async move {
                let Ok(sd) = group.subdevice(md, i) else { return };
                for _ in 0..count {
                    let r = match read_as {
                        "u8" => sd.sdo_read::<u8>(index, sub).await.map(|v| v.to_le_bytes().to_vec()),
                        "u16" => sd.sdo_read::<u16>(index, sub).await.map(|v| v.to_le_bytes().to_vec()),
                        "str1024" => sd.sdo_read::<heapless::String<1024>>(index, sub).await.map(|v| v.as_bytes().to_vec()),
                        "str32" => sd.sdo_read::<heapless::String<32>>(index, sub).await.map(|v| v.as_bytes().to_vec()),
                        _ => sd.sdo_read::<u32>(index, sub).await.map(|v| v.to_le_bytes().to_vec()),
                    };
                    let v = match r {
                        Ok(b) => json!({"r": "ok", "bytes": bytes(&b)}),
                        Err(e) => json!({"r": err_str(&e), "detail": format!("{e:?}"), "bytes": []}),
                    };
                    push(&results, t, v);
                }
            }))
        }
        "sdo_write" => {
            let (g, i) = locate(device)?;
            let index = get_u64(spec, "index", 0x2000) as u16;
            let sub = get_u64(spec, "sub", 0) as u8;
            let value = get_bytes(spec, "value").unwrap_or_else(|| vec![1, 2, 3, 4]);
            let group = &groups[g];
            Ok(Box::pin(async move {
                let Ok(sd) = group.subdevice(md, i) else { return };
                for c in 0..count {
                    // every repetition writes a different value: first byte + repetition
                    let mut val = value.clone();
                    if let Some(b) = val.first_mut() {
                        *b = b.wrapping_add(c as u8);
                    }
                    let v = match sd.sdo_write(index, sub, val.as_slice()).await {
                        Ok(()) => json!({"r": "ok", "bytes": bytes(&val)}),
                        Err(e) => json!({"r": err_str(&e), "detail": format!("{e:?}"), "bytes": []}),
                    };
                    push(&results, t, v);
                }
            }))
        }
        other => Err(format!("task {t}: unknown op {other}")),
    }
}

fn tasks_json(specs: &[Value], results: &Results, completed: &[bool]) -> Value {
    let r = results.borrow();
    Value::Array(
        specs
            .iter()
            .enumerate()
            .map(|(t, s)| {
                json!({
                    "op": get_str(s, "op", ""),
                    "done": completed.get(t).copied().unwrap_or(false),
                    "results": r[t],
                })
            })
            .collect(),
    )
}

/// One complete run: set-up, then the tasks together (`together`) or one after the other.
fn run_once(case: &Value, seed: u64, together: bool) -> Result<Obj, Obj> {
    let specs = get_array(case, "tasks");
    let mut s = setup(case, seed)?;
    let md = s.env.md;
    let lat = get_array(case, "latency_us");
    let cfg = MultiConfig {
        sim: s.env.sim,
        seed: get_u64(case, "schedule_seed", 1) ^ seed.rotate_left(17),
        latency_us: (
            lat.first().and_then(num).unwrap_or(10),
            lat.get(1).and_then(num).or_else(|| lat.first().and_then(num)).unwrap_or(10),
        ),
        add_frame_cost: get_bool(case, "add_frame_cost", false),
    };
    let results: Results = Rc::new(RefCell::new(vec![Vec::new(); specs.len()]));
    let frames0 = s.env.seg.frames_processed();
    let mut out = Obj::new();

    let Setup { env, groups, place, group_inputs } = &mut s;
    let mut completed = vec![false; specs.len()];
    let mut agg = simrun::MultiStats::default();
    let mut overall = "ok".to_string();

    let batches: Vec<Vec<usize>> = if together {
        vec![(0..specs.len()).collect()]
    } else {
        (0..specs.len()).map(|t| vec![t]).collect()
    };
    for batch in batches {
        let mut tasks = Vec::new();
        for &t in &batch {
            match make_task(&specs[t], t, md, groups, place, &results) {
                Ok(task) => tasks.push(task),
                Err(why) => return Err(unsupported(case, &why)),
            }
        }
        if together {
            simrun::rec_start();
        }
        let outcome = env.run_tasks(tasks, cfg);
        if together {
            let ev: Vec<Value> = simrun::rec_take()
                .into_iter()
                .map(|e| match e {
                    simrun::TaskEvent::Claim { task, slot } => json!({"ev": "claim", "task": task, "slot": slot, "idx": 0}),
                    simrun::TaskEvent::ClaimFail { task, slot } => json!({"ev": "claimfail", "task": task, "slot": slot, "idx": 0}),
                    simrun::TaskEvent::Index { task, slot, idx } => json!({"ev": "index", "task": task, "slot": slot, "idx": idx}),
                    simrun::TaskEvent::Send { slot } => json!({"ev": "send", "task": -1, "slot": slot, "idx": 0}),
                    simrun::TaskEvent::Rx { idx } => json!({"ev": "rx", "task": -2, "slot": 255, "idx": idx}),
                    simrun::TaskEvent::Deliver { slot } => json!({"ev": "deliver", "task": -2, "slot": slot, "idx": 0}),
                    simrun::TaskEvent::Release { task, slot } => json!({"ev": "release", "task": task, "slot": slot, "idx": 0}),
                })
                .collect();
            out.insert("events".into(), Value::Array(ev));
        }
        match outcome {
            Phase::Done(o) => {
                let st = o.stats();
                for (k, &t) in batch.iter().enumerate() {
                    completed[t] = st.completed.get(k).copied().unwrap_or(false);
                }
                agg.polls += st.polls;
                agg.frames_sent += st.frames_sent;
                agg.rx_errors += st.rx_errors;
                agg.overtakes += st.overtakes;
                agg.virtual_us += st.virtual_us;
                agg.max_in_flight = agg.max_in_flight.max(st.max_in_flight);
                if !matches!(o, MultiOutcome::Done(_)) {
                    overall = o.kind().to_string();
                    break;
                }
            }
            other => {
                if let Some((r, msg)) = other.failure() {
                    overall = r.to_string();
                    if r == "panic" {
                        out.insert("panic".into(), json!(msg));
                    }
                }
                break;
            }
        }
    }
    out.insert("result".into(), json!(overall));
    out.insert("tasks".into(), tasks_json(specs, &results, &completed));
    out.insert(
        "group_inputs".into(),
        Value::Array(group_inputs.iter().map(|g| bytes(g)).collect()),
    );
    out.insert("max_in_flight".into(), json!(agg.max_in_flight));
    out.insert("frames".into(), json!(env.seg.frames_processed() - frames0));
    out.insert("overtakes".into(), json!(agg.overtakes));
    out.insert("rx_errors".into(), json!(agg.rx_errors));
    out.insert("polls".into(), json!(agg.polls));
    out.insert("virtual_us".into(), json!(agg.virtual_us.min(0x7FFF_FFFF)));
    Ok(out)
}

pub fn run(case: &Value, seed: u64) -> Obj {
    let specs = get_array(case, "tasks");
    if specs.is_empty() || specs.len() > 16 {
        return unsupported(case, "1..16 tasks");
    }
    // tx_rx holds the group's PDI spin lock across its await points: a second tx_rx task on the same
    // group would spin forever on this single thread.
    let mut seen = std::collections::BTreeSet::new();
    for s in specs {
        if get_str(s, "op", "") == "tx_rx" && !seen.insert(get_u64(s, "group", 0)) {
            return unsupported(
                case,
                "two tx_rx tasks on one group: tx_rx holds the PDI spin lock (spin::RwLock, no yielding) across awaits, the second task would spin forever on a single thread",
            );
        }
    }
    let mut out = match run_once(case, seed, true) {
        Ok(o) => o,
        Err(o) => return o,
    };
    out.insert("case".into(), case.clone());
    match run_once(case, seed, false) {
        Ok(solo) => {
            let mut s = Obj::new();
            for k in ["result", "tasks", "panic", "frames", "virtual_us"] {
                if let Some(v) = solo.get(k) {
                    s.insert(k.into(), v.clone());
                }
            }
            out.insert("solo".into(), Value::Object(s));
        }
        Err(o) => {
            out.insert("solo".into(), Value::Object(o));
        }
    }
    out
}
