//! Engine `pdi`: process data layout and one (or a few) process data cycles, see ENGINES2.md.
//!
//! Output (one object per case):
//!
//! * `"case"`, `"result"` (first failing group's result or `"ok"`), `"stage"` (only on failure:
//!   `"init"|"preop_pdi"|"dc_config"|"safe_op"|"op"|"cycle"`), `"frames"` (all frames of the case),
//!   `"frame_bytes"` (the `DATA` const generic = `frame_data` + 28), `"init_result"`.
//! * `"groups"`: per group `{"group", "members": [ring indices], "addrs": [configured addresses],
//!   "result", "stage", "pdi_start" (limbs 2), "pdi_start_src": "lrw"|"fmmu"|"none", "pdi_len",
//!   "read_len", "windows_len", "dc_result" + "ref_time_at_config" (dc variant), "cycles": [..]}`.
//! * every cycle: `{"result", "frames": [[datagram, ..], ..], "subdevices": [{"addr", "in_len",
//!   "out_len", "inputs_before", "inputs_after", "outputs_before", "outputs_after"}], "devices":
//!   [{"index", "in_mem": [{"sm","start","bytes"}], "out_mem_after": [{"sm","start","bytes"}]}],
//!   "response": {"wkc", "states", "extra", "cycle_info"}, "expected_wkc", "expected_wkc_total"}`.
//! * `"devices"`: per ring device `{"index", "station", "al", "sm": [..], "fmmu": [..],
//!   "expected_in_bytes", "expected_out_bytes", "in_sms", "out_sms", "reg_0981", "reg_0990",
//!   "reg_09a0", "reg_09a4"}` as the devices hold them at the end of the case.

use crate::common::*;
use ethercrab::subdevice_group::{DcConfiguration, HasDc, HasPdi, NoDc, PreOp};
use ethercrab::{DcSync, DefaultLock, MainDevice, SubDeviceGroup, error::Error};
use serde_json::{Value, json};
use simdev::rng::Rng;
use simdev::simnet::{CapturedFrame, Segment, cmd, parse_datagrams};
use simdev::simrun;
use std::time::Duration;

const MAX_SD: usize = 16;

type Md = &'static MainDevice<'static>;

struct Resp {
    wkc: u16,
    states: Vec<String>,
    extra: Value,
    cycle_info: Option<(u64, Duration, Duration)>,
}

/// A group with a PDI, whatever its typestate.
trait Cyc {
    async fn cycle(&self, md: Md, sync: bool) -> Result<Resp, Error>;
    fn count(&self) -> usize;
    fn addr(&self, md: Md, i: usize) -> u16;
    /// `(inputs, outputs)` of SubDevice `i` through `io_raw()`.
    fn io(&self, md: Md, i: usize) -> (Vec<u8>, Vec<u8>);
    /// Fill the outputs of SubDevice `i` through `io_raw_mut()` / `outputs_raw_mut()`.
    fn set_outputs(&self, md: Md, i: usize, data: &[u8], via_io_raw: bool);
}

macro_rules! impl_cyc {
    ($dc:ty, |$g:ident, $md:ident, $sync:ident| $body:expr) => {
        impl<const P: usize, S: HasPdi> Cyc for SubDeviceGroup<MAX_SD, P, DefaultLock, S, $dc> {
            async fn cycle(&self, $md: Md, $sync: bool) -> Result<Resp, Error> {
                let $g = self;
                $body
            }
            fn count(&self) -> usize {
                self.len()
            }
            fn addr(&self, md: Md, i: usize) -> u16 {
                self.subdevice(md, i).map(|s| s.configured_address()).unwrap_or(0)
            }
            fn io(&self, md: Md, i: usize) -> (Vec<u8>, Vec<u8>) {
                match self.subdevice(md, i) {
                    Ok(sd) => {
                        let io = sd.io_raw();
                        (io.inputs().to_vec(), io.outputs().to_vec())
                    }
                    Err(_) => (vec![], vec![]),
                }
            }
            fn set_outputs(&self, md: Md, i: usize, data: &[u8], via_io_raw: bool) {
                if let Ok(sd) = self.subdevice(md, i) {
                    if via_io_raw {
                        let mut io = sd.io_raw_mut();
                        let o = io.outputs();
                        let n = o.len().min(data.len());
                        o[..n].copy_from_slice(&data[..n]);
                    } else {
                        let mut o = sd.outputs_raw_mut();
                        let n = o.len().min(data.len());
                        o[..n].copy_from_slice(&data[..n]);
                    }
                }
            }
        }
    };
}

fn states<const N: usize>(s: &heapless::Vec<ethercrab::SubDeviceState, N>) -> Vec<String> {
    s.iter().map(|x| format!("{x:?}")).collect()
}

impl_cyc!(NoDc, |g, md, sync| {
    if sync {
        let r = g.tx_rx_sync_system_time(md).await?;
        Ok(Resp {
            wkc: r.working_counter,
            states: states(&r.subdevice_states),
            extra: r.extra.map(limbs64).unwrap_or_else(|| json!("")),
            cycle_info: None,
        })
    } else {
        let r = g.tx_rx(md).await?;
        Ok(Resp {
            wkc: r.working_counter,
            states: states(&r.subdevice_states),
            extra: json!(""),
            cycle_info: None,
        })
    }
});

impl_cyc!(HasDc, |g, md, _sync| {
    let r = g.tx_rx_dc(md).await?;
    Ok(Resp {
        wkc: r.working_counter,
        states: states(&r.subdevice_states),
        extra: limbs64(r.extra.dc_system_time),
        cycle_info: Some((r.extra.dc_system_time, r.extra.next_cycle_wait, r.extra.cycle_start_offset)),
    })
});

/// `n` bytes that are pairwise distinct within any window of 256: `base + i * step` with odd step.
fn distinct_bytes(rng: &mut Rng, n: usize) -> Vec<u8> {
    let base = rng.next_u32() as u8;
    let step = (rng.next_u32() as u8) | 1;
    (0..n).map(|i| base.wrapping_add((i as u8).wrapping_mul(step))).collect()
}

fn sm_json(seg: &Segment, d: usize) -> Value {
    let dev = seg.device(d);
    Value::Array(
        (0..usize::from(dev.info.sm_count).min(16))
            .map(|k| {
                let r = dev.sm_raw(k);
                json!({
                    "start": u16::from_le_bytes([r[0], r[1]]),
                    "len": u16::from_le_bytes([r[2], r[3]]),
                    "control": r[4],
                    "enable": r[6],
                })
            })
            .collect(),
    )
}

fn fmmu_json(seg: &Segment, d: usize) -> Value {
    let dev = seg.device(d);
    Value::Array(
        (0..usize::from(dev.info.fmmu_count).min(16))
            .map(|k| {
                let r = dev.fmmu_raw(k);
                json!({
                    "logical": limbs32(u32::from_le_bytes([r[0], r[1], r[2], r[3]])),
                    "len": u16::from_le_bytes([r[4], r[5]]),
                    "start_bit": r[6],
                    "end_bit": r[7],
                    "phys": u16::from_le_bytes([r[8], r[9]]),
                    "phys_bit": r[10],
                    "type": r[11],
                    "enable": r[12],
                })
            })
            .collect(),
    )
}

fn sm_mem(seg: &Segment, d: usize, sms: &[(u8, u16, u16)]) -> Value {
    Value::Array(
        sms.iter()
            .map(|(sm, start, len)| {
                json!({"sm": sm, "start": start, "bytes": bytes(seg.device(d).mem_read(*start, usize::from(*len)))})
            })
            .collect(),
    )
}

struct Ctx<'a> {
    case: &'a Value,
    layouts: &'a [DeviceLayout],
    variant: &'a str,
    target: &'a str,
    cycles: u64,
}

/// Run the cycles on a group that has reached its target state.
fn run_cycles<G: Cyc>(env: &mut Env, g: &G, members: &[usize], ctx: &Ctx, rng: &mut Rng, gj: &mut Obj) {
    let md = env.md;
    let n = g.count();
    gj.insert("addrs".into(), json!((0..n).map(|i| g.addr(md, i)).collect::<Vec<_>>()));
    let mut cycles = Vec::new();
    let mut overall = "ok".to_string();
    for c in 0..ctx.cycles {
        let mut cj = Obj::new();
        // Outputs through the public API, inputs into the devices' input SM areas
        let mut sds: Vec<Obj> = Vec::new();
        for i in 0..n {
            let (ins, outs) = g.io(md, i);
            let fill = distinct_bytes(rng, outs.len());
            g.set_outputs(md, i, &fill, (i + c as usize) % 2 == 0);
            let mut o = Obj::new();
            o.insert("addr".into(), json!(g.addr(md, i)));
            o.insert("in_len".into(), json!(ins.len()));
            o.insert("out_len".into(), json!(outs.len()));
            sds.push(o);
        }
        let mut devs: Vec<Obj> = Vec::new();
        for &d in members {
            let l = &ctx.layouts[d];
            for (_, start, len) in &l.in_sms {
                let data = distinct_bytes(rng, usize::from(*len));
                env.seg.device_mut(d).mem_write(*start, &data);
            }
            let mut o = Obj::new();
            o.insert("index".into(), json!(d));
            o.insert("in_mem".into(), sm_mem(&env.seg, d, &l.in_sms));
            devs.push(o);
        }
        for (i, o) in sds.iter_mut().enumerate() {
            let (ins, outs) = g.io(md, i);
            o.insert("inputs_before".into(), bytes(&ins));
            o.insert("outputs_before".into(), bytes(&outs));
        }

        env.capture_start();
        // "hostile_lrw": the answer to every process data datagram comes back with all bytes inverted
        // (a device that writes where it has no business)
        if get_bool(ctx.case, "hostile_lrw", false) {
            env.seg.fault = Some(Box::new(|d: &simdev::simnet::DatagramInfo| {
                if d.cmd == cmd::LRW { simdev::simnet::FaultAction::CorruptData } else { simdev::simnet::FaultAction::None }
            }));
        }
        // "silent_status": ring positions of devices that do not answer their status check in this cycle
        let silent: Vec<usize> = get_array(ctx.case, "silent_status").iter().filter_map(num).map(|x| x as usize).collect();
        for &d in &silent {
            if d < env.seg.devices.len() {
                env.seg.device_mut(d).al_silent = true;
            }
        }
        let phase = env.run(g.cycle(md, ctx.variant == "sync"));
        for &d in &silent {
            if d < env.seg.devices.len() {
                env.seg.device_mut(d).al_silent = false;
            }
        }
        env.seg.fault = None;
        let frames = env.capture_take();

        for (i, o) in sds.iter_mut().enumerate() {
            let (ins, outs) = g.io(md, i);
            o.insert("inputs_after".into(), bytes(&ins));
            o.insert("outputs_after".into(), bytes(&outs));
        }
        for (o, &d) in devs.iter_mut().zip(members) {
            o.insert("out_mem_after".into(), sm_mem(&env.seg, d, &ctx.layouts[d].out_sms));
        }
        cj.insert("frames".into(), Value::Array(frames.iter().map(frame_json).collect()));

        // Layout as far as it is observable
        let lrw: Vec<(u32, u16)> = frames
            .iter()
            .flat_map(|f| parse_datagrams(&f.request))
            .filter(|d| d.cmd == cmd::LRW)
            .map(|d| (d.logical_address(), d.len))
            .collect();
        let in_lens: Vec<usize> = sds.iter().map(|o| o["in_len"].as_u64().unwrap_or(0) as usize).collect();
        let out_lens: Vec<usize> = sds.iter().map(|o| o["out_len"].as_u64().unwrap_or(0) as usize).collect();
        let read_len: usize = in_lens.iter().sum();
        let windows_len: usize = read_len + out_lens.iter().sum::<usize>();
        let fmmu_min = members
            .iter()
            .flat_map(|&d| (0..8).map(move |k| (d, k)))
            .filter_map(|(d, k)| {
                let r = env.seg.device(d).fmmu_raw(k);
                (r[12] & 1 != 0).then(|| u32::from_le_bytes([r[0], r[1], r[2], r[3]]))
            })
            .min();
        let (pdi_start, src) = match (lrw.first(), fmmu_min) {
            (Some((a, _)), _) => (*a, "lrw"),
            (None, Some(a)) => (a, "fmmu"),
            _ => (0, "none"),
        };
        if c == 0 {
            gj.insert("pdi_start".into(), limbs32(pdi_start));
            gj.insert("pdi_start_src".into(), json!(src));
            gj.insert("pdi_len".into(), json!(lrw.iter().map(|(_, l)| u64::from(*l)).sum::<u64>()));
            gj.insert("read_len".into(), json!(read_len));
            gj.insert("windows_len".into(), json!(windows_len));
        }
        // Expected working counter from the windows the API reports: inputs of all SubDevices in
        // group order from pdi_start, then the outputs.
        let mut expected = Vec::new();
        for (a, l) in &lrw {
            let (a0, a1) = (u64::from(*a), u64::from(*a) + u64::from(*l));
            let mut pos = u64::from(pdi_start);
            let mut e = 0u32;
            for len in &in_lens {
                let (w0, w1) = (pos, pos + *len as u64);
                if *len > 0 && w0 < a1 && a0 < w1 {
                    e += 1;
                }
                pos = w1;
            }
            for len in &out_lens {
                let (w0, w1) = (pos, pos + *len as u64);
                if *len > 0 && w0 < a1 && a0 < w1 {
                    e += 2;
                }
                pos = w1;
            }
            expected.push(e);
        }
        cj.insert("expected_wkc_total".into(), json!(expected.iter().sum::<u32>()));
        cj.insert("expected_wkc".into(), json!(expected));
        // ... and from the description alone (one datagram covering everything)
        let simple: u32 = members
            .iter()
            .map(|&d| {
                let l = &ctx.layouts[d];
                u32::from(l.expected_in_bytes() > 0) + 2 * u32::from(l.expected_out_bytes() > 0)
            })
            .sum();
        cj.insert("expected_wkc_desc".into(), json!(simple));

        cj.insert("subdevices".into(), Value::Array(sds.into_iter().map(Value::Object).collect()));
        cj.insert("devices".into(), Value::Array(devs.into_iter().map(Value::Object).collect()));

        let mut wait_us = 0u64;
        match phase {
            Phase::Done(Ok(r)) => {
                cj.insert("result".into(), json!("ok"));
                let mut resp = Obj::new();
                resp.insert("wkc".into(), json!(r.wkc));
                resp.insert("states".into(), json!(r.states));
                resp.insert("extra".into(), r.extra);
                if let Some((t, wait, off)) = r.cycle_info {
                    resp.insert(
                        "cycle_info".into(),
                        json!({
                            "dc_system_time": limbs64(t),
                            "next_cycle_wait_ns": limbs64(wait.as_nanos() as u64),
                            "cycle_start_offset_ns": limbs64(off.as_nanos() as u64),
                        }),
                    );
                    wait_us = (wait.as_nanos() / 1000).min(1_000_000) as u64;
                }
                cj.insert("response".into(), Value::Object(resp));
            }
            Phase::Done(Err(e)) => put_error(&mut cj, "", &e),
            other => put_failure(&mut cj, "", &other),
        }
        let r = cj["result"].as_str().unwrap_or("").to_string();
        cycles.push(Value::Object(cj));
        if r != "ok" {
            overall = r;
            break;
        }
        // An application would sleep until the next cycle
        simrun::advance_us(wait_us);
    }
    gj.insert("cycles".into(), Value::Array(cycles));
    gj.insert("result".into(), json!(overall.clone()));
    if overall != "ok" {
        gj.insert("stage".into(), json!("cycle"));
    }
}

/// `"dc_sync"` of ring device `d`: from the case level array or the device object.
fn dc_sync_of(case: &Value, d: usize) -> DcSync {
    let v = case
        .get("dc_sync")
        .and_then(|a| a.as_array())
        .and_then(|a| a.get(d))
        .or_else(|| get_array(case, "devices").get(d).and_then(|x| x.get("dc_sync")));
    match v {
        Some(Value::String(s)) if s == "sync0" => DcSync::Sync0,
        Some(Value::Object(o)) if o.contains_key("sync01") => DcSync::Sync01 {
            sync1_period: Duration::from_nanos(num(&o["sync01"]).unwrap_or(0)),
        },
        _ => DcSync::Disabled,
    }
}

macro_rules! step {
    ($env:expr, $gj:expr, $stage:expr, $fut:expr) => {{
        let p = $env.run($fut);
        match put_phase(&mut $gj, "", p) {
            Some(g) => g,
            None => {
                $gj.insert("stage".into(), json!($stage));
                return $gj;
            }
        }
    }};
}

fn first_read_of_system_time(frames: &[CapturedFrame]) -> Value {
    for f in frames {
        let Some(resp) = f.response.as_deref() else { continue };
        for d in parse_datagrams(resp) {
            if d.cmd == cmd::FPRD && d.ado() == 0x0910 && d.data.len() == 8 {
                return limbs_of_bytes(&d.data);
            }
        }
    }
    json!("")
}

fn process_group<const P: usize>(
    env: &mut Env,
    mut group: SubDeviceGroup<MAX_SD, P, DefaultLock, PreOp, NoDc>,
    gi: usize,
    members: &[usize],
    ctx: &Ctx,
    rng: &mut Rng,
) -> Obj {
    let md = env.md;
    let mut gj = Obj::new();
    gj.insert("group".into(), json!(gi));
    gj.insert("members".into(), json!(members));

    if ctx.variant == "dc" {
        for (k, mut sd) in group.iter_mut(md).enumerate() {
            if let Some(&d) = members.get(k) {
                sd.set_dc_sync(dc_sync_of(ctx.case, d));
            }
        }
    }

    for (k, mut sd) in group.iter_mut(md).enumerate() {
        if let Some(&d) = members.get(k) {
            if !ctx.layouts[d].oversampling.is_empty() {
                // the API wants a 'static slice; a case lives for one process anyway
                sd.set_oversampling(Box::leak(ctx.layouts[d].oversampling.clone().into_boxed_slice()));
            }
        }
    }

    let g = step!(env, gj, "preop_pdi", group.into_pre_op_pdi(md));

    if ctx.variant == "dc" {
        let conf = DcConfiguration {
            start_delay: Duration::from_nanos(get_u64(ctx.case, "start_delay_ns", 10_000_000)),
            sync0_period: Duration::from_nanos(get_u64(ctx.case, "sync0_period_ns", 1_000_000)),
            sync0_shift: Duration::from_nanos(get_u64(ctx.case, "sync0_shift_ns", 0)),
        };
        if let Some(t) = ctx.case.get("ref_time").and_then(num) {
            if let Some(r) = ctx.layouts.iter().position(|l| l.dc.has_system_time()) {
                let now = simrun::now_us().wrapping_mul(1000).wrapping_add(env.sim.segment_epoch_ns);
                env.seg.device_mut(r).preset_system_time(now, t);
            }
        }
        env.capture_start();
        let p = env.run(g.configure_dc_sync(md, conf));
        let frames = env.capture_take();
        gj.insert("ref_time_at_config".into(), first_read_of_system_time(&frames));
        // every configured-address write of the set-up: [station, register]
        gj.insert(
            "dc_config_writes".into(),
            Value::Array(
                frames
                    .iter()
                    .flat_map(|f| parse_datagrams(&f.request))
                    .filter(|d| d.cmd == cmd::FPWR)
                    .map(|d| json!([d.adp(), d.ado()]))
                    .collect(),
            ),
        );
        let mut dj = Obj::new();
        let g = put_phase(&mut dj, "dc_", p);
        for (k, v) in dj {
            gj.insert(k, v);
        }
        let Some(g) = g else {
            gj.insert("result".into(), gj["dc_result"].clone());
            gj.insert("stage".into(), json!("dc_config"));
            return gj;
        };
        let g = step!(env, gj, "safe_op", g.into_safe_op(md));
        if ctx.target == "op" {
            let g = step!(env, gj, "op", g.into_op(md));
            run_cycles(env, &g, members, ctx, rng, &mut gj);
        } else {
            run_cycles(env, &g, members, ctx, rng, &mut gj);
        }
    } else {
        let g = step!(env, gj, "safe_op", g.into_safe_op(md));
        if ctx.target == "op" {
            let g = step!(env, gj, "op", g.into_op(md));
            run_cycles(env, &g, members, ctx, rng, &mut gj);
        } else {
            run_cycles(env, &g, members, ctx, rng, &mut gj);
        }
    }
    gj
}

fn run_typed<const P: usize>(env: &mut Env, ctx: &Ctx, groups: usize, rng: &mut Rng, out: &mut Obj) {
    let md = env.md;
    let n = ctx.layouts.len();
    let mut counter = 0usize;
    let init = env.run(md.init::<MAX_SD, _>(
        simrun::now_ns,
        <[SubDeviceGroup<MAX_SD, P>; 3]>::default(),
        |g: &[SubDeviceGroup<MAX_SD, P>; 3], _sd| {
            let k = counter % groups;
            counter += 1;
            Ok(&g[k])
        },
    ));
    let mut ij = Obj::new();
    let Some(all) = put_phase(&mut ij, "init_", init) else {
        out.insert("result".into(), ij["init_result"].clone());
        out.insert("stage".into(), json!("init"));
        for (k, v) in ij {
            out.insert(k, v);
        }
        return;
    };
    out.insert("init_result".into(), json!("ok"));

    let mut results = Vec::new();
    for (gi, group) in all.into_iter().enumerate() {
        if gi >= groups {
            break;
        }
        let members: Vec<usize> = (0..n).filter(|i| i % groups == gi).collect();
        let gj = process_group::<P>(env, group, gi, &members, ctx, rng);
        results.push(gj);
    }
    let bad = results.iter().find(|g| g.get("result").and_then(|r| r.as_str()) != Some("ok"));
    match bad {
        Some(g) => {
            out.insert("result".into(), g["result"].clone());
            if let Some(s) = g.get("stage") {
                out.insert("stage".into(), s.clone());
            }
            if let Some(p) = g.get("panic") {
                out.insert("panic".into(), p.clone());
            }
        }
        None => {
            out.insert("result".into(), json!("ok"));
        }
    }
    out.insert("groups".into(), Value::Array(results.into_iter().map(Value::Object).collect()));
}

pub fn run(case: &Value, seed: u64) -> Obj {
    let id = get_str(case, "id", "");
    let devs = get_array(case, "devices");
    if devs.is_empty() || devs.len() > MAX_SD {
        return unsupported(case, "1..16 devices are supported (MAX_SUBDEVICES is 16)");
    }
    let mut layouts = Vec::new();
    for (i, v) in devs.iter().enumerate() {
        match device_layout(v, i) {
            Ok(l) => layouts.push(l),
            Err(why) => return unsupported(case, &format!("device {i}: {why}")),
        }
    }
    let groups = get_u64(case, "groups", 1) as usize;
    if !(1..=3).contains(&groups) {
        return unsupported(case, "groups must be 1, 2 or 3");
    }
    let variant = get_str(case, "variant", "plain");
    if !["plain", "sync", "dc"].contains(&variant) {
        return unsupported(case, "variant must be plain, sync or dc");
    }
    let target = get_str(case, "target", "op");
    if !["safe_op", "op"].contains(&target) {
        return unsupported(case, "target must be safe_op or op");
    }
    // `tx_rx_sync_system_time` without a DC reference takes the PDI spin lock twice and never returns
    // (found with this engine). Running it costs the watchdog time and leaves a spinning thread
    // behind, so a caller that already knows may ask for the prediction instead of the experiment.
    if variant == "sync"
        && layouts.iter().all(|l| !l.dc.has_receive_times())
        && std::env::var("VSIM_SKIP_KNOWN_SPIN").is_ok_and(|v| v == "1")
    {
        let mut out = Obj::new();
        out.insert("case".into(), case.clone());
        out.insert("result".into(), json!("hang"));
        out.insert("hang_kind".into(), json!("spin"));
        out.insert("predicted".into(), json!(true));
        out.insert("stage".into(), json!("cycle"));
        out.insert(
            "why".into(),
            json!("VSIM_SKIP_KNOWN_SPIN=1: tx_rx_sync_system_time without a DC reference locks the PDI twice (subdevice_group/mod.rs:970 and :870 via :1090)"),
        );
        return out;
    }
    let max_pdi = get_u64(case, "max_pdi", 64);
    let frame_data = get_u64(case, "frame_data", 1100);
    let frames = get_u64(case, "frames", 8);

    // Seeded, case specific clocks and delays
    let mut h = seed ^ 0x9E37_79B9_7F4A_7C15;
    for b in id.bytes() {
        h = h.wrapping_mul(0x100_0000_01B3) ^ u64::from(b);
    }
    let mut rng = Rng::new(h);
    let devices = layouts
        .iter()
        .enumerate()
        .map(|(i, l)| build_device(&format!("dev{i}"), &l.desc, l.dc, l.sii8))
        .collect();
    let mut seg = Segment::line(devices);
    for i in 0..seg.devices.len() {
        seg.devices[i].clock_offset_ns = rng.below(1_000_000_000_000);
        seg.link_delay_ns[i] = 20 + rng.below(500);
        seg.devices[i].fwd_delay_ns = rng.below(300);
    }
    let Some(mut env) = make_env(seg, frames, frame_data, default_timeouts()) else {
        return unsupported(case, "frame_data / frames not in the storage table");
    };

    let mut out = Obj::new();
    out.insert("case".into(), case.clone());
    out.insert("frame_bytes".into(), json!(frame_data + 28));
    let ctx = Ctx {
        case,
        layouts: &layouts,
        variant,
        target,
        cycles: get_u64(case, "cycles", 1).clamp(1, 3),
    };
    match max_pdi {
        16 => run_typed::<16>(&mut env, &ctx, groups, &mut rng, &mut out),
        64 => run_typed::<64>(&mut env, &ctx, groups, &mut rng, &mut out),
        256 => run_typed::<256>(&mut env, &ctx, groups, &mut rng, &mut out),
        1024 => run_typed::<1024>(&mut env, &ctx, groups, &mut rng, &mut out),
        16384 => run_typed::<16384>(&mut env, &ctx, groups, &mut rng, &mut out),
        _ => return unsupported(case, "max_pdi must be 16, 64, 256, 1024 or 16384"),
    }

    out.insert(
        "devices".into(),
        Value::Array(
            layouts
                .iter()
                .enumerate()
                .map(|(d, l)| {
                    let dev = env.seg.device(d);
                    let sms = |s: &[(u8, u16, u16)]| -> Value {
                        Value::Array(s.iter().map(|(k, a, n)| json!({"sm": k, "start": a, "len": n})).collect())
                    };
                    json!({
                        "index": d,
                        "station": dev.station_address(),
                        "al": dev.al_state & 0x0F,
                        "sm": sm_json(&env.seg, d),
                        "fmmu": fmmu_json(&env.seg, d),
                        "expected_in_bytes": l.expected_in_bytes(),
                        "expected_out_bytes": l.expected_out_bytes(),
                        "in_sms": sms(&l.in_sms),
                        "out_sms": sms(&l.out_sms),
                        "coe": l.coe,
                        "fmmu_usage": l.desc.fmmu_usage,
                        "fmmu_ex": l.desc.fmmu_ex.iter().map(|e| e[1]).collect::<Vec<u8>>(),
                        "desc_sms": l.desc.sync_managers.iter().map(|s| json!({
                            "start": s.start, "length": s.length, "control": s.control, "enable": s.enable, "usage": s.usage,
                        })).collect::<Vec<_>>(),
                        "oversampling": l.oversampling.iter().map(|(i, m)| json!([i, m])).collect::<Vec<_>>(),
                        "reg_0981": dev.reg_u8(0x0981),
                        "reg_0990": limbs64(dev.reg_u64(0x0990)),
                        "reg_09a0": limbs32(dev.reg_u32(0x09A0)),
                        "reg_09a4": limbs32(dev.reg_u32(0x09A4)),
                    })
                })
                .collect(),
        ),
    );
    out.insert("frames".into(), json!(env.frames));
    out
}
