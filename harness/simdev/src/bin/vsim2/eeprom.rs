//! Engine `eeprom`: EEPROM range reads, the EEPROM parser on hostile images, alias writes.
//! See ENGINES2.md. The network is always: device 0 = coupler, device 1 = the device under test.
//!
//! Output fields:
//!
//! * all ops: `"case"`, `"result"`, `"desc_echo"` (if the case carries a `"desc"`), `"image_len"`.
//! * `"op": "ranges"`: `"result"` = result of init (`"stage": "init"` on failure), `"size":
//!   {"result", "value"}`, `"reads": [{"result", "n", "data", "tail_untouched"} + error extras]`,
//!   `"frames"`.
//! * `"op": "parse"`: `"result"` / `"dump": [{"name", "value"}]` / `"chunk_reads"` of the direct
//!   parser run (`"ok"`, `"budget"`, `"panic"` + `"panic"`, `"pending"`, `"err:fmt"`), `"init_result"`,
//!   `"op_result"` (only if init succeeded), `"init_frames"`, `"subdevice": {..what ethercrab read..}`,
//!   `"profile"` echo.
//! * `"op": "alias"`: `"result"` of `set_alias_address` (`"stage": "init"` if init failed),
//!   `"eeprom_before"`, `"eeprom_after"` (first 128 bytes), `"changed": [[offset, old, new]]`,
//!   `"sii_log"`, `"alias_reported"` (`SubDevice::alias_address()` afterwards), `"alias_in_eeprom"`
//!   (`read_alias_address_from_eeprom` result object), `"alias_register"` (0x0012 of the device),
//!   `"checksum_ok"`, `"extra_writes": [{"result", "word", "len"}]`, `"write_events": [{"word",
//!   "data", "stored"}]`, `"frames"`.

use crate::common::*;
use ethercrab::error::Error;
use ethercrab::verif::{EepromDataProvider, SubDeviceEeprom};
use serde_json::{Value, json};
use simdev::sii_image;
use simdev::simnet::{CapturedFrame, DcKind, Segment, SimEvent, cmd, parse_datagrams};
use simdev::simrun;
use std::cell::Cell;
use std::future::Future;
use std::ops::Deref;
use std::panic::{AssertUnwindSafe, catch_unwind};
use std::pin::pin;
use std::rc::Rc;
use std::task::{Context, Poll, Waker};

const CHUNK_BUDGET: u32 = 2_000_000;

struct ChunkBudgetExceeded;

#[derive(Clone)]
struct MemProvider {
    image: Rc<std::cell::RefCell<Vec<u8>>>,
    /// word writes in order: (word address, bytes)
    writes: Rc<std::cell::RefCell<Vec<(u16, [u8; 2])>>>,
    sii8: bool,
    reads: Rc<Cell<u32>>,
    /// the first `READ_LOG` accesses: (word address, first two words returned)
    log: Rc<std::cell::RefCell<Vec<(u16, u16, u16)>>>,
}

const READ_LOG: usize = 3000;

impl EepromDataProvider for MemProvider {
    async fn read_chunk(&mut self, start_word: u16) -> Result<impl Deref<Target = [u8]>, Error> {
        let n = self.reads.get() + 1;
        self.reads.set(n);
        if n > CHUNK_BUDGET {
            // Does not run the panic hook; caught by the engine.
            std::panic::resume_unwind(Box::new(ChunkBudgetExceeded));
        }
        let len = if self.sii8 { 8 } else { 4 };
        let start = usize::from(start_word) * 2;
        let mut out = heapless::Vec::<u8, 8>::new();
        for i in 0..len {
            let _ = out.push(*self.image.borrow().get(start + i).unwrap_or(&0xFF));
        }
        {
            let mut log = self.log.borrow_mut();
            if log.len() < READ_LOG {
                log.push((
                    start_word,
                    u16::from_le_bytes([out[0], out[1]]),
                    u16::from_le_bytes([out[2], out[3]]),
                ));
            }
        }
        Ok(out)
    }

    async fn write_word(&mut self, start_word: u16, data: [u8; 2]) -> Result<(), Error> {
        self.writes.borrow_mut().push((start_word, data));
        let mut img = self.image.borrow_mut();
        let at = usize::from(start_word) * 2;
        if at + 1 < img.len() {
            img[at] = data[0];
            img[at + 1] = data[1];
        }
        Ok(())
    }

    async fn clear_errors(&self) -> Result<(), Error> {
        Ok(())
    }
}

/// Is this binary built with arithmetic overflow checks? (Probed, `cfg(overflow_checks)` is not
/// stable.)
fn overflow_checks_enabled() -> bool {
    catch_unwind(|| {
        let x: u8 = std::hint::black_box(255);
        std::hint::black_box(x + std::hint::black_box(1))
    })
    .is_err()
}

/// Poll a future that never waits for anything external.
fn poll_to_end<F: Future>(fut: F) -> Option<F::Output> {
    let mut fut = pin!(fut);
    let mut cx = Context::from_waker(Waker::noop());
    for _ in 0..1000 {
        if let Poll::Ready(v) = fut.as_mut().poll(&mut cx) {
            return Some(v);
        }
    }
    None
}

fn direct_parse(image: &[u8], sii8: bool, fields: bool, out: &mut Obj) {
    let reads = Rc::new(Cell::new(0u32));
    let provider = MemProvider {
        image: Rc::new(std::cell::RefCell::new(image.to_vec())),
        writes: Default::default(),
        sii8,
        reads: reads.clone(),
        log: Default::default(),
    };
    let log = provider.log.clone();
    /// Records the number of device accesses made when each line of the dump is complete.
    struct MarkWriter {
        text: String,
        reads: Rc<Cell<u32>>,
        marks: Vec<u32>,
    }
    impl std::fmt::Write for MarkWriter {
        fn write_str(&mut self, s: &str) -> std::fmt::Result {
            for _ in s.matches('\n') {
                self.marks.push(self.reads.get());
            }
            self.text.push_str(s);
            Ok(())
        }
    }
    let mut mw = MarkWriter { text: String::new(), reads: reads.clone(), marks: Vec::new() };
    let r = catch_unwind(AssertUnwindSafe(|| {
        let eeprom = SubDeviceEeprom::verif_new(provider);
        if fields {
            poll_to_end(eeprom.verif_dump_fields(&mut mw))
        } else {
            poll_to_end(eeprom.verif_dump(&mut mw))
        }
    }));
    let text = mw.text;
    let marks = mw.marks;
    let result = match r {
        Ok(Some(Ok(()))) => "ok".to_string(),
        Ok(Some(Err(_))) => "err:fmt".to_string(),
        Ok(None) => "pending".to_string(),
        Err(payload) => {
            if payload.is::<ChunkBudgetExceeded>() {
                "budget".to_string()
            } else {
                out.insert("panic".into(), json!(take_panic_message()));
                "panic".to_string()
            }
        }
    };
    out.insert("result".into(), json!(result));
    out.insert("chunk_reads".into(), json!(reads.get()));
    out.insert(
        "read_log".into(),
        Value::Array(log.borrow().iter().map(|(a, w0, w1)| json!([a, w0, w1])).collect()),
    );
    // Lines written before a panic / budget abort are kept.
    let dump: Vec<Value> = text
        .lines()
        .enumerate()
        .map(|(i, l)| {
            let reads = marks.get(i).copied().unwrap_or(0);
            match l.split_once('=') {
                Some((n, v)) => json!({"name": n, "value": v, "reads": reads}),
                None => json!({"name": "", "value": l, "reads": reads}),
            }
        })
        .collect();
    out.insert("dump".into(), Value::Array(dump));
}

fn make_segment(case: &Value, image: Vec<u8>, desc: Option<&sii_image::DeviceDescription>) -> Segment {
    let sii8 = get_bool(case, "sii8", false);
    let dut = match desc {
        Some(d) => {
            let mut dev = build_device("dut", d, DcKind::None, sii8);
            // The description may be encoded with deviations (category order, ..): the image wins.
            dev.eeprom = image;
            dev.power_on();
            dev
        }
        None => build_device_from_image("dut", image, sii8, DcKind::None),
    };
    Segment::line(vec![coupler_device(), dut])
}

fn sii_log(frames: &[CapturedFrame], station: u16) -> Value {
    let mut out = Vec::new();
    for f in frames {
        let req = parse_datagrams(&f.request);
        let resp = f.response.as_deref().map(parse_datagrams).unwrap_or_default();
        for (i, d) in req.iter().enumerate() {
            let fp = matches!(d.cmd, cmd::FPRD | cmd::FPWR | cmd::FPRW);
            if !fp || d.adp() != station || !(0x0500..0x0510).contains(&d.ado()) {
                continue;
            }
            let reg = match d.ado() {
                0x0500 | 0x0501 => "config".to_string(),
                0x0502 | 0x0503 => "control".to_string(),
                0x0504..=0x0507 => "address".to_string(),
                _ => "data".to_string(),
            };
            let write = d.cmd != cmd::FPRD;
            let data = if write { d.data.clone() } else { resp.get(i).map(|r| r.data.clone()).unwrap_or_default() };
            out.push(json!({
                "reg": reg,
                "ado": d.ado(),
                "rw": if write { "w" } else { "r" },
                "len": d.len,
                "value": limbs_of_bytes(&data),
                "wkc": resp.get(i).map(|r| i64::from(r.wkc)).unwrap_or(-1),
            }));
        }
    }
    Value::Array(out)
}

fn op_ranges(case: &Value, image: &[u8], env: &mut Env, out: &mut Obj) {
    let md = env.md;
    let p = env.run(md.init_single_group::<16, 256>(simrun::now_ns));
    let Some(group) = put_phase(out, "", p) else {
        out.insert("stage".into(), json!("init"));
        return;
    };
    let Ok(sd) = group.subdevice(md, 1) else {
        out.insert("result".into(), json!("err:NotFound"));
        out.insert("stage".into(), json!("init"));
        return;
    };

    let mut sj = Obj::new();
    match env.run(sd.eeprom_size(md)) {
        Phase::Done(Ok(v)) => {
            sj.insert("result".into(), json!("ok"));
            sj.insert("value".into(), json!(v as u64 & 0x7FFF_FFFF));
        }
        Phase::Done(Err(e)) => put_error(&mut sj, "", &e),
        other => put_failure(&mut sj, "", &other),
    }
    out.insert("size".into(), Value::Object(sj));

    let mut reads = Vec::new();
    for r in get_array(case, "reads") {
        let word = get_u64(r, "word", 0) as u16;
        let len = get_u64(r, "len", 0).min(70_000) as usize;
        let via = get_str(r, "via", "raw");
        let mut rj = Obj::new();
        rj.insert("word".into(), json!(word));
        rj.insert("via".into(), json!(via));
        // what the image holds in the requested range (bytes beyond the device's memory: 0xFF),
        // computed from the harness' own copy of the image
        {
            let want_len = match via {
                "typed_u8" => 1,
                "typed_u16" => 2,
                "typed_u32" => 4,
                "typed_u64" => 8,
                "typed_a16x3" | "typed_a8x6" => 6,
                "typed_a32x2" => 8,
                _ => len,
            };
            let start = usize::from(word) * 2;
            let expect: Vec<u8> = (0..want_len).map(|i| image.get(start + i).copied().unwrap_or(0xFF)).collect();
            rj.insert("len".into(), json!(want_len));
            rj.insert("expect".into(), bytes(&expect));
            // bytes of the range that can be reached with 16 bit word addresses at all
            let addressable = 0x2_0000usize.saturating_sub(start).min(want_len);
            rj.insert("addressable_len".into(), json!(addressable));
            rj.insert("in_image".into(), json!(start + want_len <= image.len() && addressable == want_len));
        }
        env.capture_start();
        macro_rules! typed {
            ($t:ty) => {{
                match env.run(sd.eeprom_read::<$t>(md, word)) {
                    Phase::Done(Ok(v)) => {
                        let b = v.to_le_bytes();
                        rj.insert("result".into(), json!("ok"));
                        rj.insert("n".into(), json!(b.len()));
                        rj.insert("data".into(), bytes(&b));
                    }
                    Phase::Done(Err(e)) => put_error(&mut rj, "", &e),
                    other => put_failure(&mut rj, "", &other),
                }
            }};
        }
        macro_rules! typed_array {
            ($t:ty, $n:literal) => {{
                match env.run(sd.eeprom_read::<[$t; $n]>(md, word)) {
                    Phase::Done(Ok(v)) => {
                        let b: Vec<u8> = v.iter().flat_map(|x| x.to_le_bytes()).collect();
                        rj.insert("result".into(), json!("ok"));
                        rj.insert("n".into(), json!(b.len()));
                        rj.insert("data".into(), bytes(&b));
                    }
                    Phase::Done(Err(e)) => put_error(&mut rj, "", &e),
                    other => put_failure(&mut rj, "", &other),
                }
            }};
        }
        match via {
            "typed_a16x3" => typed_array!(u16, 3),
            "typed_a32x2" => typed_array!(u32, 2),
            "typed_a8x6" => typed_array!(u8, 6),
            "typed_u8" => typed!(u8),
            "typed_u16" => typed!(u16),
            "typed_u32" => typed!(u32),
            "typed_u64" => typed!(u64),
            "raw" => {
                const CANARY: u8 = 0xEE;
                let mut buf = vec![CANARY; len];
                match env.run(sd.eeprom_read_raw(md, word, &mut buf)) {
                    Phase::Done(Ok(n)) => {
                        rj.insert("result".into(), json!("ok"));
                        rj.insert("n".into(), json!(n as u64 & 0x7FFF_FFFF));
                        let m = n.min(buf.len());
                        rj.insert("data".into(), bytes(&buf[..m]));
                        rj.insert("tail_untouched".into(), json!(buf[m..].iter().all(|b| *b == CANARY)));
                    }
                    Phase::Done(Err(e)) => put_error(&mut rj, "", &e),
                    other => put_failure(&mut rj, "", &other),
                }
            }
            _ => {
                rj.insert("result".into(), json!("unsupported"));
                rj.insert("why".into(), json!("via must be raw, typed_u8/u16/u32/u64 or typed_a16x3/a32x2/a8x6"));
            }
        }
        // the SII register traffic of this read (bounded)
        let frames = env.capture_take();
        if let Value::Array(mut a) = sii_log(&frames, env.seg.device(1).station_address()) {
            a.truncate(400);
            rj.insert("sii".into(), Value::Array(a));
        }
        reads.push(Value::Object(rj));
    }
    out.insert("reads".into(), Value::Array(reads));
}

fn op_parse(case: &Value, image: &[u8], desc: Option<&sii_image::DeviceDescription>, out: &mut Obj) {
    out.insert("profile".into(), json!(get_str(case, "profile", "")));
    out.insert(
        "overflow_checks".into(),
        json!(overflow_checks_enabled()),
    );
    let fields = get_bool(case, "fields", false);
    direct_parse(image, get_bool(case, "sii8", false), fields, out);
    if fields {
        // the image as the parser saw it, without the trailing fill
        let used = image.iter().rposition(|b| *b != 0xFF).map_or(0, |p| p + 1);
        out.insert("image_prefix".into(), json!(&image[..used]));
    }

    // (2) the real thing
    let seg = make_segment(case, image.to_vec(), desc);
    let Some(mut env) = make_env(seg, 8, 1100, default_timeouts()) else {
        return;
    };
    let md = env.md;
    let p = env.run(md.init_single_group::<16, 256>(simrun::now_ns));
    let group = put_phase(out, "init_", p);
    if let Some(group) = group {
        if let Ok(sd) = group.subdevice(md, 1) {
            let id = sd.identity();
            out.insert(
                "subdevice".into(),
                json!({
                    "name": sd.name(),
                    "vendor": limbs32(id.vendor_id),
                    "product": limbs32(id.product_id),
                    "revision": limbs32(id.revision),
                    "serial": limbs32(id.serial),
                    "alias": sd.alias_address(),
                    "addr": sd.configured_address(),
                }),
            );
        }
        let p = env.run(group.into_op(md));
        if let Some(g) = put_phase(out, "op_", p) {
            if let Ok(sd) = g.subdevice(md, 1) {
                let io = sd.io_raw();
                out.insert("in_len".into(), json!(io.inputs().len()));
                out.insert("out_len".into(), json!(io.outputs().len()));
            }
        }
    }
    out.insert("init_frames".into(), json!(env.frames));
    out.insert("al_after".into(), json!(env.seg.devices.iter().map(|d| d.al_state & 0x0F).collect::<Vec<_>>()));
}

/// `"op": "rangewrite"`: `EepromRange::write` (through the hook) over an in-memory provider:
/// `"window": [start word, length bytes]`, `"payload": [..]`. Output: `"result"`, `"written"`,
/// `"writes": [[word, b0, b1]]`, `"changed": [[offset, old, new]]`.
fn op_rangewrite(case: &Value, image: &[u8], out: &mut Obj) {
    use embedded_io_async::Write;
    let w = get_array(case, "window");
    let start = w.first().and_then(num).unwrap_or(0) as u16;
    let len = w.get(1).and_then(num).unwrap_or(0) as u16;
    let payload = get_bytes(case, "payload").unwrap_or_default();
    let provider = MemProvider {
        image: Rc::new(std::cell::RefCell::new(image.to_vec())),
        writes: Default::default(),
        sii8: get_bool(case, "sii8", false),
        reads: Default::default(),
        log: Default::default(),
    };
    let img = provider.image.clone();
    let writes = provider.writes.clone();
    let r = catch_unwind(AssertUnwindSafe(|| {
        let eeprom = SubDeviceEeprom::verif_new(provider);
        let mut range = eeprom.verif_start_at(start, len);
        poll_to_end(async { range.write(&payload).await })
    }));
    match r {
        Ok(Some(Ok(n))) => {
            out.insert("result".into(), json!("ok"));
            out.insert("written".into(), json!(n));
        }
        Ok(Some(Err(e))) => put_error(out, "", &e),
        Ok(None) => {
            out.insert("result".into(), json!("pending"));
        }
        Err(_) => {
            out.insert("result".into(), json!("panic"));
            out.insert("panic".into(), json!(take_panic_message()));
        }
    }
    out.insert(
        "writes".into(),
        Value::Array(writes.borrow().iter().map(|(a, d)| json!([a, d[0], d[1]])).collect()),
    );
    let after = img.borrow();
    let changed: Vec<Value> = image
        .iter()
        .zip(after.iter())
        .enumerate()
        .filter(|(_, (a, b))| a != b)
        .map(|(i, (a, b))| json!([i, a, b]))
        .collect();
    out.insert("changed".into(), Value::Array(changed));
}

fn op_alias(case: &Value, env: &mut Env, out: &mut Obj) {
    let md = env.md;
    let p = env.run(md.init_single_group::<16, 256>(simrun::now_ns));
    let Some(mut group) = put_phase(out, "", p) else {
        out.insert("stage".into(), json!("init"));
        return;
    };
    let alias = get_u64(case, "alias", 0) as u16;
    {
        let dev = env.seg.device_mut(1);
        dev.sii_write_errors = get_u64(case, "write_errors", 0) as u32;
        dev.sii_busy_polls = get_u64(case, "busy_polls", 0) as u32;
        dev.sii_errors_after_write = get_u64(case, "errors_after_write", 0) as u32;
    }
    let before = env.seg.device(1).eeprom.clone();
    let station = env.seg.device(1).station_address();
    let log_from = env.seg.log.len();
    env.capture_start();

    {
        let Some(mut sd) = group.iter_mut(md).nth(1) else {
            out.insert("result".into(), json!("err:NotFound"));
            return;
        };
        let p = env.run(sd.set_alias_address(alias));
        put_phase(out, "", p);
        out.insert("alias_reported".into(), json!(sd.alias_address()));
    }

    let mut extras = Vec::new();
    if let Ok(sd) = group.subdevice(md, 1) {
        for w in get_array(case, "extra_writes") {
            let word = get_u64(w, "word", 0) as u16;
            let data = get_bytes(w, "data").unwrap_or_default();
            let mut wj = Obj::new();
            wj.insert("word".into(), json!(word));
            wj.insert("len".into(), json!(data.len()));
            let mut b = [0u8; 8];
            b[..data.len().min(8)].copy_from_slice(&data[..data.len().min(8)]);
            let p = match data.len() {
                1 => Some(env.run(sd.eeprom_write_dangerously(md, word, b[0]))),
                2 => Some(env.run(sd.eeprom_write_dangerously(md, word, u16::from_le_bytes([b[0], b[1]])))),
                4 => Some(env.run(sd.eeprom_write_dangerously(md, word, u32::from_le_bytes([b[0], b[1], b[2], b[3]])))),
                8 => Some(env.run(sd.eeprom_write_dangerously(md, word, u64::from_le_bytes(b)))),
                _ => None,
            };
            match p {
                Some(p) => {
                    put_phase(&mut wj, "", p);
                }
                None => {
                    wj.insert("result".into(), json!("unsupported"));
                    wj.insert(
                        "why".into(),
                        json!("eeprom_write_dangerously needs EtherCrabWireWriteSized: only 1, 2, 4 or 8 bytes (integers)"),
                    );
                }
            }
            extras.push(Value::Object(wj));
        }
        let frames = env.capture_take();
        out.insert("sii_log".into(), sii_log(&frames, station));

        let mut aj = Obj::new();
        match env.run(sd.read_alias_address_from_eeprom(md)) {
            Phase::Done(Ok(v)) => {
                aj.insert("result".into(), json!("ok"));
                aj.insert("value".into(), json!(v));
            }
            Phase::Done(Err(e)) => put_error(&mut aj, "", &e),
            other => put_failure(&mut aj, "", &other),
        }
        out.insert("alias_in_eeprom".into(), Value::Object(aj));
    }
    out.insert("extra_writes".into(), Value::Array(extras));

    let after = env.seg.device(1).eeprom.clone();
    out.insert("eeprom_before".into(), bytes(&before[..before.len().min(128)]));
    out.insert("eeprom_after".into(), bytes(&after[..after.len().min(128)]));
    let changed: Vec<Value> = before
        .iter()
        .zip(after.iter())
        .enumerate()
        .filter(|(_, (a, b))| a != b)
        .map(|(i, (a, b))| json!([i, a, b]))
        .collect();
    out.insert("changed".into(), Value::Array(changed));
    out.insert("alias_register".into(), json!(env.seg.device(1).station_alias()));
    out.insert(
        "checksum_ok".into(),
        json!(after.len() >= 16 && u16::from(sii_image::crc8(&after[0..14])) == u16::from_le_bytes([after[14], after[15]])),
    );
    let events: Vec<Value> = env.seg.log[log_from.min(env.seg.log.len())..]
        .iter()
        .filter_map(|e| match e {
            SimEvent::EepromWrite { device: 1, word, data, stored } => {
                Some(json!({"word": limbs32(*word), "data": bytes(data), "stored": stored}))
            }
            _ => None,
        })
        .collect();
    out.insert("write_events".into(), Value::Array(events));
}

pub fn run(case: &Value, _seed: u64) -> Obj {
    let (mut image, desc) = match image_of_case(case) {
        Ok(x) => x,
        Err(why) => return badcase(case, &why),
    };
    // structured-then-mutated images: "mutate": [[byte offset, value], ..] applied to the encoded image
    if let Some(ms) = case.get("mutate").and_then(|x| x.as_array()) {
        for m in ms {
            let off = m.get(0).and_then(|x| x.as_u64()).unwrap_or(0) as usize;
            let v = m.get(1).and_then(|x| x.as_u64()).unwrap_or(0) as u8;
            if let Some(b) = image.get_mut(off) {
                *b = v;
            }
        }
    }
    let mut out = Obj::new();
    out.insert("case".into(), case.clone());
    out.insert("image_len".into(), json!(image.len()));
    if let Some(d) = &desc {
        out.insert("desc_echo".into(), desc_echo(d));
    }
    let op = get_str(case, "op", "");
    match op {
        "parse" => op_parse(case, &image, desc.as_ref(), &mut out),
        "rangewrite" => op_rangewrite(case, &image, &mut out),
        "ranges" | "alias" => {
            let image_copy = image.clone();
            let seg = make_segment(case, image, desc.as_ref());
            let Some(mut env) = make_env(seg, 8, 1100, default_timeouts()) else {
                return unsupported(case, "storage");
            };
            if op == "ranges" {
                op_ranges(case, &image_copy, &mut env, &mut out);
            } else {
                op_alias(case, &mut env, &mut out);
            }
            out.insert("frames".into(), json!(env.frames));
        }
        _ => return unsupported(case, "op must be ranges, parse or alias"),
    }
    out
}
