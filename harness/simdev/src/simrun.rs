//! Virtual clock (`embassy_time_driver::Driver`) and a single threaded executor that couples a
//! future using the real ethercrab `MainDevice` to a simulated [`Segment`].
//!
//! * The clock counts microsecond ticks (`TICK_HZ` = 1 MHz) and is **thread local**: every test
//!   thread has its own time line, so tests running in parallel stay deterministic. The executor is
//!   single threaded; the future, the TX/RX halves and the segment all live on the calling thread.
//! * [`block_on`] polls the future with a flag waker. After every poll all sendable frames are
//!   drained: `send_blocking` copies the bytes (marking the frame as sent), then the frame is run
//!   through `Segment::process` and the response is handed to `PduRx::receive_frame`. If nothing
//!   happened (future pending, nothing sent, not woken) the clock jumps to the earliest registered
//!   wake-up; if there is none the run ends with [`RunOutcome::Hang`].
//! * Every frame costs virtual time ([`SimConfig`]): a fixed time plus a per byte time plus the
//!   segment's propagation round trip. The segment's own time (`Segment::now_ns`, used for the
//!   distributed clocks) is the virtual clock in nanoseconds plus `SimConfig::segment_epoch_ns`.
//!   Because frames cost time, poll loops with a zero `wait_loop_delay` still make the ethercrab
//!   timeouts expire.
//! * No lock or `RefCell` borrow is held while the future is polled, so a panic inside the future
//!   can be caught by the caller with `catch_unwind`; [`reset_clock`] puts the thread's clock back
//!   to zero afterwards.
//!
//! * [`run_tasks`] is the multi task variant: several futures share one `MainDevice` on one thread.
//!   A seeded scheduler picks which ready task is polled next, every response is delivered after a
//!   seeded latency, so several frames can be in flight and responses of different frames can be
//!   delivered in any order. The segment still processes frames in the order they were sent (at
//!   the moment they are sent).
//!
//! Simplifications: with [`block_on`] responses are delivered immediately after the frame was sent
//! (no frames in flight concurrently, no reordering); a lost frame is simply never answered.
//! With [`run_tasks`] the device side effects of a frame happen at send time, not at some point
//! between send and delivery.

use crate::rng::Rng;
use crate::simnet::Segment;
use ethercrab::{PduLoop, PduRx, PduStorage, PduTx};
use std::cell::RefCell;
use std::collections::BTreeMap;
use std::future::Future;
use std::pin::{Pin, pin};
use std::sync::Arc;
use std::sync::atomic::{AtomicBool, Ordering};
use std::task::{Context, Poll, Wake, Waker};

struct ClockState {
    now_us: u64,
    /// Registered wake-ups by expiry time.
    wakes: BTreeMap<u64, Vec<Waker>>,
}

thread_local! {
    static CLOCK: RefCell<ClockState> = const { RefCell::new(ClockState { now_us: 0, wakes: BTreeMap::new() }) };
}

struct VirtualDriver;

impl embassy_time_driver::Driver for VirtualDriver {
    fn now(&self) -> u64 {
        CLOCK.with(|c| c.borrow().now_us)
    }

    fn schedule_wake(&self, at: u64, waker: &Waker) {
        let due = CLOCK.with(|c| {
            let mut c = c.borrow_mut();
            if at <= c.now_us {
                true
            } else {
                // One entry per (time, task) is enough.
                let slot = c.wakes.entry(at).or_default();
                if !slot.iter().any(|w| w.will_wake(waker)) {
                    slot.push(waker.clone());
                }
                false
            }
        });
        if due {
            waker.wake_by_ref();
        }
    }
}

embassy_time_driver::time_driver_impl!(static DRIVER: VirtualDriver = VirtualDriver);

/// Current virtual time of this thread in microseconds.
pub fn now_us() -> u64 {
    CLOCK.with(|c| c.borrow().now_us)
}

/// Current virtual time in nanoseconds; suitable as the `now` closure of `MainDevice::init`.
pub fn now_ns() -> u64 {
    now_us() * 1000
}

/// Reset this thread's clock to zero and forget all registered wake-ups.
pub fn reset_clock() {
    let old = CLOCK.with(|c| {
        let mut c = c.borrow_mut();
        c.now_us = 0;
        std::mem::take(&mut c.wakes)
    });
    drop(old);
}

/// Advance the clock by `us` and fire wake-ups that became due.
pub fn advance_us(us: u64) {
    let target = now_us().saturating_add(us);
    set_time(target);
}

fn set_time(target: u64) {
    let due: Vec<Waker> = CLOCK.with(|c| {
        let mut c = c.borrow_mut();
        if target > c.now_us {
            c.now_us = target;
        }
        let now = c.now_us;
        let later = c.wakes.split_off(&(now + 1));
        let due = std::mem::replace(&mut c.wakes, later);
        due.into_values().flatten().collect()
    });
    for w in due {
        w.wake();
    }
}

fn earliest_wake() -> Option<u64> {
    CLOCK.with(|c| c.borrow().wakes.keys().next().copied())
}

struct FlagWaker(AtomicBool);

impl Wake for FlagWaker {
    fn wake(self: Arc<Self>) {
        self.0.store(true, Ordering::SeqCst);
    }
    fn wake_by_ref(self: &Arc<Self>) {
        self.0.store(true, Ordering::SeqCst);
    }
}

/// Abort conditions for a run.
#[derive(Debug, Clone, Copy, PartialEq, Eq)]
pub struct Limits {
    /// Maximum number of frames sent during this call.
    pub max_frames: u64,
    /// Maximum virtual time spent during this call.
    pub max_virtual_us: u64,
}

impl Default for Limits {
    fn default() -> Self {
        Self {
            max_frames: 5_000_000,
            max_virtual_us: 600_000_000,
        }
    }
}

/// Cost model of the simulated wire.
#[derive(Debug, Clone, Copy, PartialEq, Eq)]
pub struct SimConfig {
    /// Fixed virtual time per frame in nanoseconds (MainDevice side latency).
    pub frame_fixed_ns: u64,
    /// Virtual time per frame byte in nanoseconds (80 ns = 100 Mbit/s).
    pub ns_per_byte: u64,
    /// Add the segment's propagation round trip of the frame.
    pub add_round_trip: bool,
    /// `Segment::now_ns = virtual clock * 1000 + segment_epoch_ns`.
    pub segment_epoch_ns: u64,
}

impl Default for SimConfig {
    fn default() -> Self {
        Self {
            frame_fixed_ns: 10_000,
            ns_per_byte: 80,
            add_round_trip: true,
            segment_epoch_ns: 0,
        }
    }
}

/// Statistics of one [`block_on`] call.
#[derive(Debug, Clone, Copy, PartialEq, Eq, Default)]
pub struct RunStats {
    pub polls: u64,
    pub frames_sent: u64,
    pub frames_lost: u64,
    pub rx_errors: u64,
    pub virtual_us: u64,
    pub clock_jumps: u64,
}

/// Result of [`block_on`].
#[derive(Debug)]
pub enum RunOutcome<T> {
    /// The future completed.
    Done(T, RunStats),
    /// The future is pending, nothing is in flight and no timer is registered.
    Hang(RunStats),
    /// `Limits` exceeded.
    Budget(RunStats),
}

impl<T> RunOutcome<T> {
    /// The future's output; panics (with the outcome kind) otherwise.
    pub fn unwrap(self) -> T {
        match self {
            RunOutcome::Done(v, _) => v,
            RunOutcome::Hang(s) => panic!("simulation hang: {s:?}"),
            RunOutcome::Budget(s) => panic!("simulation budget exceeded: {s:?}"),
        }
    }

    pub fn done(self) -> Option<T> {
        match self {
            RunOutcome::Done(v, _) => Some(v),
            _ => None,
        }
    }

    pub fn stats(&self) -> RunStats {
        match self {
            RunOutcome::Done(_, s) | RunOutcome::Hang(s) | RunOutcome::Budget(s) => *s,
        }
    }

    pub fn is_hang(&self) -> bool {
        matches!(self, RunOutcome::Hang(_))
    }

    pub fn is_budget(&self) -> bool {
        matches!(self, RunOutcome::Budget(_))
    }
}

/// Run `fut` to completion against the simulated segment with the default [`SimConfig`].
pub fn block_on<F: Future>(
    fut: F,
    tx: &mut PduTx<'_>,
    rx: &mut PduRx<'_>,
    seg: &mut Segment,
    limits: Limits,
) -> RunOutcome<F::Output> {
    block_on_with(fut, tx, rx, seg, limits, SimConfig::default())
}

/// Run `fut` to completion against the simulated segment.
pub fn block_on_with<F: Future>(
    fut: F,
    tx: &mut PduTx<'_>,
    rx: &mut PduRx<'_>,
    seg: &mut Segment,
    limits: Limits,
    cfg: SimConfig,
) -> RunOutcome<F::Output> {
    let mut fut = pin!(fut);
    let flag = Arc::new(FlagWaker(AtomicBool::new(true)));
    let waker = Waker::from(flag.clone());
    let mut cx = Context::from_waker(&waker);
    let mut stats = RunStats::default();
    let start_us = now_us();
    let mut buf: Vec<u8> = Vec::with_capacity(1600);

    loop {
        flag.0.store(false, Ordering::SeqCst);
        stats.polls += 1;
        if let Poll::Ready(v) = fut.as_mut().poll(&mut cx) {
            stats.virtual_us = now_us() - start_us;
            return RunOutcome::Done(v, stats);
        }

        // Drain everything that became sendable during the poll.
        let mut sent_any = false;
        while let Some(frame) = tx.next_sendable_frame() {
            buf.clear();
            let res = frame.send_blocking(|bytes| {
                buf.extend_from_slice(bytes);
                Ok(bytes.len())
            });
            if res.is_err() {
                continue;
            }
            sent_any = true;
            stats.frames_sent += 1;

            seg.now_ns = now_us().wrapping_mul(1000).wrapping_add(cfg.segment_epoch_ns);
            let response = seg.process(&buf);

            let mut cost_ns = cfg.frame_fixed_ns + cfg.ns_per_byte * buf.len() as u64;
            if cfg.add_round_trip {
                cost_ns += seg.last_round_trip_ns;
            }
            // At least one tick per frame so that busy loops make progress in time.
            advance_us(cost_ns.div_ceil(1000).max(1));

            match response {
                Some(resp) => {
                    if rx.receive_frame(&resp).is_err() {
                        stats.rx_errors += 1;
                    }
                }
                None => stats.frames_lost += 1,
            }

            if stats.frames_sent >= limits.max_frames {
                stats.virtual_us = now_us() - start_us;
                return RunOutcome::Budget(stats);
            }
        }

        stats.virtual_us = now_us() - start_us;
        if stats.virtual_us >= limits.max_virtual_us {
            return RunOutcome::Budget(stats);
        }

        if sent_any || flag.0.load(Ordering::SeqCst) {
            continue;
        }

        // Idle: jump to the next timer.
        match earliest_wake() {
            Some(t) => {
                stats.clock_jumps += 1;
                set_time(t);
                // Wakers of dropped timers may belong to nobody; make sure we poll again anyway.
                flag.0.store(true, Ordering::SeqCst);
            }
            None => {
                return RunOutcome::Hang(stats);
            }
        }
    }
}

// -------------------------------------------------------------------------------------------------
// Multi task executor
// -------------------------------------------------------------------------------------------------

/// Configuration of [`run_tasks`].
#[derive(Debug, Clone, Copy, PartialEq, Eq)]
pub struct MultiConfig {
    pub sim: SimConfig,
    /// Seed of the scheduler and of the wire latencies.
    pub seed: u64,
    /// Every response is delivered `latency_us.0 ..= latency_us.1` microseconds (seeded, uniform)
    /// after the frame was sent, plus the frame's cost from [`SimConfig`] when
    /// `add_frame_cost` is set.
    pub latency_us: (u64, u64),
    pub add_frame_cost: bool,
}

impl Default for MultiConfig {
    fn default() -> Self {
        Self {
            sim: SimConfig::default(),
            seed: 1,
            latency_us: (10, 10),
            add_frame_cost: false,
        }
    }
}

/// Statistics of one [`run_tasks`] call.
#[derive(Debug, Clone, PartialEq, Eq, Default)]
pub struct MultiStats {
    pub polls: u64,
    pub frames_sent: u64,
    pub frames_lost: u64,
    /// Responses `PduRx::receive_frame` refused (e.g. nobody waits for them any more).
    pub rx_errors: u64,
    pub virtual_us: u64,
    pub clock_jumps: u64,
    /// Largest number of frames that were sent but not yet answered at the same time.
    pub max_in_flight: usize,
    /// Responses delivered while an earlier sent frame was still in flight.
    pub overtakes: u64,
    /// Which tasks ran to completion.
    pub completed: Vec<bool>,
}

/// Result of [`run_tasks`].
#[derive(Debug, Clone, PartialEq, Eq)]
pub enum MultiOutcome {
    /// All tasks completed.
    Done(MultiStats),
    /// Some task is pending, nothing is in flight and no timer is registered.
    Hang(MultiStats),
    /// `Limits` exceeded.
    Budget(MultiStats),
}

impl MultiOutcome {
    pub fn stats(&self) -> &MultiStats {
        match self {
            MultiOutcome::Done(s) | MultiOutcome::Hang(s) | MultiOutcome::Budget(s) => s,
        }
    }

    pub fn kind(&self) -> &'static str {
        match self {
            MultiOutcome::Done(_) => "done",
            MultiOutcome::Hang(_) => "hang",
            MultiOutcome::Budget(_) => "budget",
        }
    }
}

/// A task of [`run_tasks`]. Tasks report their results through shared state (`Rc<RefCell<..>>`
/// borrowed only between await points) so that partial results survive a hang or a panic.
pub type Task<'a> = Pin<Box<dyn Future<Output = ()> + 'a>>;

struct InFlight {
    deliver_at_us: u64,
    /// Send order, to detect overtaking.
    sent_seq: u64,
    response: Option<Vec<u8>>,
}

/// Run several tasks that share one `MainDevice` on the calling thread.
///
/// * At every step one of the ready (woken, unfinished) tasks is chosen by a PRNG seeded with
///   `cfg.seed` and polled once. All tasks start ready.
/// * After every poll the sendable frames are drained: each is processed by the segment
///   immediately (frames are processed in send order) and its response is queued for delivery at
///   `now + latency`. Responses due at the same time are delivered in seeded order.
/// * When no task is ready the clock jumps to the next delivery or timer, whichever is first.
/// * A panic inside a task propagates to the caller (wrap the call in `catch_unwind`); nothing is
///   borrowed from thread local state while a task is polled.
pub fn run_tasks(
    mut tasks: Vec<Task<'_>>,
    tx: &mut PduTx<'_>,
    rx: &mut PduRx<'_>,
    seg: &mut Segment,
    limits: Limits,
    cfg: MultiConfig,
) -> MultiOutcome {
    let n = tasks.len();
    let flags: Vec<Arc<FlagWaker>> = (0..n).map(|_| Arc::new(FlagWaker(AtomicBool::new(true)))).collect();
    let wakers: Vec<Waker> = flags.iter().map(|f| Waker::from(f.clone())).collect();
    let mut done = vec![false; n];
    let mut stats = MultiStats {
        completed: vec![false; n],
        ..Default::default()
    };
    let start_us = now_us();
    let mut rng = Rng::new(cfg.seed ^ 0x6D75_6C74_6974_6173);
    let mut in_flight: Vec<InFlight> = Vec::new();
    let mut sent_seq = 0u64;
    let mut buf: Vec<u8> = Vec::with_capacity(1600);
    let (lat_min, lat_max) = (cfg.latency_us.0.min(cfg.latency_us.1), cfg.latency_us.0.max(cfg.latency_us.1));

    loop {
        stats.virtual_us = now_us() - start_us;
        if done.iter().all(|d| *d) {
            stats.completed = done;
            return MultiOutcome::Done(stats);
        }
        if stats.virtual_us >= limits.max_virtual_us || stats.frames_sent >= limits.max_frames {
            stats.completed = done;
            return MultiOutcome::Budget(stats);
        }

        // Deliver everything that is due (timers first: a response that arrives exactly at the
        // deadline competes with the timeout like on a real system, the future decides).
        let now = now_us();
        let mut due: Vec<InFlight> = Vec::new();
        let mut i = 0;
        while i < in_flight.len() {
            if in_flight[i].deliver_at_us <= now {
                due.push(in_flight.swap_remove(i));
            } else {
                i += 1;
            }
        }
        if !due.is_empty() {
            due.sort_by_key(|d| (d.deliver_at_us, d.sent_seq));
            // Same delivery time: seeded order
            let mut k = 0;
            while k < due.len() {
                let mut e = k + 1;
                while e < due.len() && due[e].deliver_at_us == due[k].deliver_at_us {
                    e += 1;
                }
                for a in (k + 1..e).rev() {
                    let b = k + rng.below((a - k + 1) as u64) as usize;
                    due.swap(a, b);
                }
                k = e;
            }
            for d in due {
                if in_flight.iter().any(|f| f.sent_seq < d.sent_seq) {
                    stats.overtakes += 1;
                }
                match d.response {
                    Some(resp) => {
                        rec_who(-2);
                        if REC_ON.with(|o| o.get()) {
                            rec_push(TaskEvent::Rx { idx: resp.get(17).copied().unwrap_or(0) });
                        }
                        if rx.receive_frame(&resp).is_err() {
                            stats.rx_errors += 1;
                        }
                    }
                    None => stats.frames_lost += 1,
                }
            }
            continue;
        }

        // Pick a ready task
        let ready: Vec<usize> = (0..n)
            .filter(|&t| !done[t] && flags[t].0.load(Ordering::SeqCst))
            .collect();
        if !ready.is_empty() {
            let t = ready[rng.below(ready.len() as u64) as usize];
            flags[t].0.store(false, Ordering::SeqCst);
            stats.polls += 1;
            let mut cx = Context::from_waker(&wakers[t]);
            rec_who(t as i32);
            if tasks[t].as_mut().poll(&mut cx).is_ready() {
                done[t] = true;
            }
            rec_who(-1);

            // Drain everything that became sendable during the poll.
            while let Some(frame) = tx.next_sendable_frame() {
                buf.clear();
                let res = frame.send_blocking(|bytes| {
                    buf.extend_from_slice(bytes);
                    Ok(bytes.len())
                });
                if res.is_err() {
                    continue;
                }
                stats.frames_sent += 1;
                seg.now_ns = now_us().wrapping_mul(1000).wrapping_add(cfg.sim.segment_epoch_ns);
                let response = seg.process(&buf);
                let mut delay_us = lat_min + rng.below(lat_max - lat_min + 1);
                if cfg.add_frame_cost {
                    let mut cost_ns = cfg.sim.frame_fixed_ns + cfg.sim.ns_per_byte * buf.len() as u64;
                    if cfg.sim.add_round_trip {
                        cost_ns += seg.last_round_trip_ns;
                    }
                    delay_us += cost_ns.div_ceil(1000);
                }
                in_flight.push(InFlight {
                    // At least one tick so that time passes for busy loops.
                    deliver_at_us: now_us() + delay_us.max(1),
                    sent_seq,
                    response,
                });
                sent_seq += 1;
                stats.max_in_flight = stats.max_in_flight.max(in_flight.len());
                if stats.frames_sent >= limits.max_frames {
                    break;
                }
            }
            continue;
        }

        // Nothing ready: jump to the next delivery or timer.
        let next_delivery = in_flight.iter().map(|f| f.deliver_at_us).min();
        let next = match (next_delivery, earliest_wake()) {
            (Some(a), Some(b)) => Some(a.min(b)),
            (a, b) => a.or(b),
        };
        match next {
            Some(t) => {
                stats.clock_jumps += 1;
                set_time(t);
                if next_delivery.is_none() {
                    // Wakers of dropped timers may belong to nobody: if the jump woke no task, look
                    // at the next timer instead of reporting a hang too early.
                    let any = (0..n).any(|t| !done[t] && flags[t].0.load(Ordering::SeqCst));
                    if !any && earliest_wake().is_none() {
                        stats.virtual_us = now_us() - start_us;
                        stats.completed = done;
                        return MultiOutcome::Hang(stats);
                    }
                }
            }
            None => {
                stats.completed = done;
                return MultiOutcome::Hang(stats);
            }
        }
    }
}

// ---------------------------------------------------------------------------------------------
// Frame-level event recorder for `run_tasks` (uses ethercrab's verification hooks)
// ---------------------------------------------------------------------------------------------

/// What happened to a frame slot, as far as an application task can tell.
#[derive(Debug, Clone, PartialEq, Eq)]
pub enum TaskEvent {
    /// Task claimed a free slot.
    Claim { task: i32, slot: u8 },
    /// Task tried to claim a slot that is in use.
    ClaimFail { task: i32, slot: u8 },
    /// The slot's frame got its (first) datagram index.
    Index { task: i32, slot: u8, idx: u8 },
    /// The transmit side took the frame.
    Send { slot: u8 },
    /// A response frame with this first datagram index was handed to the receive side.
    Rx { idx: u8 },
    /// The receive side accepted the response into this slot.
    Deliver { slot: u8 },
    /// The slot was set free again (task = who did it, -1 transmit side, -2 receive side).
    Release { task: i32, slot: u8 },
}

thread_local! {
    static REC_WHO: std::cell::Cell<i32> = const { std::cell::Cell::new(-3) };
    static REC_ON: std::cell::Cell<bool> = const { std::cell::Cell::new(false) };
    static REC_STATE: RefCell<[u8; 256]> = const { RefCell::new([0u8; 256]) };
    static REC_LOG: RefCell<Vec<TaskEvent>> = const { RefCell::new(Vec::new()) };
}

const REC_MAX: usize = 20_000;

fn rec_push(e: TaskEvent) {
    REC_LOG.with(|l| {
        let mut l = l.borrow_mut();
        if l.len() < REC_MAX {
            l.push(e);
        }
    });
}

fn rec_hook(site: ethercrab::verif::Site, slot: u8, a: u32, b: u32) {
    use ethercrab::verif::Site;
    if !REC_ON.with(|o| o.get()) {
        return;
    }
    let who = REC_WHO.with(|w| w.get());
    match site {
        Site::SwapState => {
            // The hook fires before the compare-exchange; on this single thread it succeeds exactly
            // when the tracked state is the expected one.
            let ok = REC_STATE.with(|s| {
                let mut s = s.borrow_mut();
                if u32::from(s[usize::from(slot)]) == a {
                    s[usize::from(slot)] = b as u8;
                    true
                } else {
                    false
                }
            });
            match (a, b, ok) {
                (0, 1, true) => rec_push(TaskEvent::Claim { task: who, slot }),
                (0, 1, false) => rec_push(TaskEvent::ClaimFail { task: who, slot }),
                (2, 3, true) => rec_push(TaskEvent::Send { slot }),
                (4, 5, true) => rec_push(TaskEvent::Deliver { slot }),
                (_, 0, true) => rec_push(TaskEvent::Release { task: who, slot }),
                _ => {}
            }
        }
        Site::SetState => {
            REC_STATE.with(|s| s.borrow_mut()[usize::from(slot)] = a as u8);
            if a == 0 {
                rec_push(TaskEvent::Release { task: who, slot });
            }
        }
        Site::FpSet => rec_push(TaskEvent::Index { task: who, slot, idx: a as u8 }),
        Site::Reset => REC_STATE.with(|s| *s.borrow_mut() = [0u8; 256]),
        _ => {}
    }
}

/// Start recording (slot states are taken to be "free": call when nothing is in flight).
pub fn rec_start() {
    REC_LOG.with(|l| l.borrow_mut().clear());
    REC_STATE.with(|s| *s.borrow_mut() = [0u8; 256]);
    REC_ON.with(|o| o.set(true));
    ethercrab::verif::set_hook(Some(rec_hook));
}

/// Stop recording and take the events.
pub fn rec_take() -> Vec<TaskEvent> {
    REC_ON.with(|o| o.set(false));
    ethercrab::verif::set_hook(None);
    REC_LOG.with(|l| std::mem::take(&mut *l.borrow_mut()))
}

fn rec_who(w: i32) {
    REC_WHO.with(|x| x.set(w));
}

/// Everything needed to create a `MainDevice`: leaked `'static` storage, split once.
pub struct Net {
    pub tx: PduTx<'static>,
    pub rx: PduRx<'static>,
    pub pdu_loop: Option<PduLoop<'static>>,
}

impl Net {
    /// Take the `PduLoop` (once) to construct the `MainDevice`.
    pub fn take_loop(&mut self) -> PduLoop<'static> {
        self.pdu_loop.take().expect("PduLoop already taken")
    }
}

/// Leak a `PduStorage<N, DATA>` and split it. `N` must be a power of two.
pub fn leak_storage<const N: usize, const DATA: usize>() -> Net {
    let storage: &'static PduStorage<N, DATA> = Box::leak(Box::new(PduStorage::new()));
    let (tx, rx, pdu_loop) = storage.try_split().expect("fresh storage splits once");
    Net {
        tx,
        rx,
        pdu_loop: Some(pdu_loop),
    }
}

/// Size of a storage element for `data` bytes of PDU payload.
pub const fn element(data: usize) -> usize {
    PduStorage::element_size(data)
}

/// 16 frames of 1100 payload bytes: general purpose.
pub fn net_general() -> Net {
    leak_storage::<16, { element(1100) }>()
}

/// 32 frames of 1100 payload bytes.
pub fn net_large() -> Net {
    leak_storage::<32, { element(1100) }>()
}

/// 4 frames of 128 payload bytes: forces chunking of larger process images / mailboxes.
pub fn net_small() -> Net {
    leak_storage::<4, { element(128) }>()
}

/// 2 frames of 32 payload bytes: minimal.
pub fn net_tiny() -> Net {
    leak_storage::<2, { element(32) }>()
}

/// A single frame slot of 64 payload bytes.
pub fn net_single() -> Net {
    leak_storage::<1, { element(64) }>()
}
