//! Mailbox transport state and a CoE (CAN application protocol over EtherCAT) server for the
//! simulated devices in [`crate::simnet`] (ETG.1000.5/.6 chapter 5.6).
//!
//! What is implemented:
//!
//! * Mailbox header handling (length, address, channel/priority, type, counter 1..7). Replies carry
//!   the device's own counter which is incremented for every message sent (1..7, never 0).
//! * SDO upload: expedited, normal, segmented (toggle bit, last segment bit, unused byte count),
//!   selectable with [`UploadMode`].
//! * SDO download: expedited, normal (single mailbox); segmented download (ccs 0) is accepted too.
//! * Complete access for upload and download (sub-index 0 is padded to 16 bits as on the wire).
//! * Abort codes for missing object / sub-index, read-only, write-only, length mismatch, toggle
//!   error, unsupported command, complete access not supported.
//! * SDO information: "get OD list" (list types 0..5), fragmented if it does not fit. "Get object
//!   description" and "get entry description" are answered with an SDO info error (abort
//!   0x06010000).
//! * Emergency injection, scripted raw replies (one per request, all at once with
//!   `Mailbox::scripted_burst`, the last one repeated for ever with `Mailbox::scripted_repeat_last`),
//!   dropping of requests, one-shot manipulation of the next SDO reply ([`SdoInject`]: abort with a
//!   given code, wrong index, wrong sub-index).
//!
//! Simplifications / deviations:
//!
//! * No data types: every object entry is an opaque little-endian byte string. A download must
//!   have exactly the stored length unless the entry is listed in `CoeServer::variable_len`.
//! * Sub-index 0 is a normal stored entry; it is not derived from the number of entries.
//! * No PDO mapping validation: 0x1C12/0x1C13/0x16xx/0x1Axx are plain objects.
//! * Non-CoE mailbox types are answered with a mailbox error reply (type 0, detail 0x0002
//!   "unsupported protocol"). EoE/FoE/SoE/AoE are not implemented.
//! * The reserved bytes of an expedited download response echo the request data (as real Beckhoff
//!   devices do in /repo/tests/replay-ek1914-el3004-configure.pcapng); the specification only says
//!   "reserved".
//! * [`SegmentQuirks`] can deliberately deviate from ETG.1000.6 for upload segment responses (the
//!   defaults follow the specification).

use std::collections::{BTreeMap, BTreeSet, VecDeque};

pub const MBX_HEADER_LEN: usize = 6;
pub const MBX_TYPE_ERR: u8 = 0;
pub const MBX_TYPE_COE: u8 = 3;

pub const COE_SERVICE_EMERGENCY: u8 = 1;
pub const COE_SERVICE_SDO_REQUEST: u8 = 2;
pub const COE_SERVICE_SDO_RESPONSE: u8 = 3;
pub const COE_SERVICE_SDO_INFO: u8 = 8;

/// SDO abort codes used by the server.
pub mod abort {
    pub const TOGGLE_BIT: u32 = 0x0503_0000;
    pub const INVALID_COMMAND: u32 = 0x0504_0001;
    pub const UNSUPPORTED_ACCESS: u32 = 0x0601_0000;
    pub const WRITE_ONLY: u32 = 0x0601_0001;
    pub const READ_ONLY: u32 = 0x0601_0002;
    pub const NO_COMPLETE_ACCESS: u32 = 0x0601_0004;
    pub const NOT_FOUND: u32 = 0x0602_0000;
    pub const LENGTH_MISMATCH: u32 = 0x0607_0010;
    pub const TOO_LONG: u32 = 0x0607_0012;
    pub const TOO_SHORT: u32 = 0x0607_0013;
    pub const SUBINDEX_NOT_FOUND: u32 = 0x0609_0011;
    pub const GENERAL: u32 = 0x0800_0000;
}

/// How an SDO upload is answered.
#[derive(Debug, Clone, PartialEq, Eq, Default)]
pub enum UploadMode {
    /// <= 4 bytes expedited, fits in one mailbox: normal, otherwise segmented with maximum sized
    /// segments.
    #[default]
    Auto,
    /// Never expedited. Normal if it fits, otherwise segmented.
    ForceNormal,
    /// Always segmented (also for tiny objects). `seg_sizes[0]` is the number of data bytes in the
    /// initiate response (may be 0), `seg_sizes[i]` the size of segment `i`; the last entry is
    /// repeated. Sizes are clamped to `1..=capacity` for segments.
    ForceSegmented { seg_sizes: Vec<usize> },
}

/// Deliberate deviations for upload segment responses. `Default` follows ETG.1000.6.
#[derive(Debug, Clone, PartialEq, Eq)]
pub struct SegmentQuirks {
    /// Command specifier (bits 5..7 of the SDO byte) of an upload segment response. Spec: 0.
    pub command_specifier: u8,
    /// Offset of the segment data from the start of the mailbox message. Spec: 9
    /// (6 byte mailbox header + 2 byte CoE header + 1 byte SDO header).
    pub data_offset: usize,
    /// The initiate response of a segmented upload carries the first part of the data (spec: yes).
    pub data_in_init_response: bool,
}

impl Default for SegmentQuirks {
    fn default() -> Self {
        Self {
            command_specifier: 0,
            data_offset: 9,
            data_in_init_response: true,
        }
    }
}

impl SegmentQuirks {
    /// The layout the ethercrab revision under test can decode: command specifier 3, data at
    /// offset 12, nothing in the initiate response.
    pub fn ethercrab_compat() -> Self {
        Self {
            command_specifier: 3,
            data_offset: 12,
            data_in_init_response: false,
        }
    }
}

#[derive(Debug, Clone)]
struct SegUpload {
    data: Vec<u8>,
    pos: usize,
    toggle: bool,
    seg_no: usize,
}

#[derive(Debug, Clone)]
struct SegDownload {
    index: u16,
    sub: u8,
    complete: bool,
    data: Vec<u8>,
    expected: usize,
    toggle: bool,
}

/// A one-shot manipulation of the reply to the next SDO request (see [`CoeServer::inject`]).
#[derive(Debug, Clone, Copy, PartialEq, Eq)]
pub enum SdoInject {
    /// Answer with an abort carrying this code (the request is not executed).
    Abort(u32),
    /// Execute the request, but flip the lowest bit of the index in the reply's SDO header.
    WrongIndex,
    /// Execute the request, but add one to the sub-index in the reply's SDO header.
    WrongSub,
}

/// One reply produced by the CoE server.
#[derive(Debug, Clone, PartialEq, Eq)]
pub struct CoeReply {
    /// Message starting with the CoE header.
    pub payload: Vec<u8>,
    /// Value for the mailbox header length field if it shall differ from `payload.len()` (only used
    /// by [`SegmentQuirks`] with a non-standard data offset).
    pub declared_len: Option<u16>,
}

impl CoeReply {
    pub fn plain(payload: Vec<u8>) -> Self {
        Self {
            payload,
            declared_len: None,
        }
    }
}

/// CoE server over an object dictionary.
#[derive(Debug, Clone, Default)]
pub struct CoeServer {
    pub od: BTreeMap<(u16, u8), Vec<u8>>,
    pub read_only: BTreeSet<(u16, u8)>,
    pub write_only: BTreeSet<(u16, u8)>,
    /// Entries that accept downloads of any length.
    pub variable_len: BTreeSet<(u16, u8)>,
    pub upload_mode: UploadMode,
    pub segment_quirks: SegmentQuirks,
    pub complete_access: bool,
    pub sdo_info: bool,
    /// Object indices reported for OD list types 2..5 (RxPDO mappable, TxPDO mappable, backup,
    /// startup). List type 1 is always all indices of `od`.
    pub od_lists: [Vec<u16>; 4],
    /// Number of SDO requests served (for tests).
    pub requests_served: u64,
    /// Applied to the next SDO request, then cleared. Segment requests/responses carry no index and
    /// are only affected by [`SdoInject::Abort`].
    pub inject: Option<SdoInject>,
    upload: Option<SegUpload>,
    download: Option<SegDownload>,
    declared_len: Option<u16>,
}

fn sdo_header(cmd: u8, index: u16, sub: u8) -> Vec<u8> {
    let mut v = vec![cmd];
    v.extend_from_slice(&index.to_le_bytes());
    v.push(sub);
    v
}

fn coe_header(service: u8) -> [u8; 2] {
    (u16::from(service) << 12).to_le_bytes()
}

impl CoeServer {
    pub fn new() -> Self {
        Self {
            complete_access: true,
            sdo_info: true,
            ..Default::default()
        }
    }

    /// Insert an entry.
    pub fn set(&mut self, index: u16, sub: u8, data: impl Into<Vec<u8>>) -> &mut Self {
        self.od.insert((index, sub), data.into());
        self
    }

    pub fn set_u8(&mut self, index: u16, sub: u8, v: u8) -> &mut Self {
        self.set(index, sub, vec![v])
    }

    pub fn set_u16(&mut self, index: u16, sub: u8, v: u16) -> &mut Self {
        self.set(index, sub, v.to_le_bytes().to_vec())
    }

    pub fn set_u32(&mut self, index: u16, sub: u8, v: u32) -> &mut Self {
        self.set(index, sub, v.to_le_bytes().to_vec())
    }

    pub fn get(&self, index: u16, sub: u8) -> Option<&[u8]> {
        self.od.get(&(index, sub)).map(|v| v.as_slice())
    }

    /// Store an array object: sub 0 = count (u8), sub 1.. = entries.
    pub fn set_array_u16(&mut self, index: u16, values: &[u16]) -> &mut Self {
        self.set_u8(index, 0, values.len() as u8);
        for (i, v) in values.iter().enumerate() {
            self.set_u16(index, (i + 1) as u8, *v);
        }
        self
    }

    /// Store a PDO mapping object (0x16xx / 0x1Axx): entries are `(index, sub, bit_len)`.
    pub fn set_pdo_mapping(&mut self, index: u16, entries: &[(u16, u8, u8)]) -> &mut Self {
        self.set_u8(index, 0, entries.len() as u8);
        for (i, (idx, sub, bits)) in entries.iter().enumerate() {
            let v = (u32::from(*idx) << 16) | (u32::from(*sub) << 8) | u32::from(*bits);
            self.set_u32(index, (i + 1) as u8, v);
        }
        self
    }

    fn object_exists(&self, index: u16) -> bool {
        self.od.range((index, 0)..=(index, 255)).next().is_some()
    }

    fn abort(index: u16, sub: u8, code: u32) -> Vec<u8> {
        let mut v = coe_header(COE_SERVICE_SDO_REQUEST).to_vec();
        v.extend_from_slice(&sdo_header(0x80, index, sub));
        v.extend_from_slice(&code.to_le_bytes());
        v
    }

    /// Data for an upload of `(index, sub)`, honouring complete access.
    fn upload_data(&self, index: u16, sub: u8, complete: bool) -> Result<Vec<u8>, u32> {
        if !self.object_exists(index) {
            return Err(abort::NOT_FOUND);
        }
        if complete {
            if !self.complete_access {
                return Err(abort::NO_COMPLETE_ACCESS);
            }
            if sub > 1 {
                return Err(abort::UNSUPPORTED_ACCESS);
            }
            let mut out = Vec::new();
            for ((_, s), data) in self.od.range((index, sub)..=(index, 255)) {
                if self.write_only.contains(&(index, *s)) {
                    return Err(abort::WRITE_ONLY);
                }
                out.extend_from_slice(data);
                if *s == 0 && data.len() == 1 {
                    // sub-index 0 is padded to 16 bit in complete access
                    out.push(0);
                }
            }
            Ok(out)
        } else {
            let Some(data) = self.od.get(&(index, sub)) else {
                return Err(abort::SUBINDEX_NOT_FOUND);
            };
            if self.write_only.contains(&(index, sub)) {
                return Err(abort::WRITE_ONLY);
            }
            Ok(data.clone())
        }
    }

    fn store(&mut self, index: u16, sub: u8, complete: bool, data: &[u8]) -> Result<(), u32> {
        if !self.object_exists(index) {
            return Err(abort::NOT_FOUND);
        }
        if complete {
            if !self.complete_access {
                return Err(abort::NO_COMPLETE_ACCESS);
            }
            if sub > 1 {
                return Err(abort::UNSUPPORTED_ACCESS);
            }
            // Split over the existing entries according to their stored lengths.
            let keys: Vec<(u16, u8)> = self
                .od
                .range((index, sub)..=(index, 255))
                .map(|(k, _)| *k)
                .collect();
            let mut off = 0usize;
            let mut updates = Vec::new();
            for k in keys {
                if off >= data.len() {
                    break;
                }
                if self.read_only.contains(&k) {
                    return Err(abort::READ_ONLY);
                }
                let len = self.od[&k].len();
                let wire_len = if k.1 == 0 && len == 1 { 2 } else { len };
                let Some(chunk) = data.get(off..off + len) else {
                    return Err(abort::LENGTH_MISMATCH);
                };
                updates.push((k, chunk.to_vec()));
                off += wire_len;
            }
            for (k, v) in updates {
                self.od.insert(k, v);
            }
            Ok(())
        } else {
            let Some(old) = self.od.get(&(index, sub)) else {
                return Err(abort::SUBINDEX_NOT_FOUND);
            };
            if self.read_only.contains(&(index, sub)) {
                return Err(abort::READ_ONLY);
            }
            if !self.variable_len.contains(&(index, sub)) && old.len() != data.len() {
                return Err(if data.len() > old.len() {
                    abort::TOO_LONG
                } else {
                    abort::TOO_SHORT
                });
            }
            self.od.insert((index, sub), data.to_vec());
            Ok(())
        }
    }

    /// Handle one CoE message (`msg` starts at the CoE header). `capacity` is the size of the read
    /// mailbox in bytes (including the 6 byte mailbox header). Returns zero or more CoE messages
    /// (each starting with the CoE header).
    pub fn handle(&mut self, msg: &[u8], capacity: usize) -> Vec<CoeReply> {
        if msg.len() < 2 {
            return vec![];
        }
        let service = (u16::from_le_bytes([msg[0], msg[1]]) >> 12) as u8;
        match service {
            COE_SERVICE_SDO_REQUEST => {
                self.requests_served += 1;
                self.declared_len = None;
                let payload = match self.inject.take() {
                    Some(SdoInject::Abort(code)) => {
                        let sdo = &msg[2..];
                        let index = u16::from_le_bytes([*sdo.get(1).unwrap_or(&0), *sdo.get(2).unwrap_or(&0)]);
                        self.upload = None;
                        self.download = None;
                        Self::abort(index, *sdo.get(3).unwrap_or(&0), code)
                    }
                    Some(other) => {
                        let mut p = self.handle_sdo(&msg[2..], capacity);
                        // CoE header (2), SDO command (1), index (2), sub-index (1); segment
                        // responses (command specifier 0 with no index) are left alone.
                        let is_segment_request = msg.get(2).is_some_and(|c| c >> 5 == 3 || c >> 5 == 0);
                        if p.len() >= 6 && !is_segment_request {
                            match other {
                                SdoInject::WrongIndex => p[3] ^= 0x01,
                                SdoInject::WrongSub => p[5] = p[5].wrapping_add(1),
                                SdoInject::Abort(_) => {}
                            }
                        }
                        p
                    }
                    None => self.handle_sdo(&msg[2..], capacity),
                };
                vec![CoeReply {
                    payload,
                    declared_len: self.declared_len.take(),
                }]
            }
            COE_SERVICE_SDO_INFO if self.sdo_info => self
                .handle_sdo_info(&msg[2..], capacity)
                .into_iter()
                .map(CoeReply::plain)
                .collect(),
            _ => vec![CoeReply::plain(Self::abort(0, 0, abort::UNSUPPORTED_ACCESS))],
        }
    }

    fn handle_sdo(&mut self, sdo: &[u8], capacity: usize) -> Vec<u8> {
        let cmd = *sdo.first().unwrap_or(&0);
        let ccs = cmd >> 5;
        let index = u16::from_le_bytes([*sdo.get(1).unwrap_or(&0), *sdo.get(2).unwrap_or(&0)]);
        let sub = *sdo.get(3).unwrap_or(&0);
        let complete = cmd & 0x10 != 0;

        match ccs {
            // Initiate upload
            2 => {
                self.upload = None;
                self.download = None;
                match self.upload_data(index, sub, complete) {
                    Ok(data) => self.start_upload(index, sub, complete, data, capacity),
                    Err(code) => Self::abort(index, sub, code),
                }
            }
            // Upload segment
            3 => {
                let toggle = cmd & 0x10 != 0;
                let Some(mut st) = self.upload.take() else {
                    return Self::abort(0, 0, abort::INVALID_COMMAND);
                };
                if toggle != st.toggle {
                    return Self::abort(0, 0, abort::TOGGLE_BIT);
                }
                let max = capacity.saturating_sub(self.segment_quirks.data_offset).max(1);
                let want = self.segment_size(st.seg_no + 1).clamp(1, max);
                let remaining = st.data.len() - st.pos;
                let n = want.min(remaining);
                let chunk = st.data[st.pos..st.pos + n].to_vec();
                st.pos += n;
                let last = st.pos >= st.data.len();
                let unused = 7usize.saturating_sub(n);
                let mut hdr = (self.segment_quirks.command_specifier & 7) << 5;
                if st.toggle {
                    hdr |= 0x10;
                }
                hdr |= ((unused as u8) & 7) << 1;
                if last {
                    hdr |= 1;
                }
                let mut v = coe_header(COE_SERVICE_SDO_RESPONSE).to_vec();
                v.push(hdr);
                // Quirk: extra bytes between SDO header and data.
                let extra = self.segment_quirks.data_offset.saturating_sub(9);
                v.extend(std::iter::repeat(0).take(extra));
                v.extend_from_slice(&chunk);
                // Minimum segment payload is 7 bytes.
                v.extend(std::iter::repeat(0).take(unused));
                if extra > 0 {
                    // The length field keeps the value a standard message would have.
                    self.declared_len = Some((v.len() - extra) as u16);
                }
                st.toggle = !st.toggle;
                st.seg_no += 1;
                if !last {
                    self.upload = Some(st);
                }
                v
            }
            // Initiate download
            1 => {
                self.upload = None;
                self.download = None;
                let expedited = cmd & 0x02 != 0;
                let size_ind = cmd & 0x01 != 0;
                if expedited {
                    let n = if size_ind { 4 - usize::from((cmd >> 2) & 3) } else { 4 };
                    let data = sdo.get(4..4 + n).unwrap_or(&[]).to_vec();
                    match self.store(index, sub, complete, &data) {
                        Ok(()) => {
                            // Like the Beckhoff slave stack, which reuses the request buffer, the
                            // four "reserved" bytes of the response echo the request data.
                            let mut v = Self::download_response(index, sub);
                            let n = v.len();
                            for (i, b) in v[n - 4..].iter_mut().enumerate() {
                                *b = *sdo.get(4 + i).unwrap_or(&0);
                            }
                            v
                        }
                        Err(code) => Self::abort(index, sub, code),
                    }
                } else {
                    let total = u32::from_le_bytes([
                        *sdo.get(4).unwrap_or(&0),
                        *sdo.get(5).unwrap_or(&0),
                        *sdo.get(6).unwrap_or(&0),
                        *sdo.get(7).unwrap_or(&0),
                    ]) as usize;
                    let have = sdo.get(8..).unwrap_or(&[]);
                    if have.len() >= total {
                        match self.store(index, sub, complete, &have[..total]) {
                            Ok(()) => Self::download_response(index, sub),
                            Err(code) => Self::abort(index, sub, code),
                        }
                    } else {
                        self.download = Some(SegDownload {
                            index,
                            sub,
                            complete,
                            data: have.to_vec(),
                            expected: total,
                            toggle: false,
                        });
                        Self::download_response(index, sub)
                    }
                }
            }
            // Download segment
            0 => {
                let Some(mut st) = self.download.take() else {
                    return Self::abort(0, 0, abort::INVALID_COMMAND);
                };
                let toggle = cmd & 0x10 != 0;
                if toggle != st.toggle {
                    return Self::abort(st.index, st.sub, abort::TOGGLE_BIT);
                }
                let last = cmd & 1 != 0;
                let unused = usize::from((cmd >> 1) & 7);
                let payload = sdo.get(1..).unwrap_or(&[]);
                let n = if payload.len() <= 7 { payload.len().saturating_sub(unused) } else { payload.len() };
                let room = st.expected.saturating_sub(st.data.len());
                st.data.extend_from_slice(&payload[..n.min(room)]);
                let mut v = coe_header(COE_SERVICE_SDO_RESPONSE).to_vec();
                v.push(0x20 | if toggle { 0x10 } else { 0 });
                v.extend_from_slice(&[0; 7]);
                if last {
                    if let Err(code) = self.store(st.index, st.sub, st.complete, &st.data.clone()) {
                        return Self::abort(st.index, st.sub, code);
                    }
                } else {
                    st.toggle = !st.toggle;
                    self.download = Some(st);
                }
                v
            }
            // Abort from the MainDevice: no answer in real devices; we drop state and stay silent by
            // answering nothing would stall a waiting client, so acknowledge with an abort echo.
            4 => {
                self.upload = None;
                self.download = None;
                Self::abort(index, sub, abort::GENERAL)
            }
            _ => Self::abort(index, sub, abort::INVALID_COMMAND),
        }
    }

    fn download_response(index: u16, sub: u8) -> Vec<u8> {
        let mut v = coe_header(COE_SERVICE_SDO_RESPONSE).to_vec();
        v.extend_from_slice(&sdo_header(0x60, index, sub));
        v.extend_from_slice(&[0; 4]);
        v
    }

    fn segment_size(&self, seg_no: usize) -> usize {
        match &self.upload_mode {
            UploadMode::ForceSegmented { seg_sizes } if !seg_sizes.is_empty() => {
                *seg_sizes.get(seg_no).unwrap_or(seg_sizes.last().unwrap())
            }
            _ => usize::MAX,
        }
    }

    fn start_upload(
        &mut self,
        index: u16,
        sub: u8,
        complete: bool,
        data: Vec<u8>,
        capacity: usize,
    ) -> Vec<u8> {
        let ca = if complete { 0x10 } else { 0 };
        // mailbox header 6 + CoE 2 + SDO 4 + complete size 4
        let normal_room = capacity.saturating_sub(16);

        let expedited_ok = data.len() <= 4 && !data.is_empty() && self.upload_mode == UploadMode::Auto;
        if expedited_ok {
            let n = data.len();
            let cmd = 0x40 | ca | 0x02 | 0x01 | (((4 - n) as u8) << 2);
            let mut v = coe_header(COE_SERVICE_SDO_RESPONSE).to_vec();
            v.extend_from_slice(&sdo_header(cmd, index, sub));
            let mut d = [0u8; 4];
            d[..n].copy_from_slice(&data);
            v.extend_from_slice(&d);
            return v;
        }

        let forced_seg = matches!(self.upload_mode, UploadMode::ForceSegmented { .. });
        let first_len = if forced_seg {
            if self.segment_quirks.data_in_init_response {
                self.segment_size(0).min(normal_room).min(data.len())
            } else {
                0
            }
        } else if data.len() <= normal_room {
            data.len()
        } else if self.segment_quirks.data_in_init_response {
            normal_room
        } else {
            0
        };

        let cmd = 0x40 | ca | 0x01;
        let mut v = coe_header(COE_SERVICE_SDO_RESPONSE).to_vec();
        v.extend_from_slice(&sdo_header(cmd, index, sub));
        v.extend_from_slice(&(data.len() as u32).to_le_bytes());
        v.extend_from_slice(&data[..first_len]);

        if first_len < data.len() {
            self.upload = Some(SegUpload {
                data,
                pos: first_len,
                toggle: false,
                seg_no: 0,
            });
        }
        v
    }

    fn handle_sdo_info(&mut self, info: &[u8], capacity: usize) -> Vec<Vec<u8>> {
        let opcode = info.first().unwrap_or(&0) & 0x7F;
        match opcode {
            // Get OD list request
            1 => {
                let list_type = u16::from_le_bytes([*info.get(4).unwrap_or(&0), *info.get(5).unwrap_or(&0)]);
                let mut all: Vec<u16> = self.od.keys().map(|(i, _)| *i).collect();
                all.dedup();
                let mut payload = list_type.to_le_bytes().to_vec();
                match list_type {
                    0 => {
                        payload.extend_from_slice(&(all.len() as u16).to_le_bytes());
                        for l in &self.od_lists {
                            payload.extend_from_slice(&(l.len() as u16).to_le_bytes());
                        }
                    }
                    1 => {
                        for i in &all {
                            payload.extend_from_slice(&i.to_le_bytes());
                        }
                    }
                    2..=5 => {
                        for i in &self.od_lists[usize::from(list_type) - 2] {
                            payload.extend_from_slice(&i.to_le_bytes());
                        }
                    }
                    _ => return vec![Self::sdo_info_error(abort::UNSUPPORTED_ACCESS)],
                }
                // mailbox header 6 + CoE header 2 + SDO info header 4
                let room = (capacity.saturating_sub(12) & !1).max(2);
                let chunks: Vec<&[u8]> = payload.chunks(room).collect();
                let n = chunks.len();
                chunks
                    .iter()
                    .enumerate()
                    .map(|(i, c)| {
                        let left = (n - 1 - i) as u16;
                        let mut v = coe_header(COE_SERVICE_SDO_INFO).to_vec();
                        v.push(0x02 | if left > 0 { 0x80 } else { 0 });
                        v.push(0);
                        v.extend_from_slice(&left.to_le_bytes());
                        v.extend_from_slice(c);
                        v
                    })
                    .collect()
            }
            _ => vec![Self::sdo_info_error(abort::UNSUPPORTED_ACCESS)],
        }
    }

    fn sdo_info_error(code: u32) -> Vec<u8> {
        let mut v = coe_header(COE_SERVICE_SDO_INFO).to_vec();
        v.extend_from_slice(&[0x07, 0, 0, 0]);
        v.extend_from_slice(&code.to_le_bytes());
        v
    }
}

/// Direction of a logged mailbox message.
#[derive(Debug, Clone, Copy, PartialEq, Eq)]
pub enum MbxDir {
    /// MainDevice -> device.
    In,
    /// Device -> MainDevice.
    Out,
}

/// Mailbox transport state of one device.
#[derive(Debug, Clone)]
pub struct Mailbox {
    pub coe: Option<CoeServer>,
    /// Complete raw mailbox messages waiting to be placed into the read mailbox.
    pub out_queue: VecDeque<Vec<u8>>,
    /// If non-empty, the next request is answered with exactly these bytes at the start of the
    /// read mailbox (no header is added, the CoE server does not see the request).
    pub scripted_replies: VecDeque<Vec<u8>>,
    /// When the last scripted reply has been used, keep answering every further request with it
    /// (instead of handing requests to the CoE server again).
    pub scripted_repeat_last: bool,
    /// Queue ALL remaining scripted replies as the answer to the next request (several messages for
    /// one request, e.g. SDO information fragments).
    pub scripted_burst: bool,
    /// The device keeps putting the last scripted reply into its send mailbox without being asked.
    pub scripted_endless: bool,
    pub(crate) scripted_last: Option<Vec<u8>>,
    /// Delivered as the next reply.
    pub pending_emergency: Option<(u16, u8, [u8; 5])>,
    /// `true`: the emergency replaces the reply to the next request. `false`: the emergency is
    /// delivered first and the reply is queued behind it.
    pub emergency_replaces_reply: bool,
    /// Fill for the part of the read mailbox behind the message.
    pub fill_byte: u8,
    /// Number of reads of the read mailbox SM status that still report "empty" after a reply became
    /// available.
    pub response_delay_polls: u32,
    /// Number of reads of the write mailbox SM status that still report "full" after a request was
    /// written.
    pub consume_delay_polls: u32,
    /// Swallow the next `k` requests without answering.
    pub drop_requests: u32,
    /// Every message in both directions, raw.
    pub log: Vec<(MbxDir, Vec<u8>)>,
    counter: u8,
    pub(crate) in_full_polls_left: u32,
    pub(crate) out_delay_left: u32,
    pub(crate) out_full: bool,
    pub(crate) out_was_read: bool,
    pub(crate) in_was_consumed: bool,
}

impl Mailbox {
    pub fn new(coe: Option<CoeServer>) -> Self {
        Self {
            coe,
            out_queue: VecDeque::new(),
            scripted_replies: VecDeque::new(),
            scripted_repeat_last: false,
            scripted_burst: false,
            scripted_endless: false,
            scripted_last: None,
            pending_emergency: None,
            emergency_replaces_reply: true,
            fill_byte: 0,
            response_delay_polls: 0,
            consume_delay_polls: 0,
            drop_requests: 0,
            log: Vec::new(),
            counter: 0,
            in_full_polls_left: 0,
            out_delay_left: 0,
            out_full: false,
            out_was_read: false,
            in_was_consumed: false,
        }
    }

    pub fn coe_mut(&mut self) -> &mut CoeServer {
        self.coe.as_mut().expect("device has no CoE server")
    }

    fn next_counter(&mut self) -> u8 {
        self.counter = if self.counter >= 7 { 1 } else { self.counter + 1 };
        self.counter
    }

    /// Wrap a payload in a mailbox header.
    pub fn wrap(&mut self, mbx_type: u8, address: u16, payload: &[u8]) -> Vec<u8> {
        self.wrap_declared(mbx_type, address, payload, payload.len() as u16)
    }

    /// Like [`wrap`](Self::wrap) with an explicit value for the length field.
    pub fn wrap_declared(&mut self, mbx_type: u8, address: u16, payload: &[u8], declared: u16) -> Vec<u8> {
        let cnt = self.next_counter();
        let mut v = declared.to_le_bytes().to_vec();
        v.extend_from_slice(&address.to_le_bytes());
        v.push(0);
        v.push((mbx_type & 0x0F) | (cnt << 4));
        v.extend_from_slice(payload);
        v
    }

    pub fn emergency_message(&mut self, code: u16, register: u8, data: [u8; 5]) -> Vec<u8> {
        let mut p = coe_header(COE_SERVICE_EMERGENCY).to_vec();
        p.extend_from_slice(&code.to_le_bytes());
        p.push(register);
        p.extend_from_slice(&data);
        self.wrap(MBX_TYPE_COE, 0, &p)
    }

    /// Queue an unsolicited emergency right now.
    pub fn push_emergency(&mut self, code: u16, register: u8, data: [u8; 5]) {
        let m = self.emergency_message(code, register, data);
        self.out_queue.push_back(m);
    }

    /// A complete request has been written into the write mailbox. `capacity` = read mailbox size.
    pub fn request_received(&mut self, raw: &[u8], capacity: usize) {
        let len = usize::from(u16::from_le_bytes([raw[0], raw[1]]));
        let end = (MBX_HEADER_LEN + len).min(raw.len());
        self.log.push((MbxDir::In, raw[..end].to_vec()));

        if self.drop_requests > 0 {
            self.drop_requests -= 1;
            return;
        }

        if let Some(reply) = self.scripted_replies.pop_front() {
            if self.scripted_repeat_last {
                self.scripted_last = Some(reply.clone());
            }
            self.out_queue.push_back(reply);
            if self.scripted_burst {
                while let Some(more) = self.scripted_replies.pop_front() {
                    if self.scripted_repeat_last {
                        self.scripted_last = Some(more.clone());
                    }
                    self.out_queue.push_back(more);
                }
            }
            return;
        }
        if self.scripted_repeat_last {
            if let Some(reply) = self.scripted_last.clone() {
                self.out_queue.push_back(reply);
                return;
            }
        }

        let address = u16::from_le_bytes([raw[2], raw[3]]);
        let mbx_type = raw[5] & 0x0F;

        let emergency = self.pending_emergency.take();
        if let Some((code, reg, data)) = emergency {
            let m = self.emergency_message(code, reg, data);
            self.out_queue.push_back(m);
            if self.emergency_replaces_reply {
                // The CoE server still sees the request (state changes happen), the reply is lost.
                if mbx_type == MBX_TYPE_COE {
                    if let Some(coe) = self.coe.as_mut() {
                        let _ = coe.handle(&raw[MBX_HEADER_LEN..end], capacity);
                    }
                }
                return;
            }
        }

        let replies: Vec<(u8, CoeReply)> = match (mbx_type, self.coe.as_mut()) {
            (MBX_TYPE_COE, Some(coe)) => coe
                .handle(&raw[MBX_HEADER_LEN..end], capacity)
                .into_iter()
                .map(|p| (MBX_TYPE_COE, p))
                .collect(),
            // Mailbox error reply: type 0x0001, detail 0x0002 (unsupported protocol)
            _ => vec![(MBX_TYPE_ERR, CoeReply::plain(vec![0x01, 0x00, 0x02, 0x00]))],
        };

        for (ty, r) in replies {
            let declared = r.declared_len.unwrap_or(r.payload.len() as u16);
            let m = self.wrap_declared(ty, address, &r.payload, declared);
            self.out_queue.push_back(m);
        }
    }
}

#[cfg(test)]
mod tests {
    use super::*;

    fn req(cmd: u8, index: u16, sub: u8, rest: &[u8]) -> Vec<u8> {
        let mut v = coe_header(COE_SERVICE_SDO_REQUEST).to_vec();
        v.extend_from_slice(&sdo_header(cmd, index, sub));
        v.extend_from_slice(rest);
        v
    }

    fn server() -> CoeServer {
        let mut s = CoeServer::new();
        s.set_u8(0x2000, 0, 2);
        s.set_u16(0x2000, 1, 0x1111);
        s.set_u32(0x2000, 2, 0x2222_2222);
        s.set(0x2100, 0, vec![0; 20]);
        s.variable_len.insert((0x2100, 0));
        s
    }

    #[test]
    fn normal_and_segmented_download() {
        let mut s = server();
        // Normal download, 10 bytes in one message
        let mut rest = 10u32.to_le_bytes().to_vec();
        rest.extend_from_slice(&[1, 2, 3, 4, 5, 6, 7, 8, 9, 10]);
        let r = s.handle(&req(0x21, 0x2100, 0, &rest), 128);
        assert_eq!(r[0].payload[2], 0x60);
        assert_eq!(s.get(0x2100, 0).unwrap(), &[1, 2, 3, 4, 5, 6, 7, 8, 9, 10]);

        // Segmented download: announce 12 bytes, deliver 4 + 7 + 1
        let mut rest = 12u32.to_le_bytes().to_vec();
        rest.extend_from_slice(&[1, 2, 3, 4]);
        let r = s.handle(&req(0x21, 0x2100, 0, &rest), 128);
        assert_eq!(r[0].payload[2], 0x60);
        let mut seg1 = coe_header(COE_SERVICE_SDO_REQUEST).to_vec();
        seg1.push(0x00); // ccs 0, toggle 0, 7 bytes, more follows
        seg1.extend_from_slice(&[5, 6, 7, 8, 9, 10, 11]);
        let r = s.handle(&seg1, 128);
        assert_eq!(r[0].payload[2], 0x20);
        // Wrong toggle
        let r = s.handle(&seg1, 128);
        assert_eq!(r[0].payload[2], 0x80);
        assert_eq!(&r[0].payload[6..10], &abort::TOGGLE_BIT.to_le_bytes());

        // Start again and finish properly
        let mut rest = 9u32.to_le_bytes().to_vec();
        rest.extend_from_slice(&[1, 2]);
        s.handle(&req(0x21, 0x2100, 0, &rest), 128);
        let r = s.handle(&seg1, 128);
        assert_eq!(r[0].payload[2], 0x20);
        let mut seg2 = coe_header(COE_SERVICE_SDO_REQUEST).to_vec();
        seg2.push(0x10 | 0x01 | (7 << 1)); // toggle 1, last, 7 unused bytes
        seg2.extend_from_slice(&[0; 7]);
        let r = s.handle(&seg2, 128);
        assert_eq!(r[0].payload[2], 0x30);
        assert_eq!(s.get(0x2100, 0).unwrap(), &[1, 2, 5, 6, 7, 8, 9, 10, 11]);
    }

    #[test]
    fn complete_access_both_ways() {
        let mut s = server();
        // Upload from sub-index 0: u8 padded to 16 bit, then the entries
        let r = s.handle(&req(0x50, 0x2000, 0, &[0; 4]), 128);
        let p = &r[0].payload;
        assert_eq!(p[2] & 0xE3, 0x41, "normal upload response with size");
        assert_eq!(u32::from_le_bytes([p[6], p[7], p[8], p[9]]), 8);
        assert_eq!(&p[10..18], &[2, 0, 0x11, 0x11, 0x22, 0x22, 0x22, 0x22]);
        // Download from sub-index 1
        let mut rest = 6u32.to_le_bytes().to_vec();
        rest.extend_from_slice(&[0x33, 0x33, 0x44, 0x44, 0x44, 0x44]);
        let r = s.handle(&req(0x31, 0x2000, 1, &rest), 128);
        assert_eq!(r[0].payload[2], 0x60);
        assert_eq!(s.get(0x2000, 1).unwrap(), &[0x33, 0x33]);
        assert_eq!(s.get(0x2000, 2).unwrap(), &[0x44; 4]);
        // Not allowed
        s.complete_access = false;
        let r = s.handle(&req(0x50, 0x2000, 0, &[0; 4]), 128);
        assert_eq!(&r[0].payload[6..10], &abort::NO_COMPLETE_ACCESS.to_le_bytes());
    }

    #[test]
    fn segmented_upload_follows_the_specification() {
        let mut s = server();
        let data: Vec<u8> = (0..40).collect();
        s.set(0x2200, 0, data.clone());
        // 30 byte mailbox: 14 data bytes fit into the initiate response
        let r = s.handle(&req(0x40, 0x2200, 0, &[0; 4]), 30);
        let p = &r[0].payload;
        assert_eq!(p[2], 0x41);
        assert_eq!(u32::from_le_bytes([p[6], p[7], p[8], p[9]]), 40);
        let mut got = p[10..].to_vec();
        assert_eq!(got.len(), 14);
        let mut toggle = false;
        loop {
            let mut q = coe_header(COE_SERVICE_SDO_REQUEST).to_vec();
            q.push(0x60 | if toggle { 0x10 } else { 0 });
            q.extend_from_slice(&[0; 7]);
            let r = s.handle(&q, 30);
            let p = &r[0].payload;
            assert_eq!(p[2] >> 5, 0, "upload segment response has command specifier 0");
            assert_eq!(p[2] & 0x10 != 0, toggle);
            let unused = usize::from((p[2] >> 1) & 7);
            let seg = &p[3..];
            assert!(seg.len() >= 7);
            let n = if seg.len() == 7 { 7 - unused } else { seg.len() };
            got.extend_from_slice(&seg[..n]);
            if p[2] & 1 != 0 {
                break;
            }
            toggle = !toggle;
        }
        assert_eq!(got, data);
    }

    #[test]
    fn mailbox_wrapping_and_errors() {
        let mut mb = Mailbox::new(Some(server()));
        // EoE request: mailbox error reply
        let mut raw = vec![4, 0, 0, 0, 0, 0x12, 1, 2, 3, 4];
        raw.resize(64, 0);
        mb.request_received(&raw, 64);
        let reply = mb.out_queue.pop_front().unwrap();
        assert_eq!(reply, [4, 0, 0, 0, 0, 0x10, 0x01, 0x00, 0x02, 0x00]);
        // Counter runs 1..7 and wraps to 1
        let counters: Vec<u8> = (0..8).map(|_| mb.wrap(3, 0, &[]).pop().unwrap() >> 4).collect();
        assert_eq!(counters, [2, 3, 4, 5, 6, 7, 1, 2]);
        // SDO info: unsupported opcode gives an SDO info error
        let mut raw = vec![6, 0, 0, 0, 0, 0x13, 0x00, 0x80, 0x03, 0, 0, 0];
        raw.resize(64, 0);
        mb.request_received(&raw, 64);
        let reply = mb.out_queue.pop_front().unwrap();
        assert_eq!(reply[8] & 0x7F, 0x07);
    }
}
