//! Small deterministic PRNG (xorshift64*), so runs depend on nothing but the seed.
pub struct Rng(u64);

impl Rng {
    pub fn new(seed: u64) -> Self {
        let mut r = Rng(seed ^ 0x2545F4914F6CDD1D);
        if r.0 == 0 {
            r.0 = 0x9E3779B97F4A7C15;
        }
        for _ in 0..4 {
            r.next_u64();
        }
        r
    }
    pub fn next_u64(&mut self) -> u64 {
        let mut x = self.0;
        x ^= x >> 12;
        x ^= x << 25;
        x ^= x >> 27;
        self.0 = x;
        x.wrapping_mul(0x2545F4914F6CDD1D)
    }
    pub fn next_u32(&mut self) -> u32 {
        (self.next_u64() >> 32) as u32
    }
    pub fn below(&mut self, n: u64) -> u64 {
        if n == 0 { 0 } else { self.next_u64() % n }
    }
    pub fn chance(&mut self, num: u64, den: u64) -> bool {
        self.below(den) < num
    }
    pub fn bytes(&mut self, n: usize) -> Vec<u8> {
        (0..n).map(|_| self.next_u32() as u8).collect()
    }
    pub fn pick<'a, T>(&mut self, v: &'a [T]) -> &'a T {
        &v[self.below(v.len() as u64) as usize]
    }
}
