//! Ready-made device descriptions (loosely modelled on Beckhoff terminals) and the glue that turns
//! a [`DeviceDescription`] into a simulated [`Device`].
//!
//! Nothing here is required by `simnet` itself; it is a convenience layer for tests and demos.
//! [`od_from_description`] derives the PDO assignment / mapping objects of a CoE object dictionary
//! from a [`DeviceDescription`], so that the EEPROM and the dictionary of a device agree.
//!
//! Simplifications: identities, strings and memory layouts are plausible but invented unless stated
//! otherwise; the process data of the simulated devices is plain memory (inputs are whatever a test
//! writes into the device memory).

use crate::coe::{CoeServer, Mailbox};
use crate::sii_image::{
    self, DcDesc, DeviceDescription, MailboxDesc, PdoDesc, PdoEntryDesc, SmDesc, coe_details, fmmu_usage, proto,
    sm_usage,
};
use crate::simnet::{DcKind, Device, EscInfo};

pub const VENDOR_BECKHOFF: u32 = 0x0000_0002;

/// Options for [`build_device`].
#[derive(Debug, Clone)]
pub struct BuildOptions {
    pub dc_kind: DcKind,
    pub sii_read_8: bool,
    pub sii_busy_polls: u32,
    pub fmmu_count: Option<u8>,
    pub sm_count: Option<u8>,
    pub ram_kb: u8,
    pub features: u16,
}

impl Default for BuildOptions {
    fn default() -> Self {
        Self {
            dc_kind: DcKind::None,
            sii_read_8: false,
            sii_busy_polls: 0,
            fmmu_count: None,
            sm_count: None,
            ram_kb: 8,
            features: 0x01F0,
        }
    }
}

/// Create a simulated device from a description: EEPROM image from [`sii_image::encode`], ESC
/// resources sized after the description, a mailbox (+ CoE server if the description lists CoE).
pub fn build_device(label: &str, desc: &DeviceDescription, opts: &BuildOptions) -> Device {
    let eeprom = sii_image::encode(desc);
    let info = EscInfo {
        fmmu_count: opts
            .fmmu_count
            .unwrap_or((desc.fmmu_usage.len() as u8).max(4)),
        sm_count: opts
            .sm_count
            .unwrap_or((desc.sync_managers.len() as u8).max(4)),
        ram_kb: opts.ram_kb,
        features: opts.features,
        ..EscInfo::default()
    };
    let mut dev = Device::new(label, eeprom, info, opts.dc_kind);
    dev.sii_read_8 = opts.sii_read_8;
    dev.sii_busy_polls = opts.sii_busy_polls;
    if let Some(mb) = &desc.mailbox {
        if mb.recv_size > 0 || mb.send_size > 0 {
            let coe = (mb.protocols & proto::COE != 0).then(CoeServer::new);
            dev.mailbox = Some(Mailbox::new(coe));
            // like a real ESC application, the device insists on the layout its EEPROM announces
            dev.mailbox_expect = Some([mb.recv_offset, mb.recv_size, mb.send_offset, mb.send_size]);
        }
    }
    dev
}

fn bit_entries(base_index: u16, count: u8) -> Vec<PdoDesc> {
    (0..count)
        .map(|ch| PdoDesc {
            index: base_index + u16::from(ch),
            sm: 0,
            sync: 0,
            name_idx: 0,
            flags: 0,
            entries: vec![PdoEntryDesc {
                index: 0x6000 + 0x10 * u16::from(ch),
                sub: 1,
                name_idx: 0,
                data_type: 0x01, // BOOLEAN
                bit_len: 1,
                flags: 0,
            }],
        })
        .collect()
}

/// Bus coupler without process data (EK1100 like).
pub fn coupler(name: &str) -> DeviceDescription {
    let mut d = DeviceDescription {
        vendor_id: VENDOR_BECKHOFF,
        product_id: 0x044C_2C52,
        revision: 0x0012_0000,
        serial: 0,
        pdi_control: 0x0D00,
        physical_ports: 0x0133, // port 0 MII, port 1/2 EBUS
        ebus_current_ma: -2000,
        ..Default::default()
    }
    .with_names(name, &format!("{name} EtherCAT Coupler (2A E-Bus)"), "SystemBk");
    d.image_idx = d.add_string("System Coupler");
    d
}

/// Digital input terminal with `channels` one-bit inputs (EL1008 like). SM0 = inputs @0x1000.
pub fn digital_in(name: &str, channels: u8) -> DeviceDescription {
    let mut d = DeviceDescription {
        vendor_id: VENDOR_BECKHOFF,
        product_id: 0x03F0_3052,
        revision: 0x0010_0000,
        pdi_control: 0x0104,
        physical_ports: 0x0033,
        ebus_current_ma: 90,
        ..Default::default()
    }
    .with_names(name, &format!("{name} {channels}Ch. Dig. Input 24V, 3ms"), "DigIn");
    d.fmmu_usage = vec![fmmu_usage::INPUTS];
    d.sync_managers = vec![SmDesc {
        start: 0x1000,
        length: u16::from(channels.div_ceil(8)),
        control: 0x00,
        status: 0,
        enable: 0x01,
        usage: sm_usage::PD_IN,
    }];
    d.tx_pdos = bit_entries(0x1A00, channels);
    d
}

/// Digital output terminal with `channels` one-bit outputs (EL2008 like). SM0 = outputs @0x0F00.
pub fn digital_out(name: &str, channels: u8) -> DeviceDescription {
    let mut d = DeviceDescription {
        vendor_id: VENDOR_BECKHOFF,
        product_id: 0x07D8_3052,
        revision: 0x0010_0000,
        pdi_control: 0x0104,
        physical_ports: 0x0033,
        ebus_current_ma: 110,
        ..Default::default()
    }
    .with_names(name, &format!("{name} {channels}Ch. Dig. Output 24V, 0.5A"), "DigOut");
    d.fmmu_usage = vec![fmmu_usage::OUTPUTS];
    d.sync_managers = vec![SmDesc {
        start: 0x0F00,
        length: u16::from(channels.div_ceil(8)),
        control: 0x44,
        status: 0,
        enable: 0x09,
        usage: sm_usage::PD_OUT,
    }];
    d.rx_pdos = bit_entries(0x1600, channels)
        .into_iter()
        .map(|mut p| {
            p.entries[0].index += 0x1000; // 0x7000 range
            p
        })
        .collect();
    d
}

/// Combined digital I/O terminal (EL1859 like): SM0 = `outs` outputs @0x0F00, SM1 = `ins` inputs
/// @0x1000.
pub fn digital_io(name: &str, ins: u8, outs: u8) -> DeviceDescription {
    let mut d = DeviceDescription {
        vendor_id: VENDOR_BECKHOFF,
        product_id: 0x0743_3052,
        revision: 0x0010_0000,
        pdi_control: 0x0104,
        physical_ports: 0x0033,
        ebus_current_ma: 130,
        ..Default::default()
    }
    .with_names(name, &format!("{name} {ins}Ch. Dig. Input + {outs}Ch. Dig. Output"), "DigIO");
    d.fmmu_usage = vec![fmmu_usage::OUTPUTS, fmmu_usage::INPUTS];
    d.sync_managers = vec![
        SmDesc {
            start: 0x0F00,
            length: u16::from(outs.div_ceil(8)),
            control: 0x44,
            status: 0,
            enable: 0x09,
            usage: sm_usage::PD_OUT,
        },
        SmDesc {
            start: 0x1000,
            length: u16::from(ins.div_ceil(8)),
            control: 0x00,
            status: 0,
            enable: 0x01,
            usage: sm_usage::PD_IN,
        },
    ];
    d.rx_pdos = bit_entries(0x1600, outs)
        .into_iter()
        .map(|mut p| {
            p.entries[0].index += 0x1000;
            p
        })
        .collect();
    d.tx_pdos = bit_entries(0x1A00, ins)
        .into_iter()
        .map(|mut p| {
            p.sm = 1;
            p
        })
        .collect();
    d
}

/// Mailbox geometry of [`coe_device`].
pub const COE_MBX_OUT: u16 = 0x1000;
pub const COE_MBX_IN: u16 = 0x1080;
pub const COE_MBX_SIZE: u16 = 128;
pub const COE_PD_OUT: u16 = 0x1100;
pub const COE_PD_IN: u16 = 0x1180;

/// A CoE device (servo/analog terminal like) with mailbox SM0/SM1, outputs SM2, inputs SM3.
pub fn coe_device(name: &str) -> DeviceDescription {
    let mut d = DeviceDescription {
        vendor_id: 0x0000_ACDC,
        product_id: 0x0000_C0E1,
        revision: 0x0001_0002,
        serial: 0x1234_5678,
        pdi_control: 0x0005,
        physical_ports: 0x0033,
        ebus_current_ma: 200,
        mailbox: Some(MailboxDesc {
            recv_offset: COE_MBX_OUT,
            recv_size: COE_MBX_SIZE,
            send_offset: COE_MBX_IN,
            send_size: COE_MBX_SIZE,
            protocols: proto::COE,
            coe_details: coe_details::ENABLE_SDO
                | coe_details::ENABLE_SDO_INFO
                | coe_details::ENABLE_PDO_ASSIGN
                | coe_details::ENABLE_PDO_CONFIG
                | coe_details::ENABLE_COMPLETE_ACCESS,
            bootstrap: [COE_MBX_OUT, COE_MBX_SIZE, COE_MBX_IN, COE_MBX_SIZE],
            ..Default::default()
        }),
        ..Default::default()
    }
    .with_names(name, &format!("{name} simulated CoE drive"), "Drives");
    d.fmmu_usage = vec![fmmu_usage::OUTPUTS, fmmu_usage::INPUTS, fmmu_usage::SM_STATUS];
    d.sync_managers = vec![
        SmDesc {
            start: COE_MBX_OUT,
            length: COE_MBX_SIZE,
            control: 0x26,
            status: 0,
            enable: 0x01,
            usage: sm_usage::MBX_OUT,
        },
        SmDesc {
            start: COE_MBX_IN,
            length: COE_MBX_SIZE,
            control: 0x22,
            status: 0,
            enable: 0x01,
            usage: sm_usage::MBX_IN,
        },
        SmDesc {
            start: COE_PD_OUT,
            length: 0,
            control: 0x64,
            status: 0,
            enable: 0x01,
            usage: sm_usage::PD_OUT,
        },
        SmDesc {
            start: COE_PD_IN,
            length: 0,
            control: 0x20,
            status: 0,
            enable: 0x01,
            usage: sm_usage::PD_IN,
        },
    ];
    d.dc = Some(vec![DcDesc {
        cycle_time0: 0,
        shift_time0: 0,
        shift_time1: 0,
        sync1_cycle_factor: 0,
        assign_activate: 0x0300,
        sync0_cycle_factor: 1,
        name_idx: 0,
        desc_idx: 0,
    }]);
    d
}

/// Default object dictionary for [`coe_device`]: identity, names, SM types, PDO assignment
/// 0x1C12 = [0x1600], 0x1C13 = [0x1A00, 0x1A01] with
///
/// * 0x1600: 0x7000:01 (16 bit control word), 0x7000:02 (32 bit target) = 6 output bytes
/// * 0x1A00: 0x6000:01 (16 bit status word), 0x6000:02 (32 bit position) = 6 input bytes
/// * 0x1A01: 0x6010:01 (8 bit), 0x6010:02 (8 bit) = 2 input bytes
pub fn coe_default_od(coe: &mut CoeServer, desc: &DeviceDescription, name: &str) {
    coe.set_u32(0x1000, 0, 0x0002_0192);
    coe.set(0x1008, 0, name.as_bytes().to_vec());
    coe.set(0x1009, 0, b"1.0".to_vec());
    coe.set(0x100A, 0, b"sim-0.1".to_vec());
    coe.set_u8(0x1018, 0, 4);
    coe.set_u32(0x1018, 1, desc.vendor_id);
    coe.set_u32(0x1018, 2, desc.product_id);
    coe.set_u32(0x1018, 3, desc.revision);
    coe.set_u32(0x1018, 4, desc.serial);
    for k in [(0x1000u16, 0u8), (0x1008, 0), (0x1009, 0), (0x100A, 0), (0x1018, 0), (0x1018, 1), (0x1018, 2), (0x1018, 3), (0x1018, 4)] {
        coe.read_only.insert(k);
    }
    // Sync manager communication types
    coe.set_u8(0x1C00, 0, 4);
    for (i, t) in [1u8, 2, 3, 4].iter().enumerate() {
        coe.set_u8(0x1C00, (i + 1) as u8, *t);
    }
    // PDO mappings
    coe.set_pdo_mapping(0x1600, &[(0x7000, 1, 16), (0x7000, 2, 32)]);
    coe.set_pdo_mapping(0x1A00, &[(0x6000, 1, 16), (0x6000, 2, 32)]);
    coe.set_pdo_mapping(0x1A01, &[(0x6010, 1, 8), (0x6010, 2, 8)]);
    // PDO assignment (mailbox SMs have empty assignments)
    coe.set_u8(0x1C10, 0, 0);
    coe.set_u8(0x1C11, 0, 0);
    coe.set_array_u16(0x1C12, &[0x1600]);
    coe.set_array_u16(0x1C13, &[0x1A00, 0x1A01]);
    // Room for up to 4 assignments
    for sub in 2..=4u8 {
        coe.set_u16(0x1C12, sub, 0);
    }
    for sub in 3..=4u8 {
        coe.set_u16(0x1C13, sub, 0);
    }
    // Application objects
    coe.set_u16(0x6000, 1, 0);
    coe.set_u32(0x6000, 2, 0);
    coe.set_u8(0x6010, 1, 0);
    coe.set_u8(0x6010, 2, 0);
    coe.set_u16(0x7000, 1, 0);
    coe.set_u32(0x7000, 2, 0);
    coe.set_u32(0x2000, 0, 0xDEAD_BEEF);
    coe.set_u16(0x2001, 0, 0x1234);
    coe.set_u8(0x2002, 0, 0x5A);
    coe.od_lists[0] = vec![0x7000];
    coe.od_lists[1] = vec![0x6000, 0x6010];
}

/// Build a [`coe_device`] with [`coe_default_od`] loaded.
pub fn build_coe_device(name: &str, opts: &BuildOptions) -> (Device, DeviceDescription) {
    let desc = coe_device(name);
    let mut dev = build_device(name, &desc, opts);
    coe_default_od(dev.mailbox_mut().coe_mut(), &desc, name);
    (dev, desc)
}

/// Replace the PDO related objects of `coe` by what `desc` says: 0x1C00 (sync manager types),
/// 0x1C10+k (PDO assignment of sync manager `k`: the indices of the RxPDOs/TxPDOs whose `sm` field is
/// `k`, empty for mailbox and unused sync managers), one mapping object per PDO (0x16xx/0x1Axx:
/// `index << 16 | sub << 8 | bit_len` per entry) and a zeroed application object per PDO entry.
/// Everything else in the dictionary is kept.
pub fn od_from_description(coe: &mut CoeServer, desc: &DeviceDescription) {
    coe.od
        .retain(|(i, _), _| !(0x1600..0x1C00).contains(i) && !(0x1C00..=0x1C2F).contains(i));
    coe.set_u8(0x1C00, 0, desc.sync_managers.len().min(255) as u8);
    for (k, sm) in desc.sync_managers.iter().enumerate().take(32) {
        coe.set_u8(0x1C00, (k + 1) as u8, sm.usage);
        let pdos: Vec<u16> = match sm.usage {
            sm_usage::PD_OUT => desc.rx_pdos.iter().filter(|p| usize::from(p.sm) == k).map(|p| p.index).collect(),
            sm_usage::PD_IN => desc.tx_pdos.iter().filter(|p| usize::from(p.sm) == k).map(|p| p.index).collect(),
            _ => Vec::new(),
        };
        coe.set_array_u16(0x1C10 + k as u16, &pdos[..pdos.len().min(254)]);
    }
    for p in desc.rx_pdos.iter().chain(desc.tx_pdos.iter()) {
        let entries: Vec<(u16, u8, u8)> = p.entries.iter().take(254).map(|e| (e.index, e.sub, e.bit_len)).collect();
        coe.set_pdo_mapping(p.index, &entries);
        for e in &p.entries {
            if e.index != 0 && !coe.od.contains_key(&(e.index, e.sub)) {
                coe.set(e.index, e.sub, vec![0u8; usize::from(e.bit_len).div_ceil(8).max(1)]);
            }
        }
    }
}
