//! `simdev`: a deterministic simulated EtherCAT segment for exercising the ethercrab MainDevice.
//!
//! * [`simnet`]: the segment (devices, registers, AL, SII, FMMU, mailbox SMs, DC, faults, log)
//! * [`coe`]: mailbox transport state and CoE server
//! * [`sii_image`]: EEPROM image encoder/decoder
//! * [`simrun`]: virtual clock + single threaded executor
//! * [`devices`]: ready-made device descriptions
//! * [`rng`]: seeded PRNG

pub mod coe;
pub mod devices;
pub mod rng;
pub mod sii_image;
pub mod simnet;
pub mod simrun;
