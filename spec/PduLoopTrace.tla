---------------------------- MODULE PduLoopTrace ----------------------------
(***************************************************************************)
(* Strict conformance: a trace recorded from the real PDU loop (one NDJSON  *)
(* line per step of one process, written by the harness after the step,     *)
(* with the projected shared state) must be a behaviour of PduLoop.  Every  *)
(* event must be the enabled specification step of that process at the      *)
(* yield point the specification says the process is parked at, with the    *)
(* arguments the specification predicts, producing exactly the logged       *)
(* post-state, and leaving the process parked where the log says it is.     *)
(*                                                                         *)
(* The file holds many runs; each starts with an "Init" record.  Every run  *)
(* is an initial state of this specification, so TLC checks them as         *)
(* separate behaviours in one start.  Register 1 records, per run, how far  *)
(* the run was matched; the post-condition reports the runs that were not   *)
(* matched to their end together with the first unmatched event.            *)
(***************************************************************************)
EXTENDS PduLoop, Json, IOUtils

Rec == ndJsonDeserialize(IOEnv.TRACE)

VARIABLES l, run

IsInit(i) == "e" \in DOMAIN Rec[i]
Starts == {i \in 1..Len(Rec) : IsInit(i)}

\* one past the last event of the run that starts at i
EndOf(i) ==
    LET later == {j \in Starts : j > i} IN
    IF later = {} THEN Len(Rec) + 1
    ELSE CHOOSE j \in later : \A k \in later : j <= k

ASSUME TLCSet(1, [i \in Starts |-> 0])

TraceInit ==
    \E i \in Starts :
        /\ run = i
        /\ l = i + 1
        /\ LET r == Rec[i] IN
           /\ st = [s \in Slots |-> r.st[s + 1]]
           /\ fp = [s \in Slots |-> r.fp[s + 1]]
           /\ plen = [s \in Slots |-> r.plen[s + 1]]
           /\ buf = [s \in Slots |-> r.buf[s + 1]]
           /\ bidx = [s \in Slots |-> r.bidx[s + 1]]
           /\ frameIdx = r.fi
           /\ pduIdx = r.pi
        /\ InitRest

\* the logged post-state
Match(e) ==
    /\ \A s \in Slots :
        /\ st'[s] = e.st[s + 1]
        /\ fp'[s] = e.fp[s + 1]
        /\ plen'[s] = e.plen[s + 1]
        /\ buf'[s] = e.buf[s + 1]
        /\ bidx'[s] = e.bidx[s + 1]
    /\ frameIdx' = e.fi
    /\ pduIdx' = e.pi
    /\ \A a \in Apps : woken'[a] = e.woken[a + 1]
    /\ txWoken' = e.txw

\* What the specification predicts for the arguments of the yield point process p is parked at:
\* <<slot, a, b>>; -1 = not checked.
ExpectArgs(p) ==
    IF p \in Apps THEN
        LET c == cand[p] IN
        CASE pc[p] = "alloc_fetch"  -> <<255, 0, 0>>
          [] pc[p] = "alloc_claim"  -> <<c, None, Created>>
          [] pc[p] = "init_meta"    -> <<c, 0, 0>>
          [] pc[p] = "init_buf"     -> <<c, 1, 0>>
          [] pc[p] = "push_idx"     -> <<c, 0, 0>>
          [] pc[p] = "push_buf"     -> <<c, 1, 1>>
          [] pc[p] = "push_fp"      -> <<c, curIdx[p], 0>>
          [] pc[p] = "drop_created" -> <<c, Created, None>>
          [] pc[p] = "hdr_buf"      -> <<c, 1, 2>>
          [] pc[p] = "mark"         -> <<c, Sendable, 0>>
          [] pc[p] = "mark_drop"    -> <<c, Created, None>>
          [] pc[p] \in {"wake_tx", "retry_wake"} -> <<255, 0, 0>>
          [] pc[p] = "reg_waker"    -> <<c, 0, 0>>
          [] pc[p] = "poll_swap"    -> <<c, RxDone, RxProcessing>>
          [] pc[p] = "timer_poll"   -> <<c, 0, 0>>
          [] pc[p] = "release"      -> <<c, None, 0>>
          [] pc[p] = "retry_set"    -> IF Recheck THEN <<c, Sent, Sendable>> ELSE <<c, Sendable, 0>>
          [] pc[p] = "recheck"      -> <<c, RxDone, RxProcessing>>
          [] pc[p] = "drop_fut"     -> <<c, None, 0>>
          [] pc[p] = "parse_buf"    -> <<c, 0, 5>>
          [] pc[p] = "rf_swap"      -> <<c, RxProcessing, None>>
          [] pc[p] = "rf_fp"        -> <<c, 0, 0>>
          [] pc[p] \in {"init_end", "push_end", "hdr_end", "parse_end"} -> <<c, 0, 0>>
          [] OTHER -> <<-1, -1, -1>>
    ELSE IF p = TXP THEN
        CASE txpc = "tx_reg"      -> <<255, 0, 0>>
          [] txpc = "tx_scan"     -> <<txScan, Sendable, Sending>>
          [] txpc = "tx_send_buf" -> <<txClaim, 0, 3>>
          [] txpc = "tx_send_end" -> <<txClaim, 0, 0>>
          [] txpc = "tx_mark"     -> IF TxCas THEN <<txClaim, Sending, Sent>> ELSE <<txClaim, Sent, 0>>
          [] txpc = "tx_unclaim"  -> IF TxCas THEN <<txClaim, Sending, Sendable>>
                                               ELSE <<txClaim, Sendable, 0>>
          [] OTHER -> <<-1, -1, -1>>
    ELSE IF p = RXP THEN
        CASE rxpc = "rx_scan"     -> <<rxScan, rxHand[2], 0>>
          [] rxpc = "rx_scan_st"  -> <<rxScan, 0, 0>>
          [] rxpc = "rx_claim"    -> <<rxMatch, Sent, RxBusy>>
          [] rxpc = "rx_copy_buf" -> <<rxMatch, 1, 4>>
          [] rxpc = "rx_copy_end" -> <<rxMatch, 0, 0>>
          [] rxpc = "rx_mark"     -> <<rxMatch, RxBusy, RxDone>>
          [] rxpc = "rx_wake"     -> <<rxMatch, 0, 0>>
          [] OTHER -> <<-1, -1, -1>>
    ELSE <<-1, -1, -1>>

ArgsOK(e) ==
    LET x == ExpectArgs(e.p) IN
    \/ x[1] = -1
    \/ /\ "slot" \in DOMAIN e
       /\ e.slot = x[1] /\ e.a = x[2] /\ e.b = x[3]

IsViewStutter(e) == e.at = "view" /\ e.c # 2

TraceNext ==
    /\ l < EndOf(run)
    /\ LET e == Rec[l] IN
       \/ /\ e.at = "Probe" /\ UNCHANGED vars
       \/ /\ IsViewStutter(e) /\ e.p \in Apps /\ pc[e.p] = "view" /\ UNCHANGED vars
       \/ /\ e.at # "Probe" /\ ~IsViewStutter(e)
          /\ (e.p >= 0 => SiteOf(e.p) = e.at /\ ArgsOK(e))
          /\ PStep(e.p, e.c)
          /\ Match(e)
          /\ (e.p >= 0 => SiteOfPc(e.p, pc', txpc', rxpc') = e.next)
    /\ l' = l + 1
    /\ run' = run

TraceSpec == TraceInit /\ [][TraceNext]_<<vars, l, run>>

\* progress register, updated on every state TLC keeps
Track ==
    TLCSet(1, [TLCGet(1) EXCEPT ![run] = IF l > @ THEN l ELSE @])

Unmatched == {i \in Starts : TLCGet(1)[i] # EndOf(i)}

TraceAccepted ==
    /\ \A i \in Unmatched :
          PrintT(ToJson([kind |-> "REJECT", run |-> Rec[i].run, start |-> i,
                         at |-> TLCGet(1)[i],
                         event |-> IF TLCGet(1)[i] > 0 /\ TLCGet(1)[i] <= Len(Rec)
                                   THEN Rec[TLCGet(1)[i]] ELSE Rec[i]]))
    /\ PrintT(ToJson([kind |-> "SUMMARY", runs |-> Cardinality(Starts),
                      accepted |-> Cardinality(Starts) - Cardinality(Unmatched),
                      events |-> Len(Rec)]))

=============================================================================
