----------------------------- MODULE DcSyncTrace -----------------------------
(***************************************************************************)
(* C18 on executions: each trace line is a network on the simulated segment *)
(* on which configure_dc_sync and one tx_rx_dc cycle ran with chosen        *)
(* 64-bit reference time, period, start delay and shift.  The DC registers  *)
(* of every device and the CycleInfo are carried as 16-bit limbs; the check *)
(* driver adds the quotient witnesses k = start / period and                *)
(* q = time / period, which this module re-verifies with BigNat.            *)
(***************************************************************************)
EXTENDS BigNat, Integers, FiniteSets, TLC, Json, IOUtils

Rec == ndJsonDeserialize(IOEnv.TRACE)

VARIABLE l
ASSUME TLCSet(3, 0)

B(x) == FromLimbs(x)
P32 == <<0, 0, 0, 0, 1>>          \* 2^32
P64 == <<0, 0, 0, 0, 0, 0, 0, 0, 1>>   \* 2^64

Errors(r) ==
    LET c == r.case
        g == r.groups[1]
        p == B(c.sync0_period_ns)
        d == B(c.start_delay_ns)
        s == B(c.sync0_shift_ns)
        n == Len(r.devices)
        wanted(i) == c.devices[i].dc # "none" /\ r.witness.modes[i] # "disabled"
        \* a SYNC1 period counts when a device that is configured asked for it
        tooBig == ~BLt(p, P32) \/ ~BLt(d, P32)
                  \/ \E i \in 1..n : wanted(i) /\ r.witness.modes[i] = "sync01" /\ ~BLt(B(r.witness.sync1[i]), P32)
    IN IF "dc_result" \notin DOMAIN g THEN {}
       ELSE (IF g.dc_result \in {"panic", "hang", "budget"} THEN {<<"NotTotal", g.dc_result>>} ELSE {})
       \cup (IF tooBig /\ g.dc_result = "ok" THEN {<<"RangeNotRejected">>} ELSE {})
       \* on the wire: no DC register of a SubDevice that does not support DC or did not ask for a sync signal is written
       \cup (IF "dc_config_writes" \in DOMAIN g
             THEN {<<"UnselectedDeviceWritten", g.dc_config_writes[j]>> :
                     j \in {j \in 1..Len(g.dc_config_writes) :
                              g.dc_config_writes[j][2] >= 2304 /\ g.dc_config_writes[j][2] < 2560      \* 0x0900..0x09FF
                              /\ ~(\E i \in 1..n : r.devices[i].station = g.dc_config_writes[j][1] /\ wanted(i))}}
             ELSE {})
       \* a set-up whose times fit must succeed: failing it (for instance because a SubDevice without DC was
       \* written to and did not acknowledge) is not an option the property leaves
       \cup (IF ~tooBig /\ g.dc_result \notin {"ok", "panic", "hang", "budget"}
                /\ (\E i \in 1..n : c.devices[i].dc # "none")
                /\ "ref_time_at_config" \in DOMAIN g /\ Len(g.ref_time_at_config) > 0
                /\ BLt(BAdd(BAdd(B(g.ref_time_at_config), d), p), P64)
             THEN {<<"SetupFailed", g.dc_result>>} ELSE {})
       \cup (IF g.dc_result = "ok" /\ ~tooBig
             THEN LET t == B(g.ref_time_at_config)
                      sum == BAdd(t, d)
                  IN UNION { (IF wanted(i)
                              THEN LET st == B(r.devices[i].reg_0990)
                                       k == B(r.witness.k[i])
                                   IN (IF ~BEq(BMul(k, p), st) THEN {<<"StartNotMultiple", i>>} ELSE {})
                                      \cup (IF ~BLe(st, sum) THEN {<<"StartAfterRefPlusDelay", i>>} ELSE {})
                                      \cup (IF ~BLt(sum, BAdd(st, p)) THEN {<<"StartTooEarly", i>>} ELSE {})
                                      \cup (IF ~BEq(B(r.devices[i].reg_09a0), p) THEN {<<"Cycle0Wrong", i>>} ELSE {})
                                      \cup (IF r.witness.modes[i] = "sync01" /\ ~BEq(B(r.devices[i].reg_09a4), B(r.witness.sync1[i]))
                                            THEN {<<"Cycle1Wrong", i>>} ELSE {})
                                      \cup (IF r.devices[i].reg_0981 # (IF r.witness.modes[i] = "sync0" THEN 3 ELSE 7)
                                            THEN {<<"ActivationWrong", i, r.devices[i].reg_0981>>} ELSE {})
                              ELSE (IF r.devices[i].reg_0981 # 0 \/ ~BEq(B(r.devices[i].reg_0990), Zero)
                                    THEN {<<"UnselectedDeviceTouched", i>>} ELSE {})) : i \in 1..n }
             ELSE {})
       \cup (IF g.dc_result = "ok" /\ Len(g.cycles) >= 1 /\ g.cycles[1].result = "ok"
                /\ "cycle_info" \in DOMAIN g.cycles[1].response
             THEN LET ci == g.cycles[1].response.cycle_info
                      tm == B(ci.dc_system_time)
                      off == B(ci.cycle_start_offset_ns)
                      q == B(r.witness.q)
                  IN (IF ~BEq(BAdd(BMul(q, p), off), tm) \/ ~BLt(off, p) THEN {<<"OffsetNotTimeModPeriod">>} ELSE {})
                     \cup (IF ~BEq(BAdd(B(ci.next_cycle_wait_ns), off), BAdd(p, s)) THEN {<<"WaitWrong">>} ELSE {})
             ELSE {})
       \cup (IF g.dc_result = "ok" /\ Len(g.cycles) >= 1 /\ g.cycles[1].result \in {"panic", "hang"}
             THEN {<<"CycleNotTotal", g.cycles[1].result>>} ELSE {})

TInit == l = 1
TNext ==
    /\ l <= Len(Rec)
    /\ LET e == IF Rec[l].case.variant = "dc" /\ "groups" \in DOMAIN Rec[l] /\ Len(Rec[l].groups) >= 1
                THEN Errors(Rec[l]) ELSE {} IN
       e # {} => /\ PrintT(ToJson([kind |-> "VIOL", case |-> Rec[l].case.id, errs |-> ToString(e)]))
                 /\ TLCSet(3, TLCGet(3) + 1)
    /\ l' = l + 1
TraceSpec == TInit /\ [][TNext]_l

Report == PrintT(ToJson([kind |-> "SUMMARY", cases |-> Len(Rec), violations |-> TLCGet(3),
                         judged |-> TLCGet("stats").diameter - 1]))

=============================================================================
