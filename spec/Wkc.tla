---------------------------------- MODULE Wkc ----------------------------------
(***************************************************************************)
(* Working-counter discipline of the data-returning entry points            *)
(* (src/command/reads.rs, writes.rs, ReceivedPdu::wkc/maybe_wkc and their   *)
(* callers).  A call is a sequence of datagram steps; each step is either   *)
(* checked against an expected count or documented-unchecked (the           *)
(* fire-and-forget WrappedWrite::send, callers that opt out, the status     *)
(* polls of a group transition whose content is validated instead).  The    *)
(* environment alters the counter of a step, makes the target device skip   *)
(* a step, or removes the device from a step on.                            *)
(***************************************************************************)
EXTENDS Naturals, Integers, Sequences, FiniteSets, TLC

CONSTANTS MaxSteps,      \* calls of 1..MaxSteps datagrams
          Counts         \* expected counts / forced counts, e.g. 0..3

\* a step: [checked |-> BOOLEAN, expected |-> count]
\* a fault: [kind |-> "none" | "force" | "skip" | "absent", k |-> step, w |-> forced count]

VARIABLES steps, fault, i, result, seen     \* seen[j] = counter the MainDevice saw for step j

wkvars == <<steps, fault, i, result, seen>>

Calls == UNION { [1..n -> [checked : BOOLEAN, expected : Counts]] : n \in 1..MaxSteps }

WkInit ==
    /\ steps \in Calls
    /\ fault \in [kind : {"none", "force", "skip", "absent"}, k : 1..MaxSteps, w : Counts]
    /\ fault.k <= Len(steps)
    /\ i = 1 /\ result = [res |-> "running", expected |-> 0, received |-> 0]
    /\ seen = <<>>

\* what the segment produces for step j when everything is serviced: one device, count 1
\* (expected counts other than 1 model with_wkc(n) against a single responder)
TrueWkc(j) ==
    IF (fault.kind = "skip" /\ fault.k = j) \/ (fault.kind = "absent" /\ j >= fault.k) THEN 0 ELSE 1

SeenWkc(j) == IF fault.kind = "force" /\ fault.k = j THEN fault.w ELSE TrueWkc(j)

Step ==
    /\ result.res = "running"
    /\ LET w == SeenWkc(i) IN
       /\ seen' = Append(seen, w)
       /\ IF steps[i].checked /\ w # steps[i].expected
          THEN result' = [res |-> "err:WorkingCounter", expected |-> steps[i].expected, received |-> w]
          ELSE IF i = Len(steps) THEN result' = [res |-> "ok", expected |-> 0, received |-> 0]
          ELSE UNCHANGED result
    /\ i' = i + 1
    /\ UNCHANGED <<steps, fault>>

WkNext == Step
WkSpec == WkInit /\ [][WkNext]_wkvars

\* ---------------------------------------------------------------------------
\* C11 on the model

\* success only if every step whose answer was checked was serviced by the expected number of devices
OkImpliesServiced ==
    result.res = "ok" => \A j \in 1..Len(steps) : steps[j].checked => seen[j] = steps[j].expected

\* the error names exactly the first offending step
ErrorFieldsExact ==
    result.res = "err:WorkingCounter" =>
        LET j == Len(seen) IN
        /\ steps[j].checked /\ seen[j] # steps[j].expected
        /\ result.expected = steps[j].expected /\ result.received = seen[j]
        /\ \A m \in 1..(j - 1) : ~(steps[m].checked /\ seen[m] # steps[m].expected)

\* a device that left the bus is noticed as soon as a checked step follows
AbsentIsNoticed ==
    result.res = "ok" /\ fault.kind = "absent" =>
        \A j \in fault.k..Len(steps) : ~steps[j].checked \/ steps[j].expected = 0

=============================================================================
