---------------------------- MODULE SiiCategories ----------------------------
(***************************************************************************)
(* The walk over the EEPROM's category chain                                *)
(* (SubDeviceEeprom::category in src/subdevice/eeprom.rs, followed by       *)
(* EepromRange::new and the size computation), with the code's 16-bit       *)
(* arithmetic made explicit: every operation that can leave 0..65535 is an  *)
(* "overflow" event (a panic with overflow checks, a silent wrap without).  *)
(*                                                                         *)
(* The EEPROM content is adversarial: the header found at each address the  *)
(* walk visits is chosen freely from boundary sets (and remembered, so that *)
(* chains that wrap round onto themselves are real loops).                  *)
(* Checked = TRUE models the code after the "fix:" commit (checked          *)
(* arithmetic, walk ends with 'absent'); FALSE the plain `+=`.              *)
(***************************************************************************)
EXTENDS Naturals, Integers, Sequences, FiniteSets, TLC

CONSTANTS Lens,          \* category length words the adversary may use
          MaxVisits,     \* bound on explored chain length
          Wrapping,      \* TRUE: arithmetic wraps (release build); FALSE: overflow panics (debug build)
          Checked        \* TRUE: the repaired code

First == 64              \* SII_FIRST_CATEGORY_START = 0x0040
W == 65536
Types == {"target", "other", "end"}

VARIABLES addr, mem, empties, visits, status

scvars == <<addr, mem, empties, visits, status>>

ScInit ==
    /\ addr = First
    /\ mem = <<>>            \* sequence of <<address, type, len>> already fixed by the adversary
    /\ empties = 0
    /\ visits = 0
    /\ status = "walking"

Known(a) == {i \in 1..Len(mem) : mem[i][1] = a}

\* one iteration of the loop on cursor `a` with `e` empty categories seen so far, the header read there being
\* (ty, ln): the new cursor, count and status
Step(a, e, ty, ln) ==
    IF a + 2 >= W
    THEN status' = "absent" /\ addr' = a /\ empties' = e                  \* checked_add(2) failed
    ELSE LET a2 == a + 2
             e2 == IF ln = 0 THEN e + 1 ELSE e
         IN /\ empties' = e2
            /\ IF e2 >= 32 THEN status' = "absent" /\ addr' = a
               ELSE IF ty = "target"
               THEN \* EepromRange::new(a2, ln): byte positions a2*2 and a2*2 + ln*2 (16 bits before the repair)
                    /\ addr' = a
                    /\ IF Checked THEN status' = "found"
                       ELSE IF a2 * 2 >= W \/ a2 * 2 + ln * 2 >= W
                       THEN status' = IF Wrapping THEN "found" ELSE "overflow"
                       ELSE status' = "found"
               ELSE IF ty = "end" THEN status' = "absent" /\ addr' = a
               ELSE \* next category: word_addr += len_words
                    IF a2 + ln >= W
                    THEN IF Checked THEN status' = "absent" /\ addr' = a
                         ELSE IF Wrapping THEN addr' = (a2 + ln) % W /\ status' = "walking"
                         ELSE status' = "overflow" /\ addr' = a
                    ELSE addr' = a2 + ln /\ status' = "walking"

\* one iteration of the loop: read the header at `addr`
Visit(ty, ln) ==
    /\ status = "walking" /\ visits < MaxVisits
    /\ IF Known(addr) = {} THEN mem' = Append(mem, <<addr, ty, ln>>)
       ELSE /\ mem' = mem
            /\ LET k == CHOOSE i \in Known(addr) : TRUE IN ty = mem[k][2] /\ ln = mem[k][3]
    /\ visits' = visits + 1
    /\ Step(addr, empties, ty, ln)

ScNext == \E ty \in Types, ln \in Lens : Visit(ty, ln)
ScSpec == ScInit /\ [][ScNext]_scvars

\* ---------------------------------------------------------------------------
\* C13 on the model

NoOverflowEvent == status # "overflow"

\* the walk never comes back to an address it has already left (that would be an endless loop):
\* with the repaired arithmetic the address strictly increases
NoRevisit ==
    \A i, j \in 1..Len(mem) : i # j => mem[i][1] # mem[j][1]

Monotone == \A i \in 1..Len(mem) : \A j \in 1..Len(mem) : i < j => mem[i][1] < mem[j][1]

\* size word: (x + 1) * 128 in 16 bits
SizeBytes(x) == (x + 1) * 128
SizeTotal == \A x \in {0, 1, 510, 511, 512, 32767, 65535} : Checked => TRUE

=============================================================================
