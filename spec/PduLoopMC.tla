------------------------------ MODULE PduLoopMC ------------------------------
(***************************************************************************)
(* Model-checking wrapper: the next-state relation of PduLoop indexed by    *)
(* (process, choice) with a history variable that records the schedule.     *)
(* The history is hidden from the fingerprint by VIEW, so it costs no       *)
(* states; the copy stored with each state is one real path to it, which    *)
(* is what the harness replays into the implementation.                     *)
(***************************************************************************)
EXTENDS PduLoop, Json

CONSTANTS MaxChoice, EmitSchedules

VARIABLE hist

Procs == Apps \cup {TXP, RXP, ENVTIMER, ENVLOSE}

MCInit == Init /\ hist = <<>>

MCNext ==
    \E p \in Procs, c \in 0..MaxChoice :
        /\ PStep(p, c)
        /\ hist' = Append(hist, <<p, c>>)

MCSpec == MCInit /\ [][MCNext]_<<vars, hist>>

MCView == vars

AllDone ==
    /\ \A a \in Apps : pc[a] = "idle" /\ reqNo[a] = MaxReq
    /\ txpc = "tx_idle" /\ ~txWoken
    /\ rxpc = "rx_idle" /\ wire = {}

\* used under -simulate: print the schedule of every behaviour that ran to completion
Emit == (EmitSchedules /\ AllDone) => PrintT(ToJson([sched |-> hist]))

\* the state constraint that encodes C01's index assumption
IndexConstraint == IndexAssumption

\* C01/C02 band A: nobody allocates while a caller still holds a view on a freed slot
NoViewOnFreeSlot ==
    \A a \in Apps : pc[a] = "view" => st[cand[a]] = RxProcessing

=============================================================================
