------------------------------ MODULE PduLoopMC ------------------------------
(***************************************************************************)
(* Model-checking wrapper: the next-state relation of PduLoop indexed by    *)
(* (process, choice) with a history variable that records the schedule.     *)
(* The history is hidden from the fingerprint by VIEW, so it costs no       *)
(* states; the copy stored with each state is one real path to it, which    *)
(* is what the harness replays into the implementation.                     *)
(***************************************************************************)
EXTENDS PduLoop, Json

CONSTANTS MaxChoice, EmitSchedules

VARIABLE hist

Procs == Apps \cup {TXP, RXP, ENVTIMER, ENVLOSE}

MCInit == Init /\ hist = <<>>

MCNext ==
    \E p \in Procs, c \in 0..MaxChoice :
        /\ PStep(p, c)
        /\ hist' = Append(hist, <<p, c>>)

MCSpec == MCInit /\ [][MCNext]_<<vars, hist>>

MCView == vars

AllDone ==
    /\ \A a \in Apps : pc[a] = "idle" /\ reqNo[a] = MaxReq
    /\ txpc = "tx_idle" /\ ~txWoken
    /\ rxpc = "rx_idle" /\ wire = {}

\* used under -simulate: print the schedule of every behaviour that ran to completion
Emit == (EmitSchedules /\ AllDone) => PrintT(ToJson([sched |-> hist]))

\* the state constraint that encodes C01's index assumption
IndexConstraint == IndexAssumption

\* C01/C02 band A: nobody allocates while a caller still holds a view on a freed slot
NoViewOnFreeSlot ==
    \A a \in Apps : pc[a] = "view" => st[cand[a]] = RxProcessing

\* ---------------------------------------------------------------------------
\* Trap properties: state predicates that mark a branch of the protocol worth exercising on the
\* implementation.  Checking "NotTrap_X" as an invariant makes TLC produce a shortest schedule that
\* reaches the branch; the schedule is replayed on the real loop, drained, and judged by the monitor.

\* the receive search meets a slot with the right index that is not awaiting a response, while a later
\* slot genuinely awaits the frame (zeroed storage, stale index words)
Trap_ScanSkipsUnsent ==
    rxpc = "rx_scan_st" /\ st[rxScan] # Sent /\ \E t \in Slots : t > rxScan /\ Awaiting(t)

\* the response is already there when the deadline is examined
Trap_ResponseAtDeadlineLast ==
    \E a \in Apps : pc[a] = "timer_poll" /\ timer[a] = "fired" /\ yielded[a] /\ retries[a] = 0
                      /\ st[cand[a]] = RxDone
Trap_ResponseAtDeadlineRetry ==
    \E a \in Apps : pc[a] = "timer_poll" /\ timer[a] = "fired" /\ yielded[a] /\ retries[a] > 0
                      /\ st[cand[a]] = RxDone

\* the transmit / receive side finishes after the request was given up
Trap_TxMarkAfterRelease == txpc = "tx_mark" /\ st[txClaim] # Sending
Trap_TxUnclaimAfterRelease == txpc = "tx_unclaim" /\ st[txClaim] # Sending
Trap_RxMarkAfterRelease == rxpc = "rx_mark" /\ st[rxMatch] # RxBusy
Trap_RxClaimFails == rxpc = "rx_claim" /\ st[rxMatch] # Sent

\* somebody tries to claim a slot whose previous owner is still finishing with it
Trap_ClaimWhileViewHeld ==
    \E a, b \in Apps : a # b /\ pc[a] = "view" /\ pc[b] = "alloc_claim" /\ cand[b] = cand[a]
Trap_ClaimDuringRelease ==
    \E a, b \in Apps : a # b /\ pc[a] \in {"rf_swap", "rf_fp"} /\ pc[b] = "alloc_claim" /\ cand[b] = cand[a]

\* the response arrives before the caller polled for the first time
Trap_WakeBeforeFirstPoll == rxpc = "rx_wake" /\ wk[rxMatch] = NoApp

\* allocation wraps round onto busy slots / fails
Trap_AllocRetry == \E a \in Apps : pc[a] = "alloc_claim" /\ attempts[a] >= 1 /\ st[cand[a]] # None
Trap_AllocFail == \E a \in Apps : result[a] = "allocfail"

\* a retry finds the frame not in Sent
Trap_RetryCasFails == \E a \in Apps : pc[a] = "retry_set" /\ st[cand[a]] # Sent

\* the awaiting future is dropped / the last deadline passes in a given slot state
Trap_AbandonIn(s) == \E a \in Apps : pc[a] = "drop_fut" /\ st[cand[a]] = s
Trap_ReleaseIn(s) == \E a \in Apps : pc[a] = "release" /\ st[cand[a]] = s

NotTrap_ScanSkipsUnsent == ~Trap_ScanSkipsUnsent
NotTrap_ResponseAtDeadlineLast == ~Trap_ResponseAtDeadlineLast
NotTrap_ResponseAtDeadlineRetry == ~Trap_ResponseAtDeadlineRetry
NotTrap_TxMarkAfterRelease == ~Trap_TxMarkAfterRelease
NotTrap_TxUnclaimAfterRelease == ~Trap_TxUnclaimAfterRelease
NotTrap_RxMarkAfterRelease == ~Trap_RxMarkAfterRelease
NotTrap_RxClaimFails == ~Trap_RxClaimFails
NotTrap_ClaimWhileViewHeld == ~Trap_ClaimWhileViewHeld
NotTrap_ClaimDuringRelease == ~Trap_ClaimDuringRelease
NotTrap_WakeBeforeFirstPoll == ~Trap_WakeBeforeFirstPoll
NotTrap_AllocRetry == ~Trap_AllocRetry
NotTrap_AllocFail == ~Trap_AllocFail
NotTrap_RetryCasFails == ~Trap_RetryCasFails
NotTrap_AbandonInSendable == ~Trap_AbandonIn(Sendable)
NotTrap_AbandonInSending == ~Trap_AbandonIn(Sending)
NotTrap_AbandonInSent == ~Trap_AbandonIn(Sent)
NotTrap_AbandonInRxBusy == ~Trap_AbandonIn(RxBusy)
NotTrap_AbandonInRxDone == ~Trap_AbandonIn(RxDone)
NotTrap_ReleaseInSendable == ~Trap_ReleaseIn(Sendable)
NotTrap_ReleaseInSending == ~Trap_ReleaseIn(Sending)
NotTrap_ReleaseInSent == ~Trap_ReleaseIn(Sent)
NotTrap_ReleaseInRxBusy == ~Trap_ReleaseIn(RxBusy)
NotTrap_ReleaseInRxDone == ~Trap_ReleaseIn(RxDone)

=============================================================================
