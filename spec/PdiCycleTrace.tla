---------------------------- MODULE PdiCycleTrace ----------------------------
(***************************************************************************)
(* One trace line = one network brought to SAFE-OP/OP on the simulated      *)
(* segment and one process-data cycle per group, with every frame of the    *)
(* cycle (datagrams, request and response data, working counters), the      *)
(* SubDevices' input/output windows before and after, and the response.     *)
(* Monitor: C07's clauses on the observations.  Conformance: the frames     *)
(* must be the ones the PdiCycle model produces for the same capacity,      *)
(* image, group size and variant.                                           *)
(***************************************************************************)
EXTENDS PdiCycle, Json, IOUtils

Rec == ndJsonDeserialize(IOEnv.TRACE)

VARIABLES ri, gi

ASSUME TLCSet(3, 0)
ASSUME TLCSet(4, 0)
ASSUME TLCSet(5, 0)

\* items to judge: (record, group) pairs that reached the cycle; other records are judged once (gi = 0)
HasCycle(r, g) == "groups" \in DOMAIN r /\ g <= Len(r.groups) /\ "cycles" \in DOMAIN r.groups[g]
                    /\ Len(r.groups[g].cycles) >= 1 /\ "frames" \in DOMAIN r.groups[g].cycles[1]
Items == { <<i, g>> : i \in 1..Len(Rec), g \in 0..3 } 

Valid(it) ==
    LET r == Rec[it[1]] IN
    IF it[2] = 0 THEN ~(\E g \in 1..3 : HasCycle(r, g)) ELSE HasCycle(r, it[2])

Addr32(adr) == adr[1] + 256 * adr[2] + 65536 * adr[3] + 16777216 * adr[4]
Limbs2(x) == x[1] + 65536 * x[2]

BytesToLimbs(b) == [i \in 1..(Len(b) \div 2) |-> b[2 * i - 1] + 256 * b[2 * i]]

Flat(frs) == LET F[i \in 0..Len(frs)] == IF i = 0 THEN <<>> ELSE F[i - 1] \o frs[i] IN F[Len(frs)]

\* tx_rx_sync_system_time falls back to the plain cycle when the network has no DC reference clock
EffVariant(c) ==
    IF c.variant = "sync" /\ \A i \in 1..Len(c.devices) : ("dc" \notin DOMAIN c.devices[i] \/ c.devices[i].dc = "none")
    THEN "plain" ELSE c.variant

TInit ==
    \E it \in Items :
        /\ Valid(it)
        /\ ri = it[1] /\ gi = it[2]
        /\ IF it[2] = 0
           THEN /\ cap = 0 /\ image = 0 /\ inLen = 0 /\ ndev = 0 /\ variant = "plain" /\ pc = "skip"
           ELSE LET r == Rec[it[1]]  g == r.groups[it[2]] IN
                /\ cap = r.case.frame_data + 12
                /\ image = g.pdi_len
                /\ inLen = g.read_len
                /\ ndev = Len(g.members)
                /\ variant = EffVariant(r.case)
                /\ pc = "loop"
        /\ sent = 0 /\ checks = 0 /\ timeRead = FALSE /\ frames = <<>> /\ iters = 0

TNext == PcNext /\ UNCHANGED <<ri, gi>>
TraceSpec == TInit /\ [][TNext]_<<pcvars, ri, gi>>

AlName(x) == CASE x = 0 -> "None" [] x = 1 -> "Init" [] x = 2 -> "PreOp" [] x = 3 -> "Bootstrap"
               [] x = 4 -> "SafeOp" [] x = 8 -> "Op" [] OTHER -> "Other"

\* ---- monitor -----------------------------------------------------------------------------
DgSize(d) == IF d.cmd = "LRW" THEN Overhead + d.len ELSE IF d.cmd = "FRMW" THEN TimeSize ELSE CheckSize

MonitorErrors(r, g, cy) ==
    LET frs == cy.frames
        all == Flat(frs)
        lrws == SelectSeq(all, LAMBDA d : d.cmd = "LRW")
        chks == SelectSeq(all, LAMBDA d : d.cmd = "FPRD")
        tms == SelectSeq(all, LAMBDA d : d.cmd = "FRMW")
        start == Limbs2(g.pdi_start)
        imgIn == Flat([i \in 1..Len(lrws) |-> lrws[i].data_in])
        subsIn == Flat([i \in 1..Len(cy.subdevices) |-> cy.subdevices[i].inputs_after])
        wkcSum == LET F[i \in 0..Len(lrws)] == IF i = 0 THEN 0 ELSE F[i - 1] + lrws[i].wkc IN F[Len(lrws)]
        clock == EffVariant(r.case) # "plain"
    IN (IF cy.result # "ok" THEN {<<"CycleFailed", cy.result>>} ELSE
        (IF \E i \in 1..Len(lrws) :
                Addr32(lrws[i].adr) # (IF i = 1 THEN start ELSE Addr32(lrws[i - 1].adr) + lrws[i - 1].len)
                \/ lrws[i].len = 0
         THEN {<<"NotContiguous", [i \in 1..Len(lrws) |-> <<Addr32(lrws[i].adr), lrws[i].len>>]>>} ELSE {})
        \cup (IF Len(imgIn) # g.pdi_len THEN {<<"ImageNotSentOnce", Len(imgIn), g.pdi_len>>} ELSE {})
        \cup (IF \E i \in 1..Len(frs) :
                    (LET F[j \in 0..Len(frs[i])] == IF j = 0 THEN 0 ELSE F[j - 1] + DgSize(frs[i][j])
                     IN F[Len(frs[i])]) > r.case.frame_data + 12
              THEN {<<"FrameTooBig">>} ELSE {})
        \cup (IF clock /\ ~(Len(tms) = 1 /\ Len(frs) >= 1 /\ frs[1][1].cmd = "FRMW")
              THEN {<<"ClockDatagram", Len(tms)>>} ELSE {})
        \cup (IF ~clock /\ Len(tms) # 0 THEN {<<"ClockDatagramInPlain">>} ELSE {})
        \cup (IF clock /\ Len(tms) = 1 /\ Len(tms[1].data_in) = 8
                 /\ cy.response.extra # BytesToLimbs(tms[1].data_in)
              THEN {<<"SystemTimeNotTheAnswer", cy.response.extra, tms[1].data_in>>} ELSE {})
        \cup (IF Len(imgIn) >= g.read_len /\ subsIn # SubSeq(imgIn, 1, g.read_len)
              THEN {<<"InputsNotFromWire">>} ELSE {})
        \cup (IF \E i \in 1..Len(cy.subdevices) : cy.subdevices[i].outputs_after # cy.subdevices[i].outputs_before
              THEN {<<"OutputsTouched">>} ELSE {})
        \cup (IF cy.response.wkc # wkcSum THEN {<<"WkcNotSum", cy.response.wkc, wkcSum>>} ELSE {})
        \cup (IF Len(cy.response.states) # Len(g.members) \/ Len(chks) # Len(g.members)
                 \/ \E i \in 1..Len(chks) : i <= Len(g.addrs) /\ chks[i].adr[1] + 256 * chks[i].adr[2] # g.addrs[i]
              THEN {<<"StateChecks", Len(cy.response.states), Len(chks)>>} ELSE {})
        \* every entry is what that SubDevice answered; a check that came back unanswered reads None
        \cup (IF Len(cy.response.states) = Len(chks)
                 /\ \E i \in 1..Len(chks) :
                        cy.response.states[i] # (IF chks[i].wkc = 0 THEN "None" ELSE AlName(chks[i].data_in[1] % 16))
              THEN {<<"StatesNotTheAnswers", cy.response.states, [i \in 1..Len(chks) |-> <<chks[i].wkc, chks[i].data_in[1]>>]>>}
              ELSE {})
        \cup (IF Len(frs) > Ceil(g.pdi_len, r.case.frame_data) + Ceil(Len(g.members), (r.case.frame_data + 12) \div CheckSize)
                            + (IF clock THEN 1 ELSE 0)
              THEN {<<"TooManyFrames", Len(frs)>>} ELSE {}))

\* ---- conformance ---------------------------------------------------------------------------
KindOf(cmd) == IF cmd = "LRW" THEN "lrw" ELSE IF cmd = "FRMW" THEN "time" ELSE "check"

Shape(frs, start) ==
    [i \in 1..Len(frs) |-> [j \in 1..Len(frs[i]) |->
        <<KindOf(frs[i][j].cmd), IF frs[i][j].cmd = "LRW" THEN frs[i][j].len ELSE 0>>]]

ModelShape == [i \in 1..Len(frames) |-> [j \in 1..Len(frames[i]) |->
                  <<frames[i][j].kind, IF frames[i][j].kind = "lrw" THEN frames[i][j].len ELSE 0>>]]

Judge ==
    pc \in {"done", "skip"} =>
        LET r == Rec[ri] IN
        IF pc = "skip"
        THEN /\ TLCSet(5, TLCGet(5) + 1)
             /\ (r.result \in {"panic", "hang", "budget"} =>
                    /\ PrintT(ToJson([kind |-> "VIOL", case |-> r.case.id,
                                      errs |-> ToString({<<"NotTotal", r.result, IF "stage" \in DOMAIN r THEN r.stage ELSE "">>})]))
                    /\ TLCSet(3, TLCGet(3) + 1))
        ELSE LET g == r.groups[gi]
                 cy == g.cycles[1]
                 me == MonitorErrors(r, g, cy)
                 ce == IF cy.result = "ok" /\ Shape(cy.frames, 0) # ModelShape
                       THEN {<<"frames", Shape(cy.frames, 0), ModelShape>>} ELSE {}
             IN /\ TLCSet(5, TLCGet(5) + 1)
                /\ (me # {} => /\ PrintT(ToJson([kind |-> "VIOL", case |-> r.case.id, errs |-> ToString(me)]))
                               /\ TLCSet(3, TLCGet(3) + 1))
                /\ (ce # {} => /\ PrintT(ToJson([kind |-> "DIVERGE", case |-> r.case.id, errs |-> ToString(ce)]))
                               /\ TLCSet(4, TLCGet(4) + 1))

Report ==
    PrintT(ToJson([kind |-> "SUMMARY", cases |-> Len(Rec), judged |-> TLCGet(5), violations |-> TLCGet(3),
                   divergences |-> TLCGet(4)]))

=============================================================================
