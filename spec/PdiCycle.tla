------------------------------- MODULE PdiCycle -------------------------------
(***************************************************************************)
(* One process-data cycle (SubDeviceGroup::tx_rx, tx_rx_sync_system_time,   *)
(* tx_rx_dc in src/subdevice_group/mod.rs): the chunk loop that sends the   *)
(* group's process image in LRW datagrams, packs AL-status checks of the    *)
(* group's SubDevices into the space that is left, and - in the two clock   *)
(* variants - starts the first frame with one FRMW time datagram.           *)
(*                                                                         *)
(* One action per loop iteration (one frame).  Cap is the frame's datagram  *)
(* area (frame size - 16).  Datagram costs: 12 + data for LRW, 14 for a     *)
(* state check, 20 for the time datagram.                                   *)
(***************************************************************************)
EXTENDS Naturals, Integers, Sequences, FiniteSets, TLC

CONSTANTS Caps,        \* datagram-area capacities to explore
          MaxImage,    \* image lengths 0..MaxImage
          MaxDevs,     \* 0..MaxDevs SubDevices in the group
          Variants     \* subset of {"plain", "sync", "dc"}

Overhead == 12
CheckSize == 14
TimeSize == 20

VARIABLES cap, image, inLen, ndev, variant,      \* the configuration (fixed per behaviour)
          sent, checks, timeRead, frames, iters, pc

pcvars == <<cap, image, inLen, ndev, variant, sent, checks, timeRead, frames, iters, pc>>

PcInit ==
    /\ cap \in Caps
    /\ image \in 0..MaxImage
    /\ inLen \in 0..image
    /\ ndev \in 0..MaxDevs
    /\ variant \in Variants
    \* the property's quantifier: the frame can carry one state check (plus the time datagram)
    /\ cap >= CheckSize + (IF variant = "plain" THEN 0 ELSE TimeSize)
    /\ sent = 0 /\ checks = 0 /\ timeRead = FALSE /\ frames = <<>> /\ iters = 0 /\ pc = "loop"

Min(a, b) == IF a < b THEN a ELSE b

\* one iteration of the loop = at most one frame
Iterate ==
    /\ pc = "loop"
    /\ iters' = iters + 1
    /\ LET chunkLen == image - sent
           exitTop == variant = "plain" /\ chunkLen = 0 /\ checks >= ndev
       IN IF exitTop THEN pc' = "done" /\ UNCHANGED <<sent, checks, timeRead, frames>>
          ELSE
          LET withTime == variant # "plain" /\ ~timeRead
              room0 == cap - (IF withTime THEN TimeSize ELSE 0)
              space == room0 - Overhead
              take == IF chunkLen = 0 \/ space <= 0 THEN 0 ELSE Min(chunkLen, space)
              room1 == room0 - (IF take > 0 THEN Overhead + take ELSE 0)
              fit == room1 \div CheckSize
              nchk == Min(Min(fit, ndev - checks), 129)
              dgs == (IF withTime THEN <<[kind |-> "time", start |-> 0, len |-> 8]>> ELSE <<>>)
                     \o (IF take > 0 THEN <<[kind |-> "lrw", start |-> sent, len |-> take]>> ELSE <<>>)
                     \o [i \in 1..nchk |-> [kind |-> "check", start |-> checks + i - 1, len |-> 2]]
           IN IF dgs = <<>>
              THEN pc' = "done" /\ UNCHANGED <<sent, checks, timeRead, frames>>
              ELSE /\ frames' = Append(frames, dgs)
                   /\ sent' = sent + take
                   /\ checks' = checks + nchk
                   /\ timeRead' = (timeRead \/ withTime)
                   /\ IF variant # "plain" /\ chunkLen = 0 /\ checks + nchk >= ndev
                      THEN pc' = "done" ELSE pc' = "loop"
    /\ UNCHANGED <<cap, image, inLen, ndev, variant>>

PcNext == Iterate
PcSpec == PcInit /\ [][PcNext]_pcvars

\* ---------------------------------------------------------------------------
\* C07 on the model

AllDgs == LET F[i \in 0..Len(frames)] == IF i = 0 THEN <<>> ELSE F[i - 1] \o frames[i] IN F[Len(frames)]
Lrws == SelectSeq(AllDgs, LAMBDA d : d.kind = "lrw")
Checks == SelectSeq(AllDgs, LAMBDA d : d.kind = "check")
Times == SelectSeq(AllDgs, LAMBDA d : d.kind = "time")

FrameBytes(f) ==
    LET F[i \in 0..Len(f)] ==
          IF i = 0 THEN 0
          ELSE F[i - 1] + (IF f[i].kind = "lrw" THEN Overhead + f[i].len
                           ELSE IF f[i].kind = "check" THEN CheckSize ELSE TimeSize)
    IN F[Len(f)]

\* the LRW ranges tile [0, image) contiguously, in order, without gap or overlap
Tiling ==
    pc = "done" =>
        /\ \A i \in 1..Len(Lrws) : Lrws[i].len > 0
                                   /\ Lrws[i].start = (IF i = 1 THEN 0 ELSE Lrws[i - 1].start + Lrws[i - 1].len)
        /\ (IF Len(Lrws) = 0 THEN image = 0 ELSE Lrws[Len(Lrws)].start + Lrws[Len(Lrws)].len = image)

FitsFrame == \A i \in 1..Len(frames) : FrameBytes(frames[i]) <= cap

OneStatePerSubDeviceInOrder ==
    pc = "done" => /\ Len(Checks) = ndev
                   /\ \A i \in 1..Len(Checks) : Checks[i].start = i - 1

ExactlyOneClockDatagramFirst ==
    pc = "done" /\ variant # "plain" =>
        /\ Len(Times) = 1
        /\ Len(frames) >= 1 /\ frames[1][1].kind = "time"

NoClockDatagramInPlain == variant = "plain" => Len(Times) = 0

\* frames needed by the image alone at the largest chunk that fits, plus by the checks alone, plus one
\* in the clock variants
Ceil(a, b) == IF a = 0 THEN 0 ELSE (a + b - 1) \div b
FramesWithinNeed ==
    pc = "done" =>
        Len(frames) <= Ceil(image, cap - Overhead) + Ceil(ndev, cap \div CheckSize)
                       + (IF variant = "plain" THEN 0 ELSE 1)

Terminates == iters <= image + ndev + 2

NoEmptyFrame == \A i \in 1..Len(frames) : Len(frames[i]) >= 1

=============================================================================
