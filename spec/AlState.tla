------------------------------- MODULE AlState -------------------------------
(***************************************************************************)
(* Group state transitions (SubDeviceGroup::transition_to / is_state /      *)
(* wait_for_state, src/subdevice_group/mod.rs) against devices that follow  *)
(* the ESC AL state machine with a behaviour script each.                   *)
(*                                                                         *)
(* MainDevice: write the requested state to the AL control register of      *)
(* every member of the group (in order), then poll: one round reads the AL  *)
(* status of every member, split over as many frames as the frame size      *)
(* needs; a round succeeds when every answer is the requested state; a      *)
(* failed round is followed by another one until the transition timeout.    *)
(*                                                                         *)
(* Devices (ESC behaviour): a request is accepted after a number of status  *)
(* polls, refused (state kept, error flag + status code set), ignored       *)
(* forever (stall), or accepted and later given up again (fall back).       *)
(***************************************************************************)
EXTENDS Naturals, Integers, Sequences, FiniteSets, TLC

CONSTANTS NDev,          \* devices on the segment
          Members,       \* subset of 1..NDev: the group under test
          PerFrame,      \* status checks per frame (frame size)
          MaxRounds,     \* polling rounds before the transition timeout
          Scripts,       \* set of behaviour scripts a device may follow
          From, Target,  \* state before the call, requested state
          PerDeviceCheck \* TRUE (the code): every answer of a status frame is compared with the requested state;
                         \* FALSE: the answers of a frame are OR-ed and the bitmap is compared (a device that does
                         \* not answer - state 0 - then leaves no trace)

\* a script: [after |-> polls until accepted, refuse |-> BOOLEAN, stall |-> BOOLEAN, fallAfter |-> polls or 0,
\*            silent |-> BOOLEAN: takes the request and does not answer any status read afterwards]

VARIABLES
    script,     \* script[i]
    state,      \* state[i]   : AL state of device i
    err,        \* err[i]     : AL error flag
    req,        \* req[i]     : pending requested state or 0
    polled,     \* polled[i]  : status polls since the request
    writes,     \* writes[i]  : sequence of AL control values device i received
    pc, idx, round, roundOk,
    answers,    \* answers[i] : what device i answered in the current round (0 = not yet)
    okAnswers,  \* the answers of the round that made the call succeed
    result

asvars == <<script, state, err, req, polled, writes, pc, idx, round, roundOk, answers, okAnswers, result>>

Devs == 1..NDev
MemberSeq == CHOOSE s \in [1..Cardinality(Members) -> Members] :
                \A i, j \in 1..Cardinality(Members) : i < j => s[i] < s[j]
NM == Cardinality(Members)

AsInit ==
    /\ script \in [Devs -> Scripts]
    /\ state = [i \in Devs |-> From]
    /\ err = [i \in Devs |-> FALSE]
    /\ req = [i \in Devs |-> 0]
    /\ polled = [i \in Devs |-> 0]
    /\ writes = [i \in Devs |-> <<>>]
    /\ pc = "request" /\ idx = 1 /\ round = 0 /\ roundOk = TRUE
    /\ answers = [i \in Devs |-> 0]
    /\ okAnswers = [i \in Devs |-> 0]
    /\ result = "running"

\* FPWR AL control to the idx-th member
Request ==
    /\ pc = "request"
    /\ LET d == MemberSeq[idx] IN
       /\ writes' = [writes EXCEPT ![d] = Append(@, Target)]
       /\ req' = [req EXCEPT ![d] = Target]
       /\ polled' = [polled EXCEPT ![d] = 0]
       /\ IF script[d].refuse
          THEN err' = [err EXCEPT ![d] = TRUE]              \* state kept, error indicated
          ELSE UNCHANGED err
    /\ IF idx = NM THEN pc' = "poll" /\ idx' = 1 ELSE idx' = idx + 1 /\ UNCHANGED pc
    /\ UNCHANGED <<script, state, round, roundOk, answers, okAnswers, result>>

\* what a status poll does to a device and what it answers
AfterPoll(d) ==
    LET p == polled[d] + 1
        s == script[d]
        accepted == req[d] # 0 /\ ~s.refuse /\ ~s.stall /\ p > s.after
        \* the poll that applies a delayed acceptance does not count towards the fall-back
        fallen == accepted /\ s.fallAfter # 0
                    /\ p > s.after + s.fallAfter + (IF s.after > 0 THEN 1 ELSE 0)
    IN IF fallen THEN From ELSE IF accepted THEN req[d] ELSE state[d]

\* bitwise OR of a set of AL states (1, 2, 3, 4, 8; 0 = no answer)
OrAll(S) == LET Bit(b) == IF \E v \in S : (v \div b) % 2 = 1 THEN b ELSE 0 IN Bit(1) + Bit(2) + Bit(4) + Bit(8)

\* one frame of the current round: up to PerFrame status reads, in member order
PollFrame ==
    /\ pc = "poll"
    /\ LET last == IF idx + PerFrame - 1 < NM THEN idx + PerFrame - 1 ELSE NM
           ds == {MemberSeq[j] : j \in idx..last}
           now == [d \in ds |-> AfterPoll(d)]
           \* what the MainDevice gets to see: a silent device leaves the datagram untouched
           ans == [d \in ds |-> IF script[d].silent /\ req[d] # 0 THEN 0 ELSE now[d]]
           frameOk == IF PerDeviceCheck THEN \A d \in ds : ans[d] = Target
                      ELSE OrAll({ans[d] : d \in ds}) = Target
       IN /\ state' = [d \in Devs |-> IF d \in ds THEN now[d] ELSE state[d]]
          /\ polled' = [d \in Devs |-> IF d \in ds THEN polled[d] + 1 ELSE polled[d]]
          /\ answers' = [d \in Devs |-> IF d \in ds THEN ans[d] ELSE answers[d]]
          /\ IF ~frameOk
             THEN \* first undesired state ends the round
                  /\ IF round + 1 >= MaxRounds
                     THEN pc' = "done" /\ result' = "err:Timeout"
                     ELSE pc' = "poll" /\ UNCHANGED result
                  /\ round' = round + 1 /\ idx' = 1 /\ UNCHANGED okAnswers
             ELSE IF last = NM
             THEN /\ pc' = "done" /\ result' = "ok"
                  /\ okAnswers' = [d \in Devs |-> IF d \in ds THEN ans[d] ELSE answers[d]]
                  /\ UNCHANGED <<round, idx>>
             ELSE /\ idx' = last + 1 /\ UNCHANGED <<pc, round, result, okAnswers>>
    /\ UNCHANGED <<script, err, req, writes, roundOk>>

AsNext == Request \/ PollFrame
AsSpec == AsInit /\ [][AsNext]_asvars

\* ---------------------------------------------------------------------------
\* C10 on the model

\* success only if, in the round that succeeded, every member answered the requested state
OkImpliesAllReportedAtCheck ==
    result = "ok" => \A d \in Members : okAnswers[d] = Target

\* a device that refuses, stalls or never gets there makes the call fail within the timeout
BadDeviceMeansError ==
    pc = "done" /\ (\E d \in Members : script[d].refuse \/ script[d].stall \/ script[d].silent) => result # "ok"

ErrWithinTimeout == result = "err:Timeout" => round <= MaxRounds

Terminates == round <= MaxRounds

\* the request goes to every member, exactly once, and to nobody else
RequestToAllMembersOnly ==
    pc \in {"poll", "done"} =>
        /\ \A d \in Members : writes[d] = <<Target>>
        /\ \A d \in Devs \ Members : writes[d] = <<>>

\* ---------------------------------------------------------------------------
\* the per-cycle summaries (TxRxResponse): pure functions of the reported state list
\* states are numbered None=0 Init=1 PreOp=2 Bootstrap=3 SafeOp=4 Op=8; a device that did not answer
\* reports None

\* the single state every SubDevice reported, or -1 if they differ (an empty group reports None)
SingleState(states) ==
    IF Len(states) = 0 THEN 0
    ELSE IF \A i \in 1..Len(states) : states[i] = states[1] THEN states[1] ELSE -1

AllOp(states) == Len(states) > 0 /\ \A i \in 1..Len(states) : states[i] = 8
IsInState(states, s) == SingleState(states) = s /\ s # 3

=============================================================================
