------------------------------- MODULE Tasks -------------------------------
(***************************************************************************)
(* Several tasks sharing one MainDevice (src/maindevice.rs, the frame       *)
(* storage of src/pdu_loop): every operation of a task takes a frame slot   *)
(* from the shared storage, stamps it with the next value of the shared,    *)
(* wrapping datagram index, sends it, and completes with the response the   *)
(* receive side routes back to that slot by the index.  The network answers *)
(* with any latency and in any order.  An operation that finds no free slot *)
(* fails at once.  (The slot life cycle itself - claims, retries, the       *)
(* receive path - is PduLoop.tla; this is the view an application task      *)
(* has.)                                                                    *)
(***************************************************************************)
EXTENDS Naturals, Integers, Sequences, FiniteSets, TLC

CONSTANTS NTasks, Slots, Ops, IdxMod

Task == 1..NTasks
Slot == 1..Slots

VARIABLES slot,       \* slot[f]: [busy, owner, idx, resp] - resp = <<>> until the response arrived
          nextIdx,    \* the shared datagram index
          wire,       \* frames on the network: set of [idx, tag]
          pc,         \* pc[t]: "idle" | "wait"
          done,       \* done[t]: results so far: the tag the task received, or NoSlot
          full        \* ghost: storage occupancy seen when an operation failed for lack of a slot
tkvars == <<slot, nextIdx, wire, pc, done, full>>

NoSlot == <<0, 0>>         \* the result of an operation that found no free slot

Free == [busy |-> FALSE, owner |-> 0, idx |-> 0, resp |-> <<>>]

TkInit ==
    /\ slot = [f \in Slot |-> Free]
    /\ nextIdx = 0 /\ wire = {}
    /\ pc = [t \in Task |-> "idle"]
    /\ done = [t \in Task |-> <<>>]
    /\ full = {}

FreeSlots == {f \in Slot : ~slot[f].busy}

\* an operation starts in slot f with datagram index ix: the request is what only this task and this operation
\* would send
BeginAt(t, f, ix) ==
    /\ pc[t] = "idle" /\ Len(done[t]) < Ops /\ ~slot[f].busy
    /\ slot' = [slot EXCEPT ![f] = [busy |-> TRUE, owner |-> t, idx |-> ix, resp |-> <<>>]]
    /\ wire' = wire \cup {[idx |-> ix, tag |-> <<t, Len(done[t]) + 1>>]}
    /\ nextIdx' = (ix + 1) % IdxMod
    /\ pc' = [pc EXCEPT ![t] = "wait"]
    /\ UNCHANGED <<done, full>>

\* ... or fails at once because every slot is taken
NoSlotFor(t) ==
    /\ pc[t] = "idle" /\ Len(done[t]) < Ops /\ FreeSlots = {}
    /\ done' = [done EXCEPT ![t] = Append(@, NoSlot)]
    /\ full' = full \cup {Cardinality({f \in Slot : slot[f].busy})}
    /\ UNCHANGED <<slot, nextIdx, wire, pc>>

Begin(t) ==
    IF FreeSlots = {} THEN NoSlotFor(t)
    ELSE BeginAt(t, CHOOSE f \in FreeSlots : \A g \in FreeSlots : f <= g, nextIdx)

\* the network hands a response to the receive side, which routes it by its index
Deliver(fr) ==
    /\ fr \in wire
    /\ wire' = wire \ {fr}
    /\ IF \E f \in Slot : slot[f].busy /\ slot[f].idx = fr.idx /\ slot[f].resp = <<>>
       THEN LET f == CHOOSE f \in Slot : slot[f].busy /\ slot[f].idx = fr.idx /\ slot[f].resp = <<>> IN
            slot' = [slot EXCEPT ![f].resp = fr.tag]
       ELSE UNCHANGED slot
    /\ UNCHANGED <<nextIdx, pc, done, full>>

Complete(t) ==
    /\ pc[t] = "wait"
    /\ \E f \in Slot :
        /\ slot[f].busy /\ slot[f].owner = t /\ slot[f].resp # <<>>
        /\ done' = [done EXCEPT ![t] = Append(@, slot[f].resp)]
        /\ slot' = [slot EXCEPT ![f] = Free]
    /\ pc' = [pc EXCEPT ![t] = "idle"]
    /\ UNCHANGED <<nextIdx, wire, full>>

TkNext == (\E t \in Task : Begin(t) \/ Complete(t)) \/ (\E fr \in wire : Deliver(fr))
TkSpec == TkInit /\ [][TkNext]_tkvars /\ WF_tkvars(TkNext)

\* ---------------------------------------------------------------------------
\* C20 on the model

\* no task ever receives another task's (or another operation's) response
OwnResponses ==
    \A t \in Task : \A k \in 1..Len(done[t]) : done[t][k] = NoSlot \/ done[t][k] = <<t, k>>

\* an operation fails for lack of a slot only when the storage is completely in use
NoSpuriousFailure == \A n \in full : n = Slots

\* with at least as many slots as tasks nothing fails at all
NeverFailsWithEnoughSlots == Slots >= NTasks => \A t \in Task : \A k \in 1..Len(done[t]) : done[t][k] # NoSlot

\* indices of the frames in flight are distinct as long as the index space is larger than the storage
DistinctInFlight == \A f, g \in Slot : (f # g /\ slot[f].busy /\ slot[g].busy) => slot[f].idx # slot[g].idx

AllFinish == <>(\A t \in Task : Len(done[t]) = Ops)
=============================================================================
