------------------------------- MODULE Tasks -------------------------------
(***************************************************************************)
(* Several tasks sharing one MainDevice (src/maindevice.rs, the frame       *)
(* storage of src/pdu_loop): every operation of a task takes a frame slot   *)
(* from the shared storage, stamps it with the next value of the shared,    *)
(* wrapping datagram index, sends it, and completes with the response the   *)
(* receive side routes back to that slot by the index.  The network answers *)
(* with any latency and in any order.  An operation that finds no free slot *)
(* fails at once.  (The slot life cycle itself - claims, retries, the       *)
(* receive path - is PduLoop.tla; this is the view an application task      *)
(* has.)                                                                    *)
(*                                                                         *)
(* What a task may do with a slot besides waiting for its response:         *)
(*  - keep the response it received claimed while it goes on with further   *)
(*    operations (CompleteHold / DropHeld): the code hands out the response *)
(*    as a view into the slot (ReceivedPdu); the CoE client keeps the       *)
(*    initiate response of a segmented upload for the whole transfer, an    *)
(*    EEPROM chunk is such a view, too.  The slot keeps its index word.     *)
(*  - give the operation up (Abandon): the future is dropped or its         *)
(*    deadline passes.  The slot is free again at once, its index word      *)
(*    stays what it was; the response, if it still comes, belongs to no one.*)
(*                                                                         *)
(* SentOnly = TRUE is the code: a response is routed to the slot that       *)
(* carries its index *and* awaits a response.  FALSE: the first slot        *)
(* carrying the index decides, whatever its state - the variant a held or   *)
(* abandoned slot turns into lost responses once the index has wrapped.     *)
(*                                                                         *)
(* Environment assumption (WrapAssumption, part of BeginAt): the 8 bit      *)
(* index does not come round to a value while a frame with that value is    *)
(* still on the network.                                                    *)
(***************************************************************************)
EXTENDS Naturals, Integers, Sequences, FiniteSets, TLC

CONSTANTS NTasks, Slots, Ops, IdxMod,
          MaxHeld,      \* responses a task may keep claimed at a time
          Abandons,     \* BOOLEAN: operations may be given up
          SentOnly      \* BOOLEAN: see above

Task == 1..NTasks
Slot == 1..Slots

VARIABLES slot,       \* slot[f]: [busy, owner, idx, resp, held] - resp = <<>> until the response arrived
          nextIdx,    \* the shared datagram index
          wire,       \* frames on the network: set of [idx, tag]
          pc,         \* pc[t]: "idle" | "wait"
          done,       \* done[t]: results so far: the tag the task received, NoSlot or Cancelled
          full,       \* ghost: storage occupancy seen when an operation failed for lack of a slot
          lost        \* ghost: responses that arrived while their operation was waiting and were not handed to it
tkvars == <<slot, nextIdx, wire, pc, done, full, lost>>

NoSlot == <<0, 0>>         \* the result of an operation that found no free slot
Cancelled == <<0, 1>>      \* the result of an operation that was given up
NoIdx == -1                \* the index word of a slot that was reset

Free == [busy |-> FALSE, owner |-> 0, idx |-> NoIdx, resp |-> <<>>, held |-> FALSE]

TkInit ==
    /\ slot = [f \in Slot |-> [Free EXCEPT !.idx = 0]]       \* storage starts out zeroed
    /\ nextIdx = 0 /\ wire = {}
    /\ pc = [t \in Task |-> "idle"]
    /\ done = [t \in Task |-> <<>>]
    /\ full = {} /\ lost = {}

FreeSlots == {f \in Slot : ~slot[f].busy}
Awaiting(f) == slot[f].busy /\ ~slot[f].held /\ slot[f].resp = <<>>
HeldBy(t) == {f \in Slot : slot[f].busy /\ slot[f].held /\ slot[f].owner = t}

WrapAssumption(ix) == \A fr \in wire : fr.idx # ix

\* an operation starts in slot f with datagram index ix: the request is what only this task and this operation
\* would send
BeginAt(t, f, ix) ==
    /\ pc[t] = "idle" /\ Len(done[t]) < Ops /\ ~slot[f].busy
    /\ WrapAssumption(ix)
    /\ slot' = [slot EXCEPT ![f] = [busy |-> TRUE, owner |-> t, idx |-> ix, resp |-> <<>>, held |-> FALSE]]
    /\ wire' = wire \cup {[idx |-> ix, tag |-> <<t, Len(done[t]) + 1>>]}
    /\ nextIdx' = (ix + 1) % IdxMod
    /\ pc' = [pc EXCEPT ![t] = "wait"]
    /\ UNCHANGED <<done, full, lost>>

\* ... or fails at once because every slot is taken
NoSlotFor(t) ==
    /\ pc[t] = "idle" /\ Len(done[t]) < Ops /\ FreeSlots = {}
    /\ done' = [done EXCEPT ![t] = Append(@, NoSlot)]
    /\ full' = full \cup {Cardinality({f \in Slot : slot[f].busy})}
    /\ UNCHANGED <<slot, nextIdx, wire, pc, lost>>

Begin(t) ==
    IF FreeSlots = {} THEN NoSlotFor(t)
    ELSE BeginAt(t, CHOOSE f \in FreeSlots : \A g \in FreeSlots : f <= g, nextIdx)

\* the slot the receive side picks for a response with index ix (0 = none)
Route(ix) ==
    IF SentOnly
    THEN IF \E f \in Slot : Awaiting(f) /\ slot[f].idx = ix
         THEN CHOOSE f \in Slot : Awaiting(f) /\ slot[f].idx = ix /\ \A g \in Slot : (Awaiting(g) /\ slot[g].idx = ix) => f <= g
         ELSE 0
    ELSE IF \E f \in Slot : slot[f].idx = ix
         THEN LET f == CHOOSE f \in Slot : slot[f].idx = ix /\ \A g \in Slot : slot[g].idx = ix => f <= g
              IN IF Awaiting(f) THEN f ELSE 0
         ELSE 0

\* the network hands a response to the receive side, which routes it by its index
Deliver(fr) ==
    /\ fr \in wire
    /\ wire' = wire \ {fr}
    /\ LET f == Route(fr.idx) IN
       /\ IF f # 0 THEN slot' = [slot EXCEPT ![f].resp = fr.tag] ELSE UNCHANGED slot
       /\ lost' = IF f = 0 /\ \E g \in Slot : Awaiting(g) /\ slot[g].idx = fr.idx /\ <<slot[g].owner, Len(done[slot[g].owner]) + 1>> = fr.tag
                  THEN lost \cup {fr.tag} ELSE lost
    /\ UNCHANGED <<nextIdx, pc, done, full>>

\* the task takes the response and lets go of the slot (the index word is reset)
Complete(t) ==
    /\ pc[t] = "wait"
    /\ \E f \in Slot :
        /\ slot[f].busy /\ ~slot[f].held /\ slot[f].owner = t /\ slot[f].resp # <<>>
        /\ done' = [done EXCEPT ![t] = Append(@, slot[f].resp)]
        /\ slot' = [slot EXCEPT ![f] = Free]
    /\ pc' = [pc EXCEPT ![t] = "idle"]
    /\ UNCHANGED <<nextIdx, wire, full, lost>>

\* ... or takes it and keeps the slot claimed as a view of the response
CompleteHold(t) ==
    /\ pc[t] = "wait" /\ Cardinality(HeldBy(t)) < MaxHeld
    /\ \E f \in Slot :
        /\ slot[f].busy /\ ~slot[f].held /\ slot[f].owner = t /\ slot[f].resp # <<>>
        /\ done' = [done EXCEPT ![t] = Append(@, slot[f].resp)]
        /\ slot' = [slot EXCEPT ![f].held = TRUE]
    /\ pc' = [pc EXCEPT ![t] = "idle"]
    /\ UNCHANGED <<nextIdx, wire, full, lost>>

DropHeld(t, f) ==
    /\ f \in HeldBy(t)
    /\ slot' = [slot EXCEPT ![f] = Free]
    /\ UNCHANGED <<nextIdx, wire, pc, done, full, lost>>

\* the operation is given up, whether its response has arrived or not: the slot is free, its index word stays
Abandon(t) ==
    /\ Abandons /\ pc[t] = "wait"
    /\ \E f \in Slot :
        /\ slot[f].busy /\ ~slot[f].held /\ slot[f].owner = t
        /\ slot' = [slot EXCEPT ![f] = [Free EXCEPT !.idx = slot[f].idx]]
    /\ done' = [done EXCEPT ![t] = Append(@, Cancelled)]
    /\ pc' = [pc EXCEPT ![t] = "idle"]
    /\ UNCHANGED <<nextIdx, wire, full, lost>>

TkNext == \/ \E t \in Task : Begin(t) \/ Complete(t) \/ CompleteHold(t) \/ Abandon(t) \/ \E f \in Slot : DropHeld(t, f)
          \/ \E fr \in wire : Deliver(fr)
TkSpec == TkInit /\ [][TkNext]_tkvars /\ WF_tkvars(TkNext)

\* ---------------------------------------------------------------------------
\* C20 on the model

\* no task ever receives another task's (or another operation's) response
OwnResponses ==
    \A t \in Task : \A k \in 1..Len(done[t]) : done[t][k] \in {NoSlot, Cancelled} \/ done[t][k] = <<t, k>>

\* an operation fails for lack of a slot only when the storage is completely in use
NoSpuriousFailure == \A n \in full : n = Slots

\* with a slot for everything every task can have claimed at a time nothing fails at all
NeverFailsWithEnoughSlots ==
    Slots >= NTasks * (1 + MaxHeld) => \A t \in Task : \A k \in 1..Len(done[t]) : done[t][k] # NoSlot

\* a response that arrives while its operation waits for it is handed to it, whatever the other slots hold
NoResponseLost == lost = {}

\* the slots awaiting a response carry distinct indices (what routing by index needs)
DistinctInFlight == \A f, g \in Slot : (f # g /\ Awaiting(f) /\ Awaiting(g)) => slot[f].idx # slot[g].idx

AllFinish == <>(\A t \in Task : Len(done[t]) = Ops)
=============================================================================
