------------------------------- MODULE InitSeq -------------------------------
(***************************************************************************)
(* MainDevice::init (src/maindevice.rs) as a protocol between the           *)
(* MainDevice and a ring of SubDevices: count, reset, assign station        *)
(* addresses by ring position, read each device's identity through its new  *)
(* configured address, sort the devices into groups, bring all to PRE-OP.   *)
(*                                                                         *)
(* Devices are abstract: a ring position, the station address register      *)
(* (arbitrary before init, duplicates allowed), an EEPROM identity tag,     *)
(* capabilities, an AL state.  Configured-address reads are answered by     *)
(* every device holding that address (working counter = their number), so   *)
(* the specification shows why all addresses must be assigned before the    *)
(* first configured read.                                                   *)
(***************************************************************************)
EXTENDS Naturals, Integers, Sequences, FiniteSets, TLC

CONSTANTS MaxSubs,       \* set of MAX_SUBDEVICES values of the caller
          MaxDevs,       \* networks of 0..MaxDevs devices are explored
          PriorAddrs,    \* station addresses devices may hold before init
          DcKinds,       \* subset of {"none", "dc32", "dc64"}
          NGroups,       \* set of group counts
          Filters        \* subset of {"single", "roundrobin", "bytag", "error_at"}

Base == 4096             \* 0x1000
INIT == 1  PREOP == 2

VARIABLES
    net,        \* sequence of devices [tag, prior, dc]
    station,    \* station[i] : current station address register of device i
    al,         \* al[i]
    cfg,        \* [groups, filter, errorAt]
    pc, k,      \* MainDevice program counter and loop index
    counted,    \* number of devices the broadcast read counted
    found,      \* sequence of discovered SubDevices [addr, tag]
    groupsOut,  \* groupsOut[g] : sequence of discovered SubDevices
    result

isvars == <<net, station, al, cfg, pc, k, counted, found, groupsOut, result>>

Tags(n) == 1..n

Nets == UNION { [1..n -> [prior : PriorAddrs, dc : DcKinds]] : n \in 0..MaxDevs }

IsInit ==
    /\ \E raw \in Nets :
          net = [i \in 1..Len(raw) |-> [tag |-> i, prior |-> raw[i].prior, dc |-> raw[i].dc]]
    /\ station = [i \in 1..Len(net) |-> net[i].prior]
    /\ al = [i \in 1..Len(net) |-> INIT]
    /\ cfg \in [groups : NGroups, filter : Filters, errorAt : 0..MaxDevs, maxSub : MaxSubs]
    /\ (cfg.filter = "single" => cfg.groups = 1)
    /\ (cfg.filter # "error_at" => cfg.errorAt = 0)
    /\ pc = "count" /\ k = 0 /\ counted = 0
    /\ found = <<>>
    /\ groupsOut = [g \in 0..2 |-> <<>>]
    /\ result = "running"

N == Len(net)

\* devices answering a configured-address datagram for address a
Holders(a) == {i \in 1..N : station[i] = a}

Count ==
    /\ pc = "count"
    /\ counted' = N                                  \* BRD: every device increments the counter
    /\ IF N = 0 THEN pc' = "done" /\ result' = "ok"
       ELSE pc' = "assign" /\ UNCHANGED result
    /\ k' = 0
    /\ UNCHANGED <<net, station, al, cfg, found, groupsOut>>

\* APWR to ring position k: the device at that position takes address Base + k
Assign ==
    /\ pc = "assign"
    /\ station' = [station EXCEPT ![k + 1] = Base + k]
    /\ IF k + 1 = counted THEN pc' = "discover" /\ k' = 0 ELSE k' = k + 1 /\ UNCHANGED pc
    /\ UNCHANGED <<net, al, cfg, counted, found, groupsOut, result>>

\* SubDevice::new(Base + k): configured reads; every read must be answered by exactly one device
Discover ==
    /\ pc = "discover"
    /\ LET h == Holders(Base + k) IN
       IF Cardinality(h) # 1
       THEN /\ pc' = "done" /\ result' = "err:WorkingCounter" /\ UNCHANGED <<found, k>>
       ELSE IF Len(found) = cfg.maxSub
       THEN /\ pc' = "done" /\ result' = "err:Capacity" /\ UNCHANGED <<found, k>>
       ELSE LET i == CHOOSE x \in h : TRUE IN
            /\ found' = Append(found, [addr |-> Base + k, tag |-> net[i].tag, pos |-> k])
            /\ IF k + 1 = counted THEN pc' = "group" /\ k' = 0 ELSE k' = k + 1 /\ UNCHANGED pc
            /\ UNCHANGED result
    /\ UNCHANGED <<net, station, al, cfg, counted, groupsOut>>

GroupOf(sd) ==
    CASE cfg.filter = "single" -> 0
      [] cfg.filter = "roundrobin" -> sd.pos % cfg.groups
      [] cfg.filter = "bytag" -> sd.tag % cfg.groups
      [] OTHER -> 0

Group ==
    /\ pc = "group"
    /\ LET sd == found[k + 1] IN
       IF cfg.filter = "error_at" /\ sd.pos = cfg.errorAt
       THEN /\ pc' = "done" /\ result' = "err:Filter" /\ UNCHANGED <<groupsOut, k>>
       ELSE /\ groupsOut' = [groupsOut EXCEPT ![GroupOf(sd)] = Append(@, sd)]
            /\ IF k + 1 = Len(found) THEN pc' = "preop" /\ k' = 0 ELSE k' = k + 1 /\ UNCHANGED pc
            /\ UNCHANGED result
    /\ UNCHANGED <<net, station, al, cfg, counted, found>>

PreOp ==
    /\ pc = "preop"
    /\ al' = [i \in 1..N |-> PREOP]
    /\ pc' = "done" /\ result' = "ok"
    /\ UNCHANGED <<net, station, cfg, k, counted, found, groupsOut>>

IsNext == Count \/ Assign \/ Discover \/ Group \/ PreOp
IsSpec == IsInit /\ [][IsNext]_isvars

\* ---------------------------------------------------------------------------
\* C09 on the model

AllFound == groupsOut[0] \o groupsOut[1] \o groupsOut[2]

CountExact == pc = "done" /\ result = "ok" => Len(AllFound) = N

AddressesBasePlusIndex ==
    pc = "done" /\ result = "ok" =>
        /\ \A i \in 1..N : station[i] = Base + (i - 1)
        /\ \A j \in 1..Len(AllFound) : AllFound[j].addr = Base + AllFound[j].pos

Distinct ==
    pc = "done" /\ result = "ok" => \A i, j \in 1..N : i # j => station[i] # station[j]

IdentityFromOwnEeprom ==
    pc = "done" /\ result = "ok" =>
        \A j \in 1..Len(AllFound) : AllFound[j].tag = net[AllFound[j].pos + 1].tag

ExactlyOneGroup ==
    pc = "done" /\ result = "ok" =>
        \A i \in 1..N : Cardinality({j \in 1..Len(AllFound) : AllFound[j].pos = i - 1}) = 1

AllPreOp == pc = "done" /\ result = "ok" /\ N > 0 => \A i \in 1..N : al[i] = PREOP

OverCapacityIsError == pc = "done" /\ N > cfg.maxSub => result = "err:Capacity"

EmptyNetworkEmptyGroups == pc = "done" /\ N = 0 => result = "ok" /\ AllFound = <<>>

\* with all addresses assigned first, prior addresses can never make a configured read ambiguous
NoAmbiguousRead == result # "err:WorkingCounter"

=============================================================================
