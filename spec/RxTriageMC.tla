------------------------------ MODULE RxTriageMC ------------------------------
(* Model-checking wrapper of RxTriage: prints every case (slot targets + frame bytes). *)
EXTENDS RxTriage, Json

Emit == phase = "done" => PrintT(ToJson([targets |-> targets, frame |-> frame, expect |-> outcome.res]))

=============================================================================
