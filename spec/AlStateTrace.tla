----------------------------- MODULE AlStateTrace -----------------------------
(***************************************************************************)
(* Each trace line is one real group transition on the simulated segment    *)
(* with scripted devices.  Monitor: C10's clauses on the observations.      *)
(* Conformance: for single-stage transitions the line's scripts become the  *)
(* initial state of AlState, the model runs, and its verdict (ok / timeout) *)
(* must be the real call's.                                                 *)
(***************************************************************************)
EXTENDS AlState, Json, IOUtils

Rec == ndJsonDeserialize(IOEnv.TRACE)

VARIABLE ri

ASSUME TLCSet(3, 0)
ASSUME TLCSet(4, 0)
ASSUME TLCSet(5, 0)

Chain(t) ==
    CASE t = "safe_op" -> <<4>> [] t = "op" -> <<4, 8>> [] t = "request_op" -> <<4, 8>>
      [] t = "pre_op" -> <<4, 2>> [] t = "init" -> <<4, 2, 1>> [] OTHER -> <<>>

TargetCode(t) == LET c == Chain(t) IN c[Len(c)]

StateName(x) ==
    CASE x = 0 -> "None" [] x = 1 -> "Init" [] x = 2 -> "PreOp" [] x = 3 -> "Bootstrap"
      [] x = 4 -> "SafeOp" [] x = 8 -> "Op" [] OTHER -> "Other"

IsPrefix(a, b) == Len(a) <= Len(b) /\ \A i \in 1..Len(a) : a[i] = b[i]

\* strip the acknowledge bit the MainDevice may set
Strip(ws) == [i \in 1..Len(ws) |-> ws[i] % 16]

MemberSet(r) == {r.group0[i] + 1 : i \in 1..Len(r.group0)}

Bad(s) == s.refuse_with # 0 \/ s.stall \/ s.silent

\* do the scripts apply to a stage of the transition chain under test?
Applies(c) ==
    \/ c.script_state = "all"
    \/ c.script_state = "safeop"
    \/ c.script_state = "op" /\ c.target \in {"op"}
    \/ c.script_state = "preop" /\ c.target \in {"pre_op", "init"}
    \/ c.script_state = "init" /\ c.target = "init"

MonitorErrors(r) ==
    LET c == r.case
        n == Len(c.devices)
        mem == MemberSet(r)
        chain == Chain(c.target)
        waits == c.target # "request_op"
        anyFall == \E i \in mem : c.scripts[i].fall_back_after # 0
        anyBad == Applies(c) /\ \E i \in mem : Bad(c.scripts[i])
    IN (IF r.result \in {"panic", "hang", "budget"} THEN {<<"NotTotal", r.result>>} ELSE {})
       \cup (IF r.result = "ok" /\ waits /\ ~anyFall /\ \E i \in mem : r.al_after[i] # TargetCode(c.target)
             THEN {<<"OkButNotInState", [i \in 1..n |-> r.al_after[i]], c.target>>} ELSE {})
       \* "at the moment it was checked": the call succeeds on one pass over the group - the last |group| status reads
       \* before it returned are one read of every member, each answering the requested state
       \cup (IF r.result = "ok" /\ waits /\ "al_reads_tail" \in DOMAIN r
             THEN LET t == r.al_reads_tail
                      m == Cardinality(mem)
                      last == IF Len(t) >= m THEN SubSeq(t, Len(t) - m + 1, Len(t)) ELSE t
                  IN IF Len(t) < m \/ {last[j][1] + 1 : j \in 1..Len(last)} # mem
                        \/ \E j \in 1..Len(last) : last[j][2] % 16 # TargetCode(c.target)
                     THEN {<<"SuccessNotFromOnePass", last, TargetCode(c.target)>>} ELSE {}
             ELSE {})
       \cup (IF waits /\ anyBad /\ r.result = "ok" THEN {<<"BadDeviceButOk">>} ELSE {})
       \cup (IF r.result # "ok" /\ r.result \notin {"panic", "hang", "budget"}
                /\ r.elapsed_us > 3 * (c.transition_timeout_ms * 1000 + 5000)
             THEN {<<"ErrorLate", r.elapsed_us>>} ELSE {})
       \cup (IF \E i \in 1..n : i \notin mem /\ Len(r.al_writes[i]) # 0
             THEN {<<"RequestOutsideGroup", [i \in 1..n |-> r.al_writes[i]]>>} ELSE {})
       \cup (IF \E i \in mem : ~(Len(r.al_writes[i]) >= 1 /\ IsPrefix(Strip(r.al_writes[i]), chain))
             THEN {<<"RequestWrong", [i \in 1..n |-> r.al_writes[i]], chain>>} ELSE {})
       \cup (IF r.result = "ok" /\ \E i \in mem : Strip(r.al_writes[i]) # chain
             THEN {<<"RequestIncomplete", [i \in 1..n |-> r.al_writes[i]], chain>>} ELSE {})
       \cup (IF "txrx" \in DOMAIN r /\ r.txrx.result = "ok"
             THEN LET st == r.txrx.states
                      truth == [j \in 1..Len(r.group0) |-> StateName(r.al_at_txrx[r.group0[j] + 1])]
                      allOp == \A j \in 1..Len(st) : st[j] = "Op"
                  IN (IF st # truth THEN {<<"StateListWrong", st, truth>>} ELSE {})
                     \cup (IF r.txrx.all_op # (allOp /\ Len(st) > 0) THEN {<<"AllOpWrong", st, r.txrx.all_op>>} ELSE {})
                     \cup (IF r.txrx.is_in_state_op # (allOp /\ Len(st) > 0)
                           THEN {<<"IsInStateWrong", st, r.txrx.is_in_state_op>>} ELSE {})
             ELSE {})

\* ---- conformance for single-stage transitions PRE-OP -> SAFE-OP ------------------------------
SingleStage(r) == r.case.target = "safe_op" /\ r.case.script_state \in {"all", "safeop"} /\ "group0" \in DOMAIN r

ScriptOf(s) == [after |-> s.accept_after_polls, refuse |-> s.refuse_with # 0, stall |-> s.stall,
                fallAfter |-> s.fall_back_after, silent |-> s.silent]

TInit ==
    \E i \in 1..Len(Rec) :
        /\ ri = i
        /\ IF SingleStage(Rec[i]) /\ Len(Rec[i].case.devices) = NDev /\ MemberSet(Rec[i]) = Members
              /\ ((Rec[i].case.frame_data + 12) \div 14) = PerFrame
           THEN /\ script = [d \in Devs |-> ScriptOf(Rec[i].case.scripts[d])]
                /\ pc = "request"
           ELSE /\ script = [d \in Devs |-> [after |-> 0, refuse |-> FALSE, stall |-> FALSE, fallAfter |-> 0, silent |-> FALSE]]
                /\ pc = "skip"
        /\ state = [d \in Devs |-> From]
        /\ err = [d \in Devs |-> FALSE]
        /\ req = [d \in Devs |-> 0]
        /\ polled = [d \in Devs |-> 0]
        /\ writes = [d \in Devs |-> <<>>]
        /\ idx = 1 /\ round = 0 /\ roundOk = TRUE
        /\ answers = [d \in Devs |-> 0]
        /\ okAnswers = [d \in Devs |-> 0]
        /\ result = "running"

TNext == AsNext /\ UNCHANGED ri

TraceSpec == TInit /\ [][TNext]_<<asvars, ri>>

Judge ==
    pc \in {"done", "skip"} =>
        LET r == Rec[ri]
            me == MonitorErrors(r)
            ce == IF pc = "done" /\ r.result \in {"ok", "err:Timeout"} /\ r.result # result
                  THEN {<<"result", r.result, result>>} ELSE {}
        IN /\ TLCSet(5, TLCGet(5) + 1)
           /\ (me # {} => /\ PrintT(ToJson([kind |-> "VIOL", case |-> r.case.id, errs |-> ToString(me)]))
                          /\ TLCSet(3, TLCGet(3) + 1))
           /\ (ce # {} => /\ PrintT(ToJson([kind |-> "DIVERGE", case |-> r.case.id, errs |-> ToString(ce)]))
                          /\ TLCSet(4, TLCGet(4) + 1))

Report ==
    PrintT(ToJson([kind |-> "SUMMARY", cases |-> Len(Rec), judged |-> TLCGet(5), violations |-> TLCGet(3),
                   divergences |-> TLCGet(4)]))

=============================================================================
