---------------------------- MODULE CoEHostileMC ----------------------------
(***************************************************************************)
(* C16 on the model: the CoE client of CoE.tla against a device that puts   *)
(* anything into its send mailbox.  The adversary draws every response from *)
(* a field-mutated family: length field (0, below the header sizes, exact,  *)
(* beyond the mailbox, 65535), mailbox type, CoE service (emergency, SDO    *)
(* request / response, SDO information), every kind of SDO command byte     *)
(* (expedited with all size codes, normal, abort, segment with and without  *)
(* the last flag and all 'unused bytes' codes), right and wrong index and   *)
(* sub-index, complete sizes 0 .. 2^31-1, with and without data.            *)
(* TLC evaluating the client on all of them without an evaluation error is  *)
(* the totality argument (an out-of-range index in the specification would  *)
(* be a TLC error); the invariants bound the buffer and the number of       *)
(* requests (termination).                                                  *)
(***************************************************************************)
EXTENDS CoE

CONSTANT HFull            \* FALSE: a reduced family for the quick tier

HLens == IF ~HFull THEN {0, 3, 9, 10, 13, 26, 65535} ELSE {0, 2, 3, 5, 9, 10, 11, 13, 14, 18, 26, 1000, 65535}
HTypes == {3, 2}
HServices == IF ~HFull THEN {1, 3} ELSE {1, 2, 3, 8}
HCommands == {0, 1, 2 * 7, 2 * 7 + 1, 16, 17, 64 + 1, 64 + 2, 64 + 3, 64 + 2 + 4 * 3, 64 + 1 + 16, 96, 128, 128 + 16}
HSizes == IF ~HFull THEN {<<0, 0, 0, 0>>, <<8, 0, 0, 0>>, <<9, 0, 0, 0>>} ELSE {<<0, 0, 0, 0>>, <<1, 0, 0, 0>>, <<8, 0, 0, 0>>, <<9, 0, 0, 0>>, <<255, 255, 255, 127>>}

Hostile(cnt) ==
    { LE16(len) \o <<0, 0, 0, ty + 16 * cnt>> \o <<0, 16 * svc>> \o <<cmd>>
        \o (IF idxOk THEN LE16(Index) ELSE LE16((Index + 1) % 65536)) \o <<Sub>> \o size \o data :
      len \in HLens, ty \in HTypes, svc \in HServices, cmd \in HCommands, idxOk \in BOOLEAN, size \in HSizes,
      data \in {<<>>, <<21, 22, 23, 24, 25, 26, 27, 28>>} }

HostileRespond ==
    /\ request # <<>> /\ response = <<>>
    /\ request' = <<>>
    /\ \E m \in Hostile(ReqCounter) : response' = m
    /\ UNCHANGED <<Index, Sub, obj, mbx, dest, fault, pc, counter, toggle, asm, srvLeft, emergencySent, result, value, nreq, wrote>>

HNext == ClientUpload \/ ClientInitResponse \/ ClientSegmentRequest \/ ClientSegmentResponse
         \/ ClientDownload(<<7, 8>>, FALSE) \/ ClientDownloadResponse \/ HostileRespond

HInit == \E m \in {16, 24, 64}, d \in {[kind |-> "exact", n |-> 4], [kind |-> "exact", n |-> 8], [kind |-> "upto", n |-> 8]} :
            CoInitWith(8448, 3, <<>>, m, d, "none")
HSpec == HInit /\ [][HNext]_covars

\* every non-final segment adds at least one byte to a bounded buffer
RequestsBounded == nreq <= BufCap(dest) + 2
Ends == pc # "done" => ENABLED HNext
=============================================================================
