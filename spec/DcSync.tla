-------------------------------- MODULE DcSync --------------------------------
(***************************************************************************)
(* Distributed-clock SYNC set-up and per-cycle timing arithmetic            *)
(* (SubDeviceGroup::configure_dc_sync and tx_rx_dc, src/subdevice_group).   *)
(*                                                                         *)
(* TW = width of the time registers (64 in the code), PW = width allowed    *)
(* for period / delay / shift (32).  TLC checks the model exhaustively for  *)
(* scaled widths; DcSyncApa.tla proves the arithmetic obligations for the   *)
(* true widths with Apalache; DcSyncTrace.tla checks executions of the real *)
(* code (full 64-bit values, carried as limbs) against the same formulas.   *)
(***************************************************************************)
EXTENDS Naturals, Integers, Sequences, FiniteSets, TLC

CONSTANTS TW, PW,          \* bit widths (scaled for TLC)
          NDev,            \* number of SubDevices in the group
          WideSum,         \* TRUE: the sum t + d is formed in a wider type (after the "fix:" commit)
          Sync1Checked     \* TRUE (repaired): a SYNC1 period must fit PW bits like SYNC0's and is written as PW bits;
                           \* FALSE: any period is taken, written in 2 * PW bits over the registers that follow

Pow2(n) == 2 ^ n
TMax == Pow2(TW) - 1
PMax == Pow2(PW) - 1

\* ---------------------------------------------------------------------------
\* arithmetic, as the code computes it

\* configure_dc_sync: Err if period or delay do not fit PW bits; the sum t + d is formed in TW bits
SetupStart(t, d, p) ==
    IF p > PMax \/ d > PMax THEN [res |-> "range"]
    ELSE IF ~WideSum /\ t + d > TMax THEN [res |-> "overflow"]     \* panic (checked) / wrap (unchecked)
    ELSE IF ((t + d) \div p) * p > TMax THEN [res |-> "range"]     \* start time does not fit the register
    ELSE [res |-> "ok", start |-> ((t + d) \div p) * p]

\* what the property asks for: the multiple of p in (t + d - p, t + d]
WantedStart(t, d, p) == ((t + d) \div p) * p

CycleOffset(t, p) == t % p
CycleWait(t, p, s) == (p - (t % p)) + s

\* ---------------------------------------------------------------------------
\* device selection and activation flags
\* support: "none" | "ref" | "dc32" | "dc64";  mode: "Disabled" | "Sync0" | "Sync01"
SYNC0 == 2  SYNC1 == 4  CYCLIC == 1

Selected(dev) == dev.support # "none" /\ dev.mode # "Disabled"
Flags(dev) == IF dev.mode = "Sync01" THEN SYNC1 + SYNC0 + CYCLIC ELSE SYNC0 + CYCLIC

\* ---------------------------------------------------------------------------
\* model: one configuration per initial state

Supports == {"none", "dc32", "dc64"}
Modes == {"Disabled", "Sync0", "Sync01"}

VARIABLES t, d, p, s, devs, hasRef, written, result, phase

dsvars == <<t, d, p, s, devs, hasRef, written, result, phase>>

DsInit ==
    /\ t \in 0..TMax
    /\ d \in 0..(PMax + 1)
    /\ p \in 1..(PMax + 1)
    /\ s \in 0..PMax
    /\ devs \in [1..NDev -> {[support |-> su, mode |-> m, sync1 |-> s1] :
                                su \in Supports, m \in Modes, s1 \in {0, 1, PMax, PMax + 1}}]
    /\ \A i \in 1..NDev : (devs[i].mode = "Sync01") = (devs[i].sync1 # 0)
    /\ hasRef \in BOOLEAN
    /\ written = [i \in 1..NDev |-> [start |-> -1, cycle0 |-> -1, cycle1 |-> -1, spill |-> 0, flags |-> -1]]
    /\ result = "none"
    /\ phase = "ready"

Configure ==
    /\ phase = "ready"
    /\ phase' = "done"
    /\ IF ~hasRef THEN result' = "noreference" /\ UNCHANGED written
       ELSE LET r == SetupStart(t, d, p) IN
            IF r.res # "ok" THEN result' = r.res /\ UNCHANGED written
            ELSE \* the devices are configured one after the other; the first SYNC1 period that does not fit ends it
                 LET bad == {i \in 1..NDev : Sync1Checked /\ Selected(devs[i]) /\ devs[i].sync1 > PMax}
                     stop == IF bad = {} THEN NDev + 1 ELSE CHOOSE i \in bad : \A j \in bad : i <= j
                 IN /\ result' = IF bad = {} THEN "ok" ELSE "range"
                    /\ written' = [i \in 1..NDev |->
                                     IF Selected(devs[i]) /\ i < stop
                                     THEN [start |-> r.start, cycle0 |-> p,
                                           cycle1 |-> IF devs[i].mode = "Sync01" THEN devs[i].sync1 % Pow2(PW) ELSE -1,
                                           spill |-> IF devs[i].mode = "Sync01" /\ ~Sync1Checked THEN 1 ELSE 0,
                                           flags |-> Flags(devs[i])]
                                     ELSE IF Selected(devs[i]) /\ i = stop
                                     THEN [written[i] EXCEPT !.start = r.start, !.cycle0 = p]     \* given up half way
                                     ELSE written[i]]
    /\ UNCHANGED <<t, d, p, s, devs, hasRef>>

DsNext == Configure
DsSpec == DsInit /\ [][DsNext]_dsvars

\* ---------------------------------------------------------------------------
\* C18 on the model

OnlySelectedTouched ==
    phase = "done" => \A i \in 1..NDev : ~Selected(devs[i]) => written[i].start = -1 /\ written[i].flags = -1

StartIsMultipleInInterval ==
    phase = "done" /\ result = "ok" =>
        \A i \in 1..NDev : Selected(devs[i]) =>
            /\ written[i].start % p = 0
            /\ written[i].start <= t + d
            /\ written[i].start > t + d - p
            /\ written[i].cycle0 = p
            /\ (devs[i].mode = "Sync01" => written[i].cycle1 = devs[i].sync1)
            /\ written[i].flags = Flags(devs[i])

Sync1TooLong == \E i \in 1..NDev : Selected(devs[i]) /\ devs[i].sync1 > PMax

RangeRejected ==
    phase = "done" /\ hasRef /\ (p > PMax \/ d > PMax \/ Sync1TooLong) => result = "range"

\* a device whose sync signals were activated has all its times
NoHalfConfiguredActive ==
    phase = "done" => \A i \in 1..NDev : written[i].flags # -1 => written[i].start # -1 /\ written[i].cycle0 = p

\* nothing but the DC sync registers is written
NoSpill == \A i \in 1..NDev : written[i].spill = 0

\* nothing else is rejected as long as the start time is representable
OnlyRangeRejected ==
    phase = "done" /\ hasRef /\ p <= PMax /\ d <= PMax /\ ~Sync1TooLong /\ WantedStart(t, d, p) <= TMax => result = "ok"

NoReferenceRejected == phase = "done" /\ ~hasRef => result = "noreference"

\* the set-up is total: it never overflows (this is where the code as written can fail)
SetupTotal == phase = "done" => result # "overflow"

CycleExact ==
    \A tt \in {0, 1, t, TMax - 1, TMax} :
        /\ CycleOffset(tt, p) < p
        /\ tt = (tt \div p) * p + CycleOffset(tt, p)
        /\ CycleWait(tt, p, s) = (p - CycleOffset(tt, p)) + s
        /\ (p <= PMax => CycleWait(tt, p, s) <= TMax)

=============================================================================
