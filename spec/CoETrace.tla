------------------------------ MODULE CoETrace ------------------------------
(***************************************************************************)
(* C15 on executions.  One trace line = one call of SubDeviceRef::sdo_read *)
(* / sdo_write / sdo_read_array / sdo_write_array against the simulated    *)
(* CoE server holding a known object, with the mailbox messages both sides *)
(* put on the wire (in = MainDevice to device, out = device to MainDevice) *)
(* and the call's result.                                                  *)
(*                                                                         *)
(* Conformance: every logged request must be byte for byte the request the *)
(* CoE model's client writes in its current state (header length, counter, *)
(* service, command, index, sub-index, toggle, payload), every logged      *)
(* response is fed to the model's client, and the model must end with the  *)
(* result and bytes the real call returned.  The array helpers are a       *)
(* sequence of transfers: sub-index 0, then 1..n (reads); 0 := 0, 1..n,    *)
(* 0 := n (writes).                                                        *)
(*                                                                         *)
(* Monitor (from observations only): a successful read returned exactly    *)
(* the object's bytes; a successful write left exactly the value's bytes   *)
(* in the device; aborts, emergencies, responses for another object and    *)
(* oversized objects are reported as such; the mailbox counters of         *)
(* successive requests cycle through 1..7.                                 *)
(***************************************************************************)
EXTENDS CoE, Json, IOUtils

Rec == ndJsonDeserialize(IOEnv.TRACE)

VARIABLES ri, k, step         \* record, position in its mailbox log, index of the current transfer of the call
ctvars == <<covars, ri, k, step>>

ASSUME TLCSet(3, 0)
ASSUME TLCSet(4, 0)
ASSUME TLCSet(5, 0)
ASSUME TLCSet(6, [i \in 1..Len(Rec) |-> 0])

Log(r) == r.mailbox_log
\* the transfers a call consists of: sequence of [dir, sub, obj (bytes the device holds), data (bytes written), dest]
Plan(r) == r.plan

Prefix(bytes, n) == SubSeq(bytes, 1, n)

TInit ==
    \E i \in 1..Len(Rec) :
        /\ ri = i /\ k = 1 /\ step = 1
        /\ LET r == Rec[i]  p == Plan(r)[1] IN
           CoInitWith(r.index, p.sub, p.obj, r.mailbox_size, p.dest, r.fault)

Event == Log(Rec[ri])[k]
Cur == Plan(Rec[ri])[step]

\* the MainDevice wrote a request: it must be the model's
TraceRequest ==
    /\ k <= Len(Log(Rec[ri])) /\ Event.dir = "in"
    /\ \/ (Cur.dir = "read" /\ ClientUploadCa(Rec[ri].complete))
       \/ ClientSegmentRequest
       \/ (Cur.dir = "write" /\ ClientDownload(Cur.data, Rec[ri].complete))
    /\ Len(Event.bytes) >= Len(request') /\ Prefix(Event.bytes, Len(request')) = request'
    /\ k' = k + 1 /\ UNCHANGED <<ri, step>>

\* the device answered: the logged message is what the client will fetch
TraceResponse ==
    /\ k <= Len(Log(Rec[ri])) /\ Event.dir = "out"
    /\ pc \in {"wait_init", "wait_seg", "wait_dl"} /\ response = <<>>
    /\ response' = Event.bytes
    /\ request' = IF Event.bytes[8] \div 16 = EmergencyService THEN request ELSE <<>>
    /\ obj' = IF pc = "wait_dl" /\ Event.bytes[9] \div 32 = 3 THEN wrote ELSE obj
    /\ k' = k + 1
    /\ UNCHANGED <<Index, Sub, mbx, dest, fault, pc, counter, toggle, asm, srvLeft, emergencySent, result, value, nreq, wrote, ri, step>>

\* an old message that was still in the device's send mailbox is fetched and thrown away before the request
TraceDrain ==
    /\ k <= Len(Log(Rec[ri])) /\ Event.dir = "out" /\ pc = "idle"
    /\ k' = k + 1 /\ UNCHANGED <<covars, ri, step>>

\* a response the device queued behind an emergency message is still in its mailbox when the call has ended
TraceLeftover ==
    /\ k <= Len(Log(Rec[ri])) /\ Event.dir = "out" /\ pc = "done"
    /\ k' = k + 1 /\ UNCHANGED <<covars, ri, step>>

\* the client digests the response (no wire traffic)
TraceDigest ==
    /\ (ClientInitResponse \/ ClientSegmentResponse \/ ClientDownloadResponse)
    /\ UNCHANGED <<ri, k, step>>

\* next transfer of an array helper
TraceNextTransfer ==
    /\ pc = "done" /\ result = "ok" /\ step < Len(Plan(Rec[ri]))
    /\ LET p == Plan(Rec[ri])[step + 1] IN
       /\ Sub' = p.sub /\ obj' = p.obj /\ dest' = p.dest
       /\ pc' = "idle" /\ result' = "pending" /\ asm' = <<>> /\ srvLeft' = -1 /\ wrote' = <<>> /\ nreq' = 0
       /\ value' = <<>>
    /\ step' = step + 1
    /\ UNCHANGED <<Index, mbx, fault, counter, toggle, request, response, emergencySent, ri, k>>

TNext == TraceRequest \/ TraceResponse \/ TraceDrain \/ TraceLeftover \/ TraceDigest \/ TraceNextTransfer
TraceSpec == TInit /\ [][TNext]_ctvars

\* ---- progress register, verdict -----------------------------------------------------------
Track == TLCSet(6, [TLCGet(6) EXCEPT ![ri] = IF k > @ THEN k ELSE @])

\* the log is consumed and the client has nothing left to digest
Finished ==
    /\ k = Len(Log(Rec[ri])) + 1
    /\ response = <<>>
    /\ ~(pc = "done" /\ result = "ok" /\ step < Len(Plan(Rec[ri])))

ObsResult(r) == r.obs_result

MonitorErrors(r) ==
    (IF r.obs_result \in {"panic", "hang", "budget"} THEN {<<"NotTotal", r.obs_result, r.detail>>} ELSE {})
    \* C16: whatever the device answers, the call ends within the number of frames its buffer allows
    \cup (IF r.fault = "hostile" /\ r.frames > r.frame_bound THEN {<<"Unbounded", r.frames, r.frame_bound>>} ELSE {})
    \cup (IF r.fault = "none" /\ r.dir = "read" /\ r.obs_result = "ok" /\ r.value # r.expect_value
          THEN {<<"WrongBytes", r.value, r.expect_value>>} ELSE {})
    \cup (IF r.fault = "none" /\ r.expect_result # "any" /\ r.obs_result # r.expect_result
          THEN {<<"WrongOutcome", r.obs_result, r.expect_result>>} ELSE {})
    \cup (IF r.fault = "abort" /\ (r.obs_result # "err:Aborted" \/ r.abort_code # r.expect_abort)
          THEN {<<"AbortNotReported", r.obs_result, r.abort_code>>} ELSE {})
    \cup (IF r.fault = "emergency" /\ (r.obs_result # "err:Emergency" \/ r.emergency # r.expect_emergency)
          THEN {<<"EmergencyNotReported", r.obs_result, r.emergency>>} ELSE {})
    \cup (IF r.fault \in {"wrong_index", "wrong_sub"} /\ r.obs_result # "err:SdoResponseInvalid"
          THEN {<<"WrongObjectAccepted", r.obs_result>>} ELSE {})
    \cup (IF r.dir = "write" /\ r.fault = "none" /\ r.obs_result = "ok" /\ r.server_after # r.expect_server
          THEN {<<"WriteNotStored", r.server_after, r.expect_server>>} ELSE {})
    \cup (IF \E j \in 1..Len(r.counters) : r.counters[j] \notin 1..7
                \/ (j > 1 /\ r.counters[j] # NextCounter(r.counters[j - 1]))
          THEN {<<"CounterNotCycling", r.counters>>} ELSE {})

Judge ==
    Finished =>
        LET r == Rec[ri]
            me == MonitorErrors(r)
            \* conformance: the model's outcome is the call's outcome
            de == IF r.obs_result \in {"panic", "hang", "budget"} THEN {}
                  ELSE IF r.fault = "hostile"
                  THEN \* scripted replies: the model's client must agree on value-or-error, and on the value
                       IF ~r.conform THEN {}
                       ELSE (IF pc = "done" /\ (result = "ok") # (r.obs_result = "ok")
                             THEN {<<"class", result, r.obs_result>>} ELSE {})
                            \cup (IF pc = "done" /\ result = "ok" /\ r.obs_result = "ok" /\ value # r.value
                                  THEN {<<"value", value, r.value>>} ELSE {})
                            \cup (IF pc # "done" /\ r.obs_result = "ok" THEN {<<"unfinished", pc>>} ELSE {})
                  ELSE (IF pc = "done" /\ result # r.obs_result /\ ~(r.obs_result = "err:Capacity")
                        THEN {<<"result", result, r.obs_result>>} ELSE {})
                       \cup (IF pc # "done" /\ r.obs_result = "ok" THEN {<<"unfinished", pc>>} ELSE {})
                       \cup (IF pc = "done" /\ result = "ok" /\ r.obs_result = "ok" /\ r.dir = "read" /\ ~r.array /\ value # r.value
                             THEN {<<"value", value, r.value>>} ELSE {})
        IN /\ TLCSet(5, TLCGet(5) + 1)
           /\ (me # {} => /\ PrintT(ToJson([kind |-> "VIOL", case |-> r.case.id, errs |-> ToString(me)]))
                          /\ TLCSet(3, TLCGet(3) + 1))
           /\ (de # {} => /\ PrintT(ToJson([kind |-> "DIVERGE", case |-> r.case.id, errs |-> ToString(de)]))
                          /\ TLCSet(4, TLCGet(4) + 1))

Report ==
    LET reached == TLCGet(6)
        bad == {i \in 1..Len(Rec) : reached[i] # Len(Log(Rec[i])) + 1}
        \* the verdict on the property needs nothing from the model: a run the model cannot follow is judged all the same
        badv == {i \in bad : MonitorErrors(Rec[i]) # {}}
    IN /\ \A i \in bad :
            PrintT(ToJson([kind |-> "DIVERGE", case |-> Rec[i].case.id,
                           errs |-> ToString(<<"message", reached[i], Log(Rec[i])[reached[i]].dir,
                                               Log(Rec[i])[reached[i]].bytes>>)]))
       /\ \A i \in badv :
            PrintT(ToJson([kind |-> "VIOL", case |-> Rec[i].case.id, errs |-> ToString(MonitorErrors(Rec[i]))]))
       /\ PrintT(ToJson([kind |-> "SUMMARY", cases |-> Len(Rec), judged |-> TLCGet(5) + Cardinality(bad),
                         violations |-> TLCGet(3) + Cardinality(badv), divergences |-> TLCGet(4) + Cardinality(bad)]))

=============================================================================
