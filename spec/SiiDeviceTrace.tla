--------------------------- MODULE SiiDeviceTrace ---------------------------
(***************************************************************************)
(* The SII register traffic of every EEPROM range read of the C12 cases     *)
(* (control / data register reads and writes with their values), replayed   *)
(* against SiiDevice: a control read is the initial look at the flags or a  *)
(* busy poll (the logged busy bit decides which way the model goes), a      *)
(* control write must carry the read command and the word address the       *)
(* model's cursor is in, a data read must fetch as many bytes as the        *)
(* device's read-size flag says; at the end the model must have delivered   *)
(* as many bytes as the call returned.  One behaviour per read.             *)
(***************************************************************************)
EXTENDS SiiDevice, Json, IOUtils

Rec == ndJsonDeserialize(IOEnv.TRACE)

VARIABLES ri, k
sttvars == <<sdvars, ri, k>>

ASSUME TLCSet(4, 0)
ASSUME TLCSet(5, 0)
ASSUME TLCSet(6, [i \in 1..Len(Rec) |-> 0])

Log(r) == r.sii
TInit == \E i \in 1..Len(Rec) : ri = i /\ k = 1 /\ SdInitWith(Rec[i].word, Rec[i].len, Rec[i].chunk)

E == Log(Rec[ri])[k]
Busy(e) == e.value[1] >= 32768
ReadCommand == 256

TNext ==
    /\ k <= Len(Log(Rec[ri]))
    /\ \/ (E.reg = "control" /\ E.rw = "r" /\ dpc = "check" /\ Check)
       \/ (E.reg = "control" /\ E.rw = "r" /\ dpc = "busy" /\ PollBusy /\ (Busy(E) <=> busyLeft > 0))
       \/ (E.reg = "control" /\ E.rw = "w" /\ Command /\ E.value[1] = ReadCommand /\ E.value[2] = addrReg' /\ E.len = 6)
       \/ (E.reg = "data" /\ E.rw = "r" /\ Fetch /\ E.len = chunk)
    /\ k' = k + 1 /\ UNCHANGED ri
TraceSpec == TInit /\ [][TNext]_sttvars

Track == TLCSet(6, [TLCGet(6) EXCEPT ![ri] = IF k > @ /\ (k <= Len(Log(Rec[ri])) \/ (dpc = "done" /\ got = Rec[ri].n)) THEN k ELSE @])

Judge == k = 1 /\ got = 0 /\ accesses = <<>> => TLCSet(5, TLCGet(5) + 1)

Report ==
    LET reached == TLCGet(6)
        bad == {i \in 1..Len(Rec) : reached[i] # Len(Log(Rec[i])) + 1}
    IN /\ \A i \in bad :
            PrintT(ToJson([kind |-> "DIVERGE", case |-> Rec[i].case.id,
                           errs |-> ToString(<<"register access", reached[i], Rec[i].word, Rec[i].len, Rec[i].n>>)]))
       /\ PrintT(ToJson([kind |-> "SUMMARY", cases |-> Len(Rec), judged |-> TLCGet(5), violations |-> 0,
                         divergences |-> Cardinality(bad)]))
=============================================================================
