------------------------------- MODULE CoEMC -------------------------------
(* Model-checking wrapper of CoE: objects of 0..MaxLen bytes (byte i of the object has the value 10 + i, the   *)
(* protocol does not look at contents), small mailboxes so that every transfer type and many segment splits   *)
(* occur, destinations of both kinds.                                                                          *)
EXTENDS CoE

CONSTANTS Lens
McObjects == { [i \in 1..n |-> 10 + i] : n \in Lens }
McDownloads == {<<7>>, <<7, 8>>, <<7, 8, 9>>, <<7, 8, 9, 10>>}
McDests == {[kind |-> "exact", n |-> 4], [kind |-> "exact", n |-> 8], [kind |-> "upto", n |-> 8], [kind |-> "upto", n |-> 32]}
=============================================================================
