------------------------------- MODULE WkcTrace -------------------------------
(***************************************************************************)
(* Each trace line is one real call of a public entry point against the     *)
(* simulated segment with an injected fault; it lists every datagram of the *)
(* call with the working counter the MainDevice saw and the one the devices *)
(* really produced.  Which datagrams an entry point checks is the table     *)
(* Checked below (read off the code: receive / send_receive / receive_slice *)
(* check, WrappedWrite::send and ignore_wkc do not).                        *)
(***************************************************************************)
EXTENDS Naturals, Integers, Sequences, FiniteSets, TLC, Json, IOUtils

Rec == ndJsonDeserialize(IOEnv.TRACE)

VARIABLE l

ASSUME TLCSet(3, 0)

Single == {"receive_u16", "receive_slice", "send_receive_u16", "send_receive_slice", "brd_receive_u16",
           "register_read", "register_write"}

\* expected count of a checked datagram of this call, or -1 if the datagram is not checked
Expected(c, d) ==
    IF c.entry \in {"receive_u16", "receive_slice", "send_receive_u16", "send_receive_slice", "brd_receive_u16"}
    THEN (IF c.wkc_mode = "ignore" THEN -1 ELSE IF c.wkc_mode = "with" THEN c.with ELSE 1)
    ELSE IF c.entry \in {"register_read", "register_write", "status"} THEN 1
    ELSE IF d.cmd = "LRW" THEN -1
    ELSE IF d.cmd = "FPWR" THEN (IF d.ado = 288 THEN 1 ELSE -1)          \* AL control is write-and-read-back
    ELSE IF d.cmd = "FPRD" THEN (IF d.ado = 304 /\ c.entry \in {"into_op", "lrw_tx_rx"} THEN -1 ELSE 1)
    ELSE -1

Errors(r) ==
    LET c == r.case
        ds == r.datagrams
        off == {j \in 1..Len(ds) : Expected(c, ds[j]) # -1 /\ ds[j].wkc # Expected(c, ds[j])}
    IN (IF r.result \in {"panic", "hang", "budget"} THEN {<<"NotTotal", r.result>>} ELSE {})
       \cup (IF r.result = "ok" /\ off # {} /\ c.entry # "lrw_tx_rx"
             THEN {<<"OkDespiteWrongCounter", [j \in off |-> <<ds[j].cmd, ds[j].ado, ds[j].wkc>>]>>} ELSE {})
       \cup (IF c.entry \in Single /\ Len(ds) = 1 /\ off # {}
                /\ ~(r.result = "err:WorkingCounter" /\ r.expected = Expected(c, ds[1]) /\ r.received = ds[1].wkc)
             THEN {<<"SingleDatagramErrorWrong", r.result>>} ELSE {})
       \* a working counter error names the counter some datagram of the call really came back with, and an
       \* expectation that differs from it (for the datagrams the table lists as checked: the table's expectation;
       \* the same register can be read in a checked and in an unchecked place of a multi-step entry point)
       \cup (IF r.result = "err:WorkingCounter"
                /\ ~(\E j \in 1..Len(ds) : /\ r.received = ds[j].wkc /\ r.received # r.expected
                                              /\ (Expected(c, ds[j]) = -1 \/ Expected(c, ds[j]) = r.expected))
             THEN {<<"ErrorFieldsWrong", r.expected, r.received>>} ELSE {})
       \cup (IF c.entry \in Single /\ off = {} /\ c.fault.kind = "none" /\ r.result # "ok"
             THEN {<<"SpuriousError", r.result>>} ELSE {})

TInit == l = 1
TNext ==
    /\ l <= Len(Rec)
    /\ LET e == IF Rec[l].result = "setup_failed" THEN {} ELSE Errors(Rec[l]) IN
       e # {} => /\ PrintT(ToJson([kind |-> "VIOL", case |-> Rec[l].case.id, errs |-> ToString(e)]))
                 /\ TLCSet(3, TLCGet(3) + 1)
    /\ l' = l + 1
TraceSpec == TInit /\ [][TNext]_l

Report == PrintT(ToJson([kind |-> "SUMMARY", cases |-> Len(Rec), violations |-> TLCGet(3),
                         judged |-> TLCGet("stats").diameter - 1]))

=============================================================================
