--------------------------- MODULE SiiImageTrace ---------------------------
(***************************************************************************)
(* C12, second sentence, on executions.  One trace line = one device        *)
(* description (random, within the property's quantifier) encoded into an   *)
(* EEPROM image by the harness' encoder, then                               *)
(*   obs    : what ethercrab's parser reported for every query (through the *)
(*            field dump hook, over an in-memory provider),                 *)
(*   sub    : what the SubDevice reports after the real initialisation on   *)
(*            the simulated segment (name, identity, alias),                *)
(*   expect : the same values taken directly from the description,          *)
(*   image  : the image bytes (trailing 0xFF fill removed).                 *)
(* Monitor: obs = SiiImage's reading of the image, for every query, and sub *)
(* agrees with it.  Conformance of the oracle itself: SiiImage's reading of *)
(* the image = expect (otherwise encoder and specification disagree about   *)
(* the format and the case proves nothing).                                 *)
(***************************************************************************)
EXTENDS SiiImage, Json, IOUtils

Rec == ndJsonDeserialize(IOEnv.TRACE)

VARIABLE l
ASSUME TLCSet(3, 0)
ASSUME TLCSet(4, 0)

Same(a, b) == a.k = b.k /\ a.v = b.v

Queries == {"alias", "size", "identity", "mailbox", "general", "name", "description", "sync_managers", "fmmus",
            "fmmu_mappings", "read_pdos", "write_pdos"}

StringIdx == {0, 1, 2, 3, 4, 5, 49, 50, 51, 255}
StrName(i) == "string_" \o ToString(i)

\* a string index one past the table is outside the property (not a well-formed reference)
Judged(img, i) == i # Len(StringTable(img)) + 1 \/ ~HasCat(img, CatStrings)

Errors(r) ==
    LET img == r.image IN
    IF r.result # "ok" THEN {<<"ParserDidNotFinish", r.result>>}
    ELSE {<<"ParseMismatch", q, ToString(Query(img, q)), ToString(r.obs[q])>> :
            q \in {q \in Queries : ~Same(Query(img, q), r.obs[q])}}
         \cup {<<"StringMismatch", i, ToString(FindString(img, i, 255)), ToString(r.obs[StrName(i)])>> :
                 i \in {i \in StringIdx : Judged(img, i) /\ ~Same(FindString(img, i, 255), r.obs[StrName(i)])}}
         \* a well-formed device whose name fits the MainDevice's container initialises
         \cup (IF r.init_result # "ok" /\ Name(img).k \in {"Some", "None"}
               THEN {<<"InitFailedOnWellFormedDevice", r.init_result>>} ELSE {})
         \* (a device without a name is given a made-up one from its identity: not compared)
         \cup (IF r.sub.present /\ Name(img).k = "Some" /\ r.sub.name # Name(img).v
               THEN {<<"SubDeviceName", ToString(r.sub.name)>>} ELSE {})
         \cup (IF r.sub.present /\ r.sub.identity # Identity(img).v THEN {<<"SubDeviceIdentity", ToString(r.sub.identity)>>} ELSE {})
         \cup (IF r.sub.present /\ r.sub.alias # W16(img, 8) THEN {<<"SubDeviceAlias", r.sub.alias>>} ELSE {})

Diverge(r) ==
    LET img == r.image IN
    {<<"SpecVsDescription", q, ToString(Query(img, q)), ToString(r.expect[q])>> :
        q \in {q \in Queries : ~Same(Query(img, q), r.expect[q])}}

TInit == l = 1
TNext ==
    /\ l <= Len(Rec)
    /\ LET e == Errors(Rec[l])
           d == Diverge(Rec[l]) IN
       /\ (e # {} => /\ PrintT(ToJson([kind |-> "VIOL", case |-> Rec[l].case.id, errs |-> ToString(e)]))
                     /\ TLCSet(3, TLCGet(3) + 1))
       /\ (d # {} => /\ PrintT(ToJson([kind |-> "DIVERGE", case |-> Rec[l].case.id, errs |-> ToString(d)]))
                     /\ TLCSet(4, TLCGet(4) + 1))
    /\ l' = l + 1

TraceSpec == TInit /\ [][TNext]_l

Report == PrintT(ToJson([kind |-> "SUMMARY", cases |-> Len(Rec), violations |-> TLCGet(3), divergences |-> TLCGet(4),
                         judged |-> TLCGet("stats").diameter - 1]))

=============================================================================
