----------------------------- MODULE SiiReadTrace -----------------------------
(***************************************************************************)
(* C12, first sentence, on executions: each trace line is a device on the   *)
(* simulated segment whose EEPROM is read through the public API            *)
(* (eeprom_read_raw / eeprom_read::<T>) for a list of (start word, length)  *)
(* ranges; "expect" is what the harness' own copy of the image holds there. *)
(* Monitor: exactly those bytes, never more, typed reads complete, the      *)
(* caller's buffer beyond the count untouched.  Conformance: the number of  *)
(* bytes a raw read returns is what SiiRead's window arithmetic predicts.   *)
(***************************************************************************)
EXTENDS SiiRead, Json, IOUtils

Rec == ndJsonDeserialize(IOEnv.TRACE)

VARIABLE l
ASSUME TLCSet(3, 0)
ASSUME TLCSet(4, 0)

ReadErrors(rd) ==
    IF ~rd.in_image
    THEN (IF rd.result \in {"panic", "hang", "budget"} THEN {<<"NotTotal", rd.word, rd.len, rd.result>>} ELSE {})
         \* a range that runs past the device's memory or the 16-bit word address space may be cut short or
         \* refused, but what is returned are still the bytes of the range
         \cup (IF rd.result = "ok" /\ (rd.n > rd.addressable_len \/ rd.data # SubSeq(rd.expect, 1, rd.n))
               THEN {<<"WrongBytes", rd.word, rd.len, rd.data>>} ELSE {})
    ELSE IF rd.result # "ok" THEN {<<"InRangeReadFailed", rd.word, rd.len, rd.via, rd.result>>}
    ELSE (IF rd.n > rd.len \/ rd.data # SubSeq(rd.expect, 1, rd.n) THEN {<<"WrongBytes", rd.word, rd.len, rd.data>>} ELSE {})
         \cup (IF rd.via # "raw" /\ rd.n # rd.len THEN {<<"TypedReadShort", rd.word, rd.len, rd.n>>} ELSE {})
         \cup (IF rd.via = "raw" /\ rd.n # rd.len THEN {<<"RawReadShort", rd.word, rd.len, rd.n>>} ELSE {})
         \cup (IF rd.via = "raw" /\ ~rd.tail_untouched THEN {<<"WroteBeyondCount", rd.word, rd.len>>} ELSE {})

\* SiiRead's prediction of the count of a raw read
ModelCount(rd) == LET w == 2 * WindowWords(rd.len) IN IF rd.len < w THEN rd.len ELSE w

Errors(r) ==
    IF r.result # "ok" THEN (IF r.result \in {"panic", "hang", "budget"} THEN {<<"NotTotal", r.result>>} ELSE {})
    ELSE UNION { ReadErrors(r.reads[i]) : i \in 1..Len(r.reads) }
         \cup (IF r.size.result # "ok" \/ r.size.value # r.image_len THEN {<<"SizeWrong", r.size, r.image_len>>} ELSE {})

Diverge(r) ==
    IF r.result # "ok" THEN {}
    ELSE {<<"count", r.reads[i].word, r.reads[i].len, r.reads[i].n>> :
            i \in {i \in 1..Len(r.reads) : r.reads[i].via = "raw" /\ r.reads[i].result = "ok" /\ r.reads[i].in_image
                                            /\ r.reads[i].n # ModelCount(r.reads[i])}}

TInit == l = 1
TNext ==
    /\ l <= Len(Rec)
    /\ LET e == IF Rec[l].case.op = "ranges" THEN Errors(Rec[l]) ELSE {}
           d == IF Rec[l].case.op = "ranges" THEN Diverge(Rec[l]) ELSE {} IN
       /\ (e # {} => /\ PrintT(ToJson([kind |-> "VIOL", case |-> Rec[l].case.id, errs |-> ToString(e)]))
                     /\ TLCSet(3, TLCGet(3) + 1))
       /\ (d # {} => /\ PrintT(ToJson([kind |-> "DIVERGE", case |-> Rec[l].case.id, errs |-> ToString(d)]))
                     /\ TLCSet(4, TLCGet(4) + 1))
    /\ l' = l + 1

UnusedInit == chunk = 4 /\ startWord = 0 /\ len = 0 /\ pos = 0 /\ endPos = 0 /\ out = <<>> /\ want = 0
              /\ accesses = 0 /\ pc = "x"
TraceSpec == (TInit /\ UnusedInit) /\ [][TNext /\ UNCHANGED srvars]_<<l, srvars>>

Report == PrintT(ToJson([kind |-> "SUMMARY", cases |-> Len(Rec), violations |-> TLCGet(3), divergences |-> TLCGet(4),
                         judged |-> TLCGet("stats").diameter - 1]))

=============================================================================
